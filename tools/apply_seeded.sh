#!/bin/bash
# tools/apply_seeded.sh <seeded-name> [tier] : the official way to run a registered check against a seeded
# change: apply it to /repo's working tree, run ./check for its property, and undo it straight afterwards
# (also on error / interrupt). Evidence and replays go to a scratch VERIF_DIR so that /verif/evidence keeps
# describing the unchanged tree. Nothing is ever committed to /repo.
N=$1; TIER=${2:-quick}
S=/verif/seeded/$N
ID=$(python3 -c "import json;print(json.load(open('$S/meta.json'))['property'])")
[ -z "$(git -C /repo status --porcelain)" ] || { echo "/repo working tree is not clean; refusing"; exit 2; }
restore() { git -C /repo checkout -- . ; }
trap restore EXIT INT TERM
git -C /repo apply $S/patch.diff || { echo "patch does not apply"; exit 2; }
OUT=/tmp/applyout/$N; rm -rf $OUT; mkdir -p $OUT; cp /verif/known_findings.json $OUT/
cd /verif
# ./check rebuilds from /repo's working tree (now containing the change); VERIF_DIR redirects evidence/replays only
VERIF_OUT=$OUT ./check $ID --tier $TIER 2>&1 | grep -E "^VIOLATION|^KNOWN-FINDING|verdict=|inconclusive" | cut -c1-200
rc=${PIPESTATUS[0]}
echo "exit=$rc"
