#!/bin/bash
# tools/mutcheck.sh <ID> <patch.diff|none> [tier] : run check <ID> against a scratch copy of the repo
# (/tmp/mutrepo, a git worktree) with the patch applied — WITHOUT touching /repo. The harness is copied to
# /tmp/mutharness with its path dependencies pointed at /tmp/mutrepo and built into its own target dir
# (never share a target dir between /repo and a scratch repo: cargo's metadata hash does not separate them).
set -e
ID=$1; PATCH=$2; TIER=${3:-quick}
case "$ID" in
  C01|C02|C03|C04|C05|C06|C07|C08|C10|C11|C12|C13|C14) BIN=model-mon ;;
  C26|C27|C28|C34|C41) BIN=lib-mon ;;
  C15|C16|C31|C40|C42|C43) BIN=sdk-mon ;;
  *) BIN=store-mon ;;
esac
[ -d /tmp/mutrepo ] || git -C /repo worktree add --detach /tmp/mutrepo HEAD >/dev/null
git -C /tmp/mutrepo checkout -q -- . ; git -C /tmp/mutrepo clean -fdq -e target
if [ "$PATCH" != none ]; then git -C /tmp/mutrepo apply "$PATCH"; fi
mkdir -p /tmp/mutharness
rsync -a --delete --exclude 'target*' /verif/harness/ /tmp/mutharness/
grep -rl '/repo/' /tmp/mutharness --include=Cargo.toml | xargs sed -i 's|"/repo/|"/tmp/mutrepo/|g'
cd /tmp/mutharness && CARGO_TARGET_DIR=/verif/harness/target-mut cargo build --release -p $BIN 2>&1 | grep -E "^error" -A8 | head -20
rm -rf /tmp/mutout/$ID; mkdir -p /tmp/mutout/$ID; cp /verif/known_findings.json /tmp/mutout/$ID/
if [ "$ID" = C09 ]; then
  CARGO_TARGET_DIR=/verif/harness/target-mut cargo build --release -p model-mon 2>&1 | grep -E "^error" -A8 | head -20
  VERIF_PART=model VERIF_DIR=/tmp/mutout/$ID /verif/harness/target-mut/release/model-mon $ID --tier $TIER 2>&1 | grep -E "^VIOLATION|^KNOWN|verdict=|inconclusive" | cut -c1-220 | head -60
fi
VERIF_DIR=/tmp/mutout/$ID /verif/harness/target-mut/release/$BIN $ID --tier $TIER 2>&1 | grep -E "^VIOLATION|^KNOWN|verdict=|inconclusive" | cut -c1-220 | head -60
git -C /tmp/mutrepo checkout -q -- . ; git -C /tmp/mutrepo clean -fdq -e target
