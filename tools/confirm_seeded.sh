#!/bin/bash
# tools/confirm_seeded.sh <seeded-name> <crate> <crate-dir> <demo-file.rs>
#   env EXTRA="--features x"      extra cargo test arguments
#   env INCRATE=<path rel. to repo> demo is an in-crate test module copied there (run with --lib only);
#   env WIRING=<diff in demo/>     applied before both runs (registers the in-crate module)
# Coordinator-side confirmation of a seeded change in a scratch worktree (/tmp/mutrepo2), never in /repo:
#   1. existing tests of the crate (--lib) + the demo integration test WITHOUT the patch -> must all pass
#   2. the same WITH the patch -> existing tests pass, demo fails
# Result summary in /tmp/mutconfirm/<name>.log
N=$1; CRATE=$2; CDIR=$3; FILE=$4
W=/tmp/mutrepo2; S=/verif/seeded/$N; L=/tmp/mutconfirm/$N.log
mkdir -p /tmp/mutconfirm
[ -d $W ] || git -C /repo worktree add --detach $W HEAD >/dev/null
cd $W; git checkout -q -- .; git clean -fdq -e target
STEM=${FILE%.rs}
if [ -n "${INCRATE:-}" ]; then
  mkdir -p $(dirname $W/$INCRATE); cp $S/demo/$FILE $W/$INCRATE; TARGETS="--lib"
  prep() { mkdir -p $(dirname $W/$INCRATE); cp $S/demo/$FILE $W/$INCRATE; [ -n "${WIRING:-}" ] && git apply $S/demo/$WIRING; }
else
  TARGETS="--lib --test $STEM"
  prep() { mkdir -p $W/$CDIR/tests; cp $S/demo/$FILE $W/$CDIR/tests/$FILE; }
fi
prep
run() { CARGO_NET_OFFLINE=true nice cargo test --offline -p $CRATE --no-fail-fast ${EXTRA:-} $TARGETS 2>&1 | grep -E "^test result|^test .*FAILED|^error(\[|:)|Running" | cut -c1-200; }
echo "== WITHOUT patch: existing lib tests + demo" > $L; run >> $L
git apply $S/patch.diff || echo "PATCH DOES NOT APPLY" >> $L
echo "== WITH patch: existing lib tests + demo" >> $L; run >> $L
git checkout -q -- .; git clean -fdq -e target
echo "== done" >> $L
