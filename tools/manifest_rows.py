# Filled in as checks come online. row(pid, engine, technique, level text, level note, built=True)
