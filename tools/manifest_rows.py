# One row per property: row(pid, engine, technique, level text, level note, built=True/False).
# `built=False` rows are listed under not_applicable ("not built yet") until the check is registered.
NB = "check not built / not validated yet (build in progress); nothing is claimed for this property"

BUILT = set(open(os.path.join(ROOT, "tools", "built.txt")).read().split())

def r(pid, engine, technique, text, note):
    row(pid, engine, technique, text, note if pid in BUILT else NB, built=pid in BUILT)

TB_MODEL = "trusted: the harness-side instrumented market (derived from the repo's TestMarket) wires the public model traits faithfully; BigInt oracle arithmetic (num-bigint); PRNG coverage only — nothing outside the generated cases is claimed"
TB_SVM = "trusted: hostsvm (harness runtime: CPI privilege rules, atomicity, sysvars; no compute/heap limits), real SPL processors, world builders; PRNG coverage only"
TB_LIB = "trusted: BigInt / BTreeMap reference models in the harness; PRNG coverage only"

r("C01", E1, "runtime monitor: real fixed-point helpers vs exact BigInt oracle on boundary-biased generated operands",
  "Exploration: 10^6–10^8 generated operand tuples per run for both numeric instantiations (u64/9, u128/20); every returned value is compared with the exactly rounded BigInt result, every None/Err must have a documented reason. Right level because the property is input-universal over pure functions: sampling with boundary bias reaches type limits and rounding edges the three literal inputs of the unit tests do not.", TB_MODEL)
r("C02", E1, "runtime monitor: fee splitting conservation and bounds vs BigInt formulas",
  "Exploration over generated amounts / fee, receiver and discount factors (incl. >100%) for swap, deposit, withdrawal, order and liquidation fees: exact conservation net+pool+receiver==gross, fee<=gross, discount monotone, invalid factors fail.", TB_MODEL)
r("C03", E1, "runtime monitor: price impact sign / round-trip oracle on generated pools and deltas",
  "Exploration over generated pool balances, deltas, prices, exponents and factor pairs (incl. positive>negative): sign rules, round-trip non-positivity, capped positive factor, virtual-inventory min rule, checked on PoolDelta::price_impact, swap and position impact.", TB_MODEL)
r("C04", E1, "runtime monitor: per-swap conservation + atomicity over random market histories",
  "Exploration: random histories on an instrumented market; after every swap the holdings of token-in/out must move by exactly the traded amounts; a failed swap must leave every pool bit-identical (no snapshot/restore by the driver).", TB_MODEL)
r("C05", E1, "runtime monitor: BigInt value bound on every executed swap",
  "Exploration: out*P_out.max <= in*P_in.min + funded positive impact (+ stated rounding), exact equality of the zero-fee zero-impact case, over random states / spreads / impact configs.", TB_MODEL)
r("C06", E1, "runtime monitor: deposit→withdraw round trip and per-LP value (exact rationals) over random histories",
  "Exploration: round trips on states reached by random deposits / swaps / positions; value out <= value in, market-token value of other LPs not lowered beyond stated integer rounding, first deposit priced at 1 USD.", TB_MODEL)
r("C07", E1, "runtime monitor: reference position set vs the six aggregate pools after every operation",
  "Exploration: random interleavings of increase / partial and full decrease / collateral-only / liquidation / failed attempts over 2–6 positions; exact equality of OI (usd, tokens) and collateral sums with the reference set.", TB_MODEL)
r("C08", E1, "runtime monitor: shadow token ledger fed from operation reports vs accounted holdings",
  "Exploration: conservation ledger per token after every operation, funding residual tracked with reported shortfalls; clock advanced between operations, funding / borrowing configs varied.", TB_MODEL)
r("C09", "model-mon + store-mon", "runtime monitor: BigInt liquidation-threshold recomputation (model) + real liquidate / ADL instructions in hostsvm",
  "Exploration at two levels: model level (thresholds recomputed exactly, cases placed at threshold±1 by bisection) and instruction level (liquidation closes the whole position; simulated liquidation right after an increase or a non-closing decrease is rejected; every successful liquidation was due on the pre-state brought up to date by update_fees_state (Position::as_position verdict under the liquidation thresholds at the event prices); liquidation / validation thresholds and min collateral value varied; ADL factor before/after recomputed from accounts).", TB_MODEL + "; " + TB_SVM)
r("C10", E1, "runtime monitor: open-then-close round trips at unchanged prices",
  "Exploration over sizes, leverages, collateral tokens, sides, states and impact/fee settings; total received <= collateral in + one base unit per operation.", TB_MODEL)
r("C11", E1, "runtime monitor: pnl monotonicity / cap / proportional share on cloned states",
  "Exploration over positions, price pairs, pool states, trader pnl caps; exact BigInt pnl recomputation; real partial / dust-remainder / full decreases on clones (realised pnl must be pnl_value for the size really closed).", TB_MODEL)
r("C12", E1, "runtime monitor: funding rate bounds and index monotonicity over histories",
  "Exploration over open-interest configurations, elapsed times, adaptive and non-adaptive funding parameter sets; indices never decrease, rate bounds, larger side pays — judged on the rate and on the four per-(side, collateral) index slots.", TB_MODEL)
r("C13", E1, "runtime monitor: borrowing accounting vs reference position set",
  "Exploration: cumulative factors monotone, total borrowing equals Σ size×factor over the reference set, pending fees computable, incl. the kink model whose rate is recomputed exactly (a failure where the result is representable is a violation).", TB_MODEL)
r("C14", E1, "runtime monitor: impact-pool distribution vs closed-form oracle",
  "Exploration over pool amounts, minimums, rates, elapsed times incl. 0 and huge, repeated distributions.", TB_MODEL)
r("C15", E4, "runtime monitor: pure-pool delta sequences vs single-total reference, program and SDK pools differential",
  "Exploration over totals up to u128::MAX and random signed-delta sequences on both pool implementations.", TB_LIB)
r("C16", E4, "runtime monitor: sentinel write/read-back of every config key through an independent key→accessor table",
  "Enumeration of every MarketConfigKey / flag / store key (EnumIter) with sentinel and random values; byte-diff confinement; program and SDK views.", TB_LIB)
r("C17", E2, "runtime monitor: freshly initialised market (real initialize_market in hostsvm) vs hand-written defaults table",
  "Enumeration of every config key and flag for pure and impure markets created through the real instruction.", TB_SVM)
r("C18", E2, "runtime monitor: role store vs set-of-grants reference model (direct and instruction level)",
  "Exploration over random enable/disable/grant/revoke/has sequences up to the 32-role / 64-member capacities, with and without pending cluster restart.", TB_SVM)
r("C19", E2, "runtime monitor: authority-mutation replay of traced successful transactions (role revoked / stranger / other-role holder)",
  "Exploration: every privileged instruction of the store, treasury, timelock, liquidity-provider and competition programs that a traced workload executed successfully (136 of 140 at the time of writing; per-program lists in the evidence) is replayed from its pre-state with mutated authority (required role revoked through the real revoke_role / stranger / holder of every other role incl. RESTART_ADMIN / for ownership-bound instructions a stranger equipped with its own user account) and must be rejected; instructions without a positive scenario are listed as uncovered in the evidence, never counted as held; a drift between the hand-written privilege tables and the #[program] modules makes the run inconclusive.", TB_SVM + "; privilege table hand-written from the instruction docs")
r("C20", E2, "runtime monitor: keeper permission policy reference vs real update_market_config(_flag/_with_buffer)",
  "Exploration over all keys and flags, updatable-permission changes, four actor classes, buffers mixing entries, expired buffers.", TB_SVM)
r("C21", E2, "runtime monitor: overlay reference model vs the real RevertibleMarket buffer (hooked constructor)",
  "Exploration over begin/read/write/commit/abandon sequences across all pool kinds, clocks and other state.", TB_SVM)
r("C22", E2, "runtime monitor: solvency invariant after every successful instruction of random multi-market histories in hostsvm",
  "Exploration: 4 markets sharing two vaults (one single-token market) and a GLV over three of them; deposits, withdrawals (incl. one-sided swap paths), shifts, swap/position orders with swap paths, decrease swap types and foreign receivers, GLV deposits / withdrawals / shifts, liquidations, driven ADL (about 120 successful per quick run), fee claims, keeper transfers; invariant checked at every quiescent point (after each successful transaction); minimum observation counts per operation class.", TB_SVM)
r("C23", E2, "runtime monitor: action lifecycle automaton + escrow/lamport conservation over random histories in hostsvm",
  "Exploration: create/execute/close by owner, keeper, stranger for deposits, withdrawals, shifts, orders (incl. a receiver other than the owner, who also tries to close them; decrease swap types varied) and GLV deposits / withdrawals / shifts; throwing and non-throwing executions, stale prices, re-execution of terminal actions, variable execution fees; automaton, soft-failure and close rules checked after every transaction.", TB_SVM)
r("C24", E2, "runtime monitor: independent re-derivation of oracle acceptance + cleared-after-use invariant",
  "Exploration over oracle settings, feed timestamps / spreads, clock moves, token subsets (real set_prices_from_price_feed), tokens with a second (Pyth) feed and randomly switched expected provider offered real PriceUpdateV2 accounts or custom feeds, and the exchange workload for the cleared-after-use rule.", TB_SVM)
r("C25", E2, "runtime monitor: custom price feed monotonicity over random update sequences (real instruction)",
  "Exploration over report timestamps, prices, clock moves, strict / idempotent modes.", TB_SVM)
r("C26", E3, "runtime monitor: price decimal conversion vs BigInt truncation oracle",
  "Exploration / enumeration over decimals, precisions and boundary prices up to u128::MAX.", TB_LIB)
r("C27", E3, "runtime monitor: market openness vs exact i128 restatement",
  "Exploration over statuses × policy flags × timestamps near the 64-bit limits, both diff units.", TB_LIB)
r("C28", E3, "runtime monitor + Miri: decode of random / mutated / structure-aware reports vs independent ABI slicing",
  "Exploration (no panic on any byte string, blob equality, conversion ordering / scaling) plus a Miri shard for UB in the decode path.", TB_LIB + "; Miri (nightly) for the UB part")
r("C29", E2, "runtime monitor: adjusted price band oracle (hooked function) + stored oracle prices at instruction level",
  "Exploration over feed prices, references, multipliers, deviation factors.", TB_SVM)
r("C30", E2, "runtime monitor: GT reference ledger vs store / user accounts after every instruction",
  "Exploration over mints (order-driven and reward), exchange requests, windows, rank tables, cost growth settings.", TB_SVM)
r("C31", E4, "runtime monitor: discount formula BigInt oracle; program vs SDK differential",
  "Exploration over rank tables <=100%, ranks, referral discounts.", TB_LIB)
r("C32", E2, "runtime monitor: builder-fee helper oracle (hooked) + settle_builder_fee token conservation",
  "Exploration over sizes, factors, prices, increments, outputs, repeated settlements.", TB_SVM)
r("C33", E2, "runtime monitor: referral reference relation vs user accounts after every instruction",
  "Exploration over code creation, referrer setting, transfers among >=5 users.", TB_SVM)
r("C34", E3, "runtime monitor + Miri: fixed_map! instances vs BTreeMap reference",
  "Exploration over op sequences on key universes 2–3× capacity for every capacity shape used by the programs plus tiny ones; Miri shard.", TB_LIB + "; Miri")
r("C35", E2, "runtime monitor: name round trip (helpers and real creating instructions)",
  "Enumeration of strings 0..cap+2 over an alphabet incl. NUL / multi-byte for every name field.", TB_SVM)
r("C36", E2, "runtime monitor: timelock reference automaton + CPI capture vs buffered instruction",
  "Exploration over create/approve/cancel/execute/increase-delay/role changes/clock interleavings and instruction shapes; initial delays from 0 s to near u32::MAX.", TB_SVM)
r("C37", E2, "runtime monitor: GT bank payout BigInt oracle over random claim orders (real treasury program)",
  "Exploration over bank balances, confirmed GT totals, claim orders; factor setters.", TB_SVM)
r("C38", E2, "runtime monitor: APY schedule BigInt definition + unstake rules at instruction level",
  "Exploration over stake times, gradients, values, unstake amounts.", TB_SVM)
r("C39", E2, "runtime monitor: leaderboard vs volume reference map after every counted trade",
  "Exploration over trade sequences from many traders, thresholds, merge windows, extensions.", TB_SVM)
r("C40", E4, "runtime monitor: SDK vs program differential on identical account bytes (accessors, layouts, simulations)",
  "Exploration over random valid market account contents, prices, action parameters.", TB_LIB)
r("C41", E3, "runtime monitor: transaction packing reference checks + real serialized size",
  "Exploration over random group sequences, signers, payers, lookup tables, memo, limits.", TB_LIB)
r("C42", E4, "runtime monitor: brute-force path enumeration oracle on small random market graphs (hooked constructor)",
  "Exploration over graphs <=6 tokens / <=8 markets, with and without negative cycles; the listed sub-optimality findings of the step-limited searches carry a residual bound (a lost path must have a token with a competing, at least as cheap arrival).", TB_LIB)
r("C43", E4, "runtime monitor: Decimal round trips for all integer classes × decimals",
  "Exploration over u64/u128/i128 values and decimals 0..40; no panic; unrepresentable ⇒ error.", TB_LIB)
r("C44", E2, "runtime monitor: independent path validator + SwapExecuted events + recorded-balance deltas (real swap orders in hostsvm)",
  "Exploration over swap paths of length 0..10 across 5 markets / 3 tokens, valid and invalid, swap orders and deposits with paths.", TB_SVM)
r("C45", E2, "runtime monitor: GLV composition / cap / round-trip oracles over real GLV instructions in hostsvm",
  "Exploration over GLV compositions, market states, prices, deposit / withdraw amounts.", TB_SVM)
