#!/usr/bin/env python3
"""Merge evidence/<ID>.<part>.json files (written by the engines serving one property) into evidence/<ID>.json."""
import json, sys, os, glob

vid, evdir = sys.argv[1], sys.argv[2]
parts = sorted(glob.glob(os.path.join(evdir, f"{vid}.*.json")))
if not parts:
    sys.exit(0)
docs = [(os.path.basename(p).split(".")[1], json.load(open(p))) for p in parts]
cov = {"evaluations": 0, "distinct_nontrivial": 0, "rule": "", "samples": [], "parts": {}}
out = {"property_id": vid, "tier": docs[0][1]["tier"], "seed": docs[0][1]["seed"], "level": "exploration",
       "coverage": cov, "assumptions": [], "wall_s": 0.0, "violations": 0}
verdicts = []
for name, d in docs:
    c = d["coverage"]
    cov["evaluations"] += c.get("evaluations", 0)
    cov["distinct_nontrivial"] += c.get("distinct_nontrivial", 0)
    cov["rule"] += f"[{name}] {c.get('rule','')} "
    cov["samples"] += [{"part": name, "case": s} for s in c.get("samples", [])][:6]
    cov["parts"][name] = {k: v for k, v in c.items() if k not in ("samples", "rule")}
    out["assumptions"] += [f"[{name}] {a}" for a in d.get("assumptions", [])]
    out["wall_s"] += d.get("wall_s", 0.0)
    out["violations"] += d.get("violations", 0)
    verdicts.append(c.get("verdict", "?"))
cov["verdict"] = "violated" if "violated" in verdicts else ("inconclusive" if "inconclusive" in verdicts else "held on what was observed")
json.dump(out, open(os.path.join(evdir, f"{vid}.json"), "w"), indent=1)
for p in parts:
    os.remove(p)
