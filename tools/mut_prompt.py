#!/usr/bin/env python3
"""Print the brief for a fresh mutation sub-agent: property text + its scratch worktree only (nothing from /verif)."""
import json, sys
pid = sys.argv[1]
suffix = sys.argv[2] if len(sys.argv) > 2 else ""
wt = f"/tmp/mut/{pid}{suffix}"
avoid = ""
if suffix:
    # second-round brief: only tells the agent which source change was already made by someone else
    import glob, os
    prev = []
    for f in sorted(glob.glob(f"/verif/seeded/{pid}-m*/meta.json")):
        m = json.load(open(f))
        prev.append(f"{', '.join(m.get('files_changed', []))}: {str(m.get('summary', ''))[:260]}")
    if prev:
        avoid = "\n\nAnother engineer has already made this change for the same property: " + " | ".join(prev) + "\nMake a DIFFERENT change: another function / mechanism, and if the property has several clauses, break another clause."
p = next(json.loads(l) for l in open('/verif/properties.jsonl') if json.loads(l)['id'] == pid)
print(f"""You are a software engineer studying how a semantic property of a codebase can be broken by a realistic, subtle code change (for testing a verification tool; this is a sealed sandbox, nothing leaves it).

Codebase: gmsol-labs/gmx-solana (GMX perpetuals/liquidity exchange ported to Solana: Anchor on-chain programs store/treasury/timelock/liquidity-provider/competition under programs/, a pure-Rust market math model crates/model, utils, SDK crates/sdk, CLI). You have your own scratch git worktree of it at {wt} (a full checkout at the pinned commit). Work ONLY inside {wt}. Do not read or write /verif or /repo. Everything is offline (cargo --offline; set CARGO_NET_OFFLINE=true); the machine is shared and heavily loaded, so builds are slow: build and test only the crate(s) you touch (e.g. `cargo test --offline -p gmsol-model`), never the whole workspace.

The property (id {pid}) — "{p['title']}":
{p['statement']}
It must hold over: {p['quantifier']['text']}
Where it lives (anchors): {', '.join(p['anchors']['files'])}{avoid}

Your task: produce ONE small, realistic change to the repository's own source (the kind of mistake or well-meant refactoring a maintainer could make: a dropped or weakened check, a swapped argument or side, a rounding direction, an off-by-one bound, a reordered pair of calls, a forgotten update on one path, two sites that each look fine alone) that BREAKS the property, while
 (a) the code still compiles, and
 (b) the existing unit tests of the touched crate(s) still pass unedited (run them, with and without your change), and
 (c) the break needs something specific to manifest — a particular multi-step sequence of operations, an unusual input or configuration, a particular interleaving / failure at a particular point — not something ordinary use would expose at once. Do not just delete a whole feature; do not touch tests; do not add `#[cfg(gmsol_verif)]` code (items under that cfg are test hooks — leave them alone).
Also write a demonstration: a new test (or small program) that FAILS with your change and PASSES without it, exercising the real code (put it in a new file under the touched crate's src or tests directory, or as a `#[cfg(test)] mod` appended in a new file; it may use the crate's `test` feature or public API). If on-chain instruction-level execution is impractical to demonstrate, demonstrate at the level of the function/struct you changed and explain the on-chain sequence that would expose it.

Deliver, in {wt}:
 - {wt}/MUTATION/patch.diff — `git diff` of your source change only (no demonstration, no target dir),
 - {wt}/MUTATION/demo/ — the demonstration file(s) plus a README with the exact commands to run it and the expected outcome with / without the patch,
 - {wt}/MUTATION/meta.json — {{"property": "{pid}", "summary": "...", "files_changed": [...], "needs_to_manifest": "...", "existing_tests_run": "command and result with patch", "demo_cmd": "...", "demo_result_with_patch": "...", "demo_result_without_patch": "..."}}.
Leave the worktree with your change APPLIED and the demo in place. Finally `rm -rf {wt}/target` (and any other build output you created) to free disk. Report in your final message: what you changed and why it breaks the property, what it needs to manifest, and the commands you ran with their results.""")
