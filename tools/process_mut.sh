#!/bin/bash
# tools/process_mut.sh <ID> <suffix(b)> <m-index> : store a finished sub-agent mutation under seeded/<ID>-m<k>,
# remove its scratch worktree, run the property's check against it in a scratch copy, print signatures.
ID=$1; SUF=$2; K=$3
D=/verif/seeded/$ID-m$K
mkdir -p $D; cp -r /tmp/mut/${ID}${SUF}/MUTATION/{patch.diff,meta.json,demo} $D/ 2>/dev/null
git -C /repo worktree remove --force /tmp/mut/${ID}${SUF} 2>/dev/null
/verif/tools/mutcheck.sh $ID $D/patch.diff quick 2>&1 | grep -E "verdict=|inconclusive" | cut -c1-200
python3 - <<PY
import json,glob
sigs={}
for f in glob.glob('/tmp/mutout/$ID/replays/*.json'):
    try:
        r=json.load(open(f)); sigs[r.get('signature')]=r.get('hits')
    except Exception: pass
print('$ID-m$K signatures:', sigs)
PY
