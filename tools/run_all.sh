#!/bin/bash
# tools/run_all.sh <tier> [ids...] : run the registered (or given) checks through ./check, print a summary table
TIER=${1:-quick}; shift
IDS="$@"
[ -z "$IDS" ] && IDS=$(python3 -c "import json;print(' '.join(c['property_id'] for c in json.load(open('/verif/MANIFEST.json'))['checks']))")
mkdir -p /verif/logs
for id in $IDS; do
  s=$(date +%s)
  ./check $id --tier $TIER > /verif/logs/run-$id.out 2>&1; rc=$?
  e=$(date +%s)
  echo "$id rc=$rc $((e-s))s viol=$(grep -c '^VIOLATION' /verif/logs/run-$id.out) known=$(grep -c '^KNOWN-FINDING' /verif/logs/run-$id.out) | $(grep 'verdict=' /verif/logs/run-$id.out | tail -1 | cut -c1-150)"
done
