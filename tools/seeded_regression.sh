#!/bin/bash
# tools/seeded_regression.sh : run every seeded change against the current monitors (scratch copy of /repo,
# tools/mutcheck.sh) and print one line per change: verdict + new (unlisted) signatures.
cd /verif
for d in seeded/*/; do
  n=$(basename $d); id=${n%%-*}
  out=$(tools/mutcheck.sh $id /verif/$d/patch.diff quick 2>&1 | grep -E "verdict=" | sed 's/.*verdict=\([A-Za-z]*\).*/\1/' | tr '\n' '+')
  sigs=$(python3 - <<PY
import json,glob
s=set()
for f in glob.glob('/tmp/mutout/$id/replays/*.json'):
    try: s.add(json.load(open(f)).get('signature'))
    except Exception: pass
print(len(s))
PY
)
  echo "$n verdict=$out signatures=$sigs"
done
