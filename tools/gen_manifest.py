#!/usr/bin/env python3
"""Generate /verif/MANIFEST.json from the table below (one row per property)."""
import json, os, sys

ROOT = os.path.dirname(os.path.dirname(os.path.abspath(__file__)))

# id -> (engine, technique, level text, level note)   ; a row with built=False goes to not_applicable
E1, E2, E3, E4 = "model-mon", "store-mon", "lib-mon", "sdk-mon"
ROWS = {}

def row(pid, engine, technique, text, note, built=True, design="DESIGN.md §5 " ):
    ROWS[pid] = dict(engine=engine, technique=technique, text=text, note=note, built=built,
                     design=design + pid)

# rows are filled in by tools/manifest_rows.py
exec(open(os.path.join(ROOT, "tools", "manifest_rows.py")).read())

props = [json.loads(l) for l in open(os.path.join(ROOT, "properties.jsonl"))]
checks, na = [], []
for p in props:
    pid = p["id"]
    r = ROWS.get(pid)
    if not r or not r["built"]:
        reason = (r or {}).get("note") or "check not built yet (build in progress); nothing is claimed for this property"
        na.append({"property_id": pid, "reason": reason})
        continue
    checks.append({
        "property_id": pid,
        "quick_cmd": f"./check {pid} --tier quick",
        "thorough_cmd": f"./check {pid} --tier thorough",
        "evidence_file": f"/verif/evidence/{pid}.json",
        "replay_cmd_template": f"./check {pid} --replay {{path}}",
        "engine": r["engine"],
        "level_claimed": {"category": "exploration", "text": r["text"], "design_ref": r["design"]},
        "level_note": r["note"],
        "technique": r["technique"],
    })

manifest = {
    "version": 1,
    "setup_cmd": "cd /verif/harness && CARGO_NET_OFFLINE=true cargo build --release --workspace",
    "hooks": {
        "guard": "--cfg gmsol_verif",
        "enable": "RUSTFLAGS '--cfg gmsol_verif' set by /verif/harness/.cargo/config.toml; the harness crates have path dependencies on /repo, so every check recompiles /repo's working tree with the hooks on",
        "baseline_off_cmd": "cd /repo && if cargo nextest --version >/dev/null 2>&1 && [ -f /w/lib/nextest.toml ]; then cargo nextest run --workspace --no-fail-fast --tool-config-file pb:/w/lib/nextest.toml --profile pb --test-threads 8 --offline; else cargo test --workspace --no-fail-fast --offline; fi",
        "source_commits": json.load(open(os.path.join(ROOT, "tools", "hook_commits.json"))),
        "add_only": True,
    },
    "engines": [
        {"name": E1, "path": "harness/model-mon", "serves_properties": [c["property_id"] for c in checks if c["engine"] == E1],
         "kind_free_text": "runtime monitors (BigInt oracles, shadow ledgers, reference position sets) over the real gmsol-model crate driven through an instrumented market"},
        {"name": E2, "path": "harness/store-mon", "serves_properties": [c["property_id"] for c in checks if c["engine"] == E2],
         "kind_free_text": "hostsvm: in-process runtime executing the real Anchor program entrypoints under syscall stubs, with invariant monitors after every instruction; plus direct monitors on program state types"},
        {"name": E3, "path": "harness/lib-mon", "serves_properties": [c["property_id"] for c in checks if c["engine"] == E3],
         "kind_free_text": "generated-input monitors with exact oracles over the utility crates; Miri shard for UB"},
        {"name": E4, "path": "harness/sdk-mon", "serves_properties": [c["property_id"] for c in checks if c["engine"] == E4],
         "kind_free_text": "differential monitors SDK vs program on identical account bytes"},
    ],
    "checks": checks,
    "not_applicable": na,
    "notes": "All checks are runtime monitoring (exploration level): held on the executions observed, never 'verified'. Known findings: /verif/known_findings.json.",
}
json.dump(manifest, open(os.path.join(ROOT, "MANIFEST.json"), "w"), indent=1)
print(f"{len(checks)} checks, {len(na)} not_applicable")
