//! C21 — uncommitted market operations never leak into stored state.
//!
//! Direct monitor on the real `RevertibleMarket` / `RevertibleLiquidityMarket` (hooks `verif_*`,
//! `--cfg gmsol_verif`) over real `Market` accounts created by the real `initialize_market`.
//!
//! How the real buffer code is reached: `RevertibleBuffer::commit_to_storage` emits its event through
//! a self-CPI and *panics* if that fails, and the clock methods need `Clock::get()`. Both only work
//! inside a transaction. So the monitor registers a tiny dispatcher under the store program id in
//! hostsvm: instruction data starting with `TAG` runs a scripted sequence of revertible operations on
//! the passed (real, store-owned, writable) market account; every other instruction (including the
//! event self-CPI issued by `commit`) is forwarded to the real `gmsol_store::entry`. Token mint/burn at
//! `RevertibleLiquidityMarket::commit` goes through the real SPL token processor with the store PDA
//! as signer. Nothing of the repo is re-implemented; the script only *calls* the public / hooked API.
//!
//! Oracle: an independent overlay model `{storage, overlay}` (copy on begin, replace on commit,
//! discard on drop) with plain checked integer arithmetic, compared after every step with everything
//! readable through the revertible view; byte comparisons of the account for "storage unchanged".
use crate::world::{exchange::load, pda, MarketInfo, World, STORE_PID};
use anchor_lang::prelude::*;
use anchor_lang::solana_program::{
    entrypoint::ProgramResult,
    instruction::{AccountMeta, Instruction},
    program_error::ProgramError,
};
use anchor_spl::token::{spl_token, Mint};
use gmsol_model::{
    price::{Price, Prices},
    Bank, BaseMarket, BaseMarketMut, BorrowingFeeMarket, BorrowingFeeMarketMut, ClockKind, LiquidityMarket,
    LiquidityMarketMut, PerpMarket, PerpMarketMut, Pool as _, PoolKind, PositionImpactMarket, PositionImpactMarketMut,
    SwapMarketMut,
};
use gmsol_store::states::{
    market::{
        pool::Pool,
        revertible::{Revertible, RevertibleLiquidityMarket, RevertibleMarket, Revision},
    },
    HasMarketMeta, Market, Store,
};
use hostsvm::token;
use std::cell::RefCell;
use vcommon::{json, monitor::run_shards, Args, Monitor, Rng};

const TAG: [u8; 8] = *b"\xffVRF-C21";

/// The 16 pool kinds in the order of the `Pools` struct (checked against the accessors at run time).
const KINDS: [PoolKind; 16] = [
    PoolKind::Primary,
    PoolKind::SwapImpact,
    PoolKind::ClaimableFee,
    PoolKind::OpenInterestForLong,
    PoolKind::OpenInterestForShort,
    PoolKind::OpenInterestInTokensForLong,
    PoolKind::OpenInterestInTokensForShort,
    PoolKind::PositionImpact,
    PoolKind::BorrowingFactor,
    PoolKind::FundingAmountPerSizeForLong,
    PoolKind::FundingAmountPerSizeForShort,
    PoolKind::ClaimableFundingAmountPerSizeForLong,
    PoolKind::ClaimableFundingAmountPerSizeForShort,
    PoolKind::CollateralSumForLong,
    PoolKind::CollateralSumForShort,
    PoolKind::TotalBorrowing,
];
const CLOCKS: [ClockKind; 5] = [
    ClockKind::PriceImpactDistribution,
    ClockKind::Borrowing,
    ClockKind::Funding,
    ClockKind::AdlForLong,
    ClockKind::AdlForShort,
];

// Account layout (derived from the struct definitions; verified against the accessors at run time):
// .. | state: State | buffer: { rev u64, pad 8, state: State } | vi swaps 32 | vi positions 32 | reserved 192
const POOL_SLOT: usize = 64; // rev 8 + pad 8 + Pool 48
const POOLS_SZ: usize = 32 * POOL_SLOT;
const CLOCKS_SZ: usize = 80;
const OTHER_SZ: usize = 320;
const STATE_SZ: usize = POOLS_SZ + CLOCKS_SZ + OTHER_SZ + 1024;
const TAIL_SZ: usize = 32 + 32 + 192;
const MSZ: usize = std::mem::size_of::<Market>();
const BUF_OFF: usize = MSZ - TAIL_SZ - 16 - STATE_SZ;
const STATE_OFF: usize = BUF_OFF - STATE_SZ;

#[derive(Clone, Debug)]
enum Step {
    Begin { liq: bool, mint_on: bool, burn_on: bool },
    PoolDelta { kind: u8, long_side: bool, delta: i128, via_trait: bool },
    ClockPass { which: u8 },
    ClockPeek { which: u8 },
    Transfer { inn: bool, long_token: bool, amount: u64 },
    Balance { long_token: bool },
    NextTradeId,
    SetFunding { value: i128 },
    FeesState,
    Mint { amount: u128 },
    Burn { amount: u128 },
    Commit,
    Drop,
    Fail,
}

impl Step {
    fn name(&self) -> &'static str {
        match self {
            Step::Begin { liq: false, .. } => "begin",
            Step::Begin { liq: true, .. } => "begin_liquidity",
            Step::PoolDelta { via_trait: false, .. } => "pool_write",
            Step::PoolDelta { via_trait: true, .. } => "pool_write_via_trait",
            Step::ClockPass { .. } => "clock_just_passed",
            Step::ClockPeek { .. } => "clock_passed_read",
            Step::Transfer { inn: true, .. } => "transferred_in",
            Step::Transfer { inn: false, .. } => "transferred_out",
            Step::Balance { .. } => "balance_read",
            Step::NextTradeId => "next_trade_id",
            Step::SetFunding { .. } => "set_funding_factor",
            Step::FeesState => "update_fees_state",
            Step::Mint { .. } => "mint",
            Step::Burn { .. } => "burn",
            Step::Commit => "commit",
            Step::Drop => "drop",
            Step::Fail => "fail_tx",
        }
    }
}

#[derive(Clone)]
struct View {
    pools: [[u8; 48]; 16],
    clocks: [u8; CLOCKS_SZ],
    other: [u8; OTHER_SZ],
}

/// What the script observed at one step.
#[derive(Clone)]
struct Obs {
    /// `Some(Ok(v))` / `Some(Err)` for steps with a result.
    ret: Option<std::result::Result<u128, String>>,
    view: Option<View>,
    /// Account bytes outside the buffer region equal the bytes before `begin`.
    storage_same: bool,
    /// The model-trait pool accessors return the same pools as `verif_pool(kind)`.
    trait_ok: bool,
    rev: u64,
    rev_at_off: u64,
    deferred: Option<(u64, u64)>,
    supply: Option<u128>,
    pre: Option<Vec<u8>>,
    post: Option<Vec<u8>>,
}

thread_local! {
    static SCRIPT: RefCell<Vec<Step>> = const { RefCell::new(Vec::new()) };
    static OBS: RefCell<Vec<Obs>> = const { RefCell::new(Vec::new()) };
    static EVENT_BUMP: std::cell::Cell<u8> = const { std::cell::Cell::new(0) };
}

fn entry<'a>(program_id: &Pubkey, accounts: &'a [AccountInfo<'a>], data: &[u8]) -> ProgramResult {
    if data.len() >= 8 && data[..8] == TAG {
        handler(accounts)
    } else {
        gmsol_store::entry(program_id, accounts, data)
    }
}

fn market_bytes(info: &AccountInfo) -> Vec<u8> {
    let d = info.try_borrow_data().expect("market data borrowed");
    d[8..8 + MSZ].to_vec()
}

fn outside_buffer_eq(a: &[u8], b: &[u8]) -> bool {
    a[..BUF_OFF] == b[..BUF_OFF] && a[BUF_OFF + 16 + STATE_SZ..] == b[BUF_OFF + 16 + STATE_SZ..]
}

enum Op<'a, 'info> {
    M(RevertibleMarket<'a, 'info>),
    L(RevertibleLiquidityMarket<'a, 'info>),
}

impl<'a, 'info> Op<'a, 'info> {
    fn base(&self) -> &RevertibleMarket<'a, 'info> {
        match self {
            Op::M(m) => m,
            Op::L(l) => l.verif_base(),
        }
    }
    fn base_mut(&mut self) -> &mut RevertibleMarket<'a, 'info> {
        match self {
            Op::M(m) => m,
            Op::L(l) => l.verif_base_mut(),
        }
    }
    fn commit(self) {
        match self {
            Op::M(m) => m.commit(),
            Op::L(l) => l.commit(),
        }
    }
}

fn pool_ref<'x>(rm: &'x RevertibleMarket<'_, '_>, k: PoolKind) -> gmsol_model::Result<&'x Pool> {
    match k {
        PoolKind::Primary => rm.liquidity_pool(),
        PoolKind::SwapImpact => rm.swap_impact_pool(),
        PoolKind::ClaimableFee => rm.claimable_fee_pool(),
        PoolKind::OpenInterestForLong => rm.open_interest_pool(true),
        PoolKind::OpenInterestForShort => rm.open_interest_pool(false),
        PoolKind::OpenInterestInTokensForLong => rm.open_interest_in_tokens_pool(true),
        PoolKind::OpenInterestInTokensForShort => rm.open_interest_in_tokens_pool(false),
        PoolKind::PositionImpact => rm.position_impact_pool(),
        PoolKind::BorrowingFactor => rm.borrowing_factor_pool(),
        PoolKind::FundingAmountPerSizeForLong => rm.funding_amount_per_size_pool(true),
        PoolKind::FundingAmountPerSizeForShort => rm.funding_amount_per_size_pool(false),
        PoolKind::ClaimableFundingAmountPerSizeForLong => rm.claimable_funding_amount_per_size_pool(true),
        PoolKind::ClaimableFundingAmountPerSizeForShort => rm.claimable_funding_amount_per_size_pool(false),
        PoolKind::CollateralSumForLong => rm.collateral_sum_pool(true),
        PoolKind::CollateralSumForShort => rm.collateral_sum_pool(false),
        PoolKind::TotalBorrowing => rm.total_borrowing_pool(),
        _ => Err(gmsol_model::Error::MissingPoolKind(k)),
    }
}

fn pool_mut_via_trait<'x>(rm: &'x mut RevertibleMarket<'_, '_>, k: PoolKind) -> gmsol_model::Result<&'x mut Pool> {
    match k {
        PoolKind::Primary => rm.liquidity_pool_mut(),
        PoolKind::SwapImpact => rm.swap_impact_pool_mut(),
        PoolKind::ClaimableFee => rm.claimable_fee_pool_mut(),
        PoolKind::OpenInterestForLong => rm.open_interest_pool_mut(true),
        PoolKind::OpenInterestForShort => rm.open_interest_pool_mut(false),
        PoolKind::OpenInterestInTokensForLong => rm.open_interest_in_tokens_pool_mut(true),
        PoolKind::OpenInterestInTokensForShort => rm.open_interest_in_tokens_pool_mut(false),
        PoolKind::PositionImpact => rm.position_impact_pool_mut(),
        PoolKind::BorrowingFactor => rm.borrowing_factor_pool_mut(),
        PoolKind::FundingAmountPerSizeForLong => rm.funding_amount_per_size_pool_mut(true),
        PoolKind::FundingAmountPerSizeForShort => rm.funding_amount_per_size_pool_mut(false),
        PoolKind::ClaimableFundingAmountPerSizeForLong => rm.claimable_funding_amount_per_size_pool_mut(true),
        PoolKind::ClaimableFundingAmountPerSizeForShort => rm.claimable_funding_amount_per_size_pool_mut(false),
        PoolKind::CollateralSumForLong => rm.collateral_sum_pool_mut(true),
        PoolKind::CollateralSumForShort => rm.collateral_sum_pool_mut(false),
        PoolKind::TotalBorrowing => rm.total_borrowing_pool_mut(),
        _ => Err(gmsol_model::Error::MissingPoolKind(k)),
    }
}

fn capture(op: &Op<'_, '_>, pre: &[u8]) -> (View, bool, bool, u64, u64) {
    let rm = op.base();
    let mut v = View { pools: [[0; 48]; 16], clocks: [0; CLOCKS_SZ], other: [0; OTHER_SZ] };
    let mut trait_ok = true;
    for (i, k) in KINDS.iter().enumerate() {
        let p = rm.verif_pool(*k).expect("pool kind exists");
        v.pools[i].copy_from_slice(bytemuck::bytes_of(&p));
        match pool_ref(rm, *k) {
            Ok(q) => trait_ok &= *q == p,
            Err(_) => trait_ok = false,
        }
    }
    v.clocks.copy_from_slice(bytemuck::bytes_of(rm.verif_clocks()));
    v.other.copy_from_slice(bytemuck::bytes_of(rm.verif_other()));
    let market: &Market = rm.as_ref();
    let bytes = bytemuck::bytes_of(market);
    let same = outside_buffer_eq(bytes, pre);
    let rev_at_off = u64::from_le_bytes(bytes[BUF_OFF..BUF_OFF + 8].try_into().unwrap());
    (v, same, trait_ok, rm.rev(), rev_at_off)
}

fn push(o: Obs) {
    OBS.with(|x| x.borrow_mut().push(o));
}

fn handler<'a>(accounts: &'a [AccountInfo<'a>]) -> ProgramResult {
    let script = SCRIPT.with(|s| s.borrow().clone());
    let mut i = 0usize;
    while i < script.len() {
        match &script[i] {
            Step::Begin { .. } => i = run_op(accounts, &script, i)?,
            Step::Fail => {
                push(Obs {
                    ret: None,
                    view: None,
                    storage_same: true,
                    trait_ok: true,
                    rev: 0,
                    rev_at_off: 0,
                    deferred: None,
                    supply: None,
                    pre: None,
                    post: None,
                });
                return Err(ProgramError::Custom(0xC21));
            }
            _ => i += 1,
        }
    }
    Ok(())
}

fn run_op<'a>(accounts: &'a [AccountInfo<'a>], script: &[Step], start: usize) -> std::result::Result<usize, ProgramError> {
    let Step::Begin { liq, mint_on, burn_on } = script[start] else {
        return Err(ProgramError::InvalidArgument);
    };
    let pre = market_bytes(&accounts[0]);
    let loader = AccountLoader::<Market>::try_from(&accounts[0])?;
    let bump = EVENT_BUMP.with(|b| b.get());
    let rm = RevertibleMarket::verif_new(&loader, &accounts[1], bump)?;
    if liq {
        let mint = Account::<Mint>::try_from(&accounts[4])?;
        let store = AccountLoader::<Store>::try_from(&accounts[3])?;
        let lm = RevertibleLiquidityMarket::verif_new(
            rm,
            &mint,
            &accounts[5],
            &store,
            mint_on.then_some(&accounts[6]),
            burn_on.then_some(&accounts[7]),
        )?;
        drive(Op::L(lm), accounts, script, start, pre)
    } else {
        drive(Op::M(rm), accounts, script, start, pre)
    }
}

fn ret_of<T, E: std::fmt::Display>(r: std::result::Result<T, E>, f: impl FnOnce(T) -> u128) -> Option<std::result::Result<u128, String>> {
    Some(match r {
        Ok(v) => Ok(f(v)),
        Err(e) => Err(e.to_string()),
    })
}

fn drive<'a, 'info>(
    mut op: Op<'a, 'info>,
    accounts: &[AccountInfo],
    script: &[Step],
    start: usize,
    pre: Vec<u8>,
) -> std::result::Result<usize, ProgramError> {
    let (long_mint, short_mint) = {
        let meta = op.base().market_meta();
        (meta.long_token_mint, meta.short_token_mint)
    };
    let record = |op: &Op<'a, 'info>, ret, with_pre: Option<Vec<u8>>| {
        let (view, same, trait_ok, rev, rev_at_off) = capture(op, &pre);
        let (deferred, supply) = match op {
            Op::L(l) => (Some(l.verif_deferred()), Some(l.total_supply())),
            Op::M(_) => (None, None),
        };
        push(Obs { ret, view: Some(view), storage_same: same, trait_ok, rev, rev_at_off, deferred, supply, pre: with_pre, post: None });
    };
    record(&op, None, Some(pre.clone()));
    let mut i = start + 1;
    loop {
        let step = script.get(i).cloned().unwrap_or(Step::Drop);
        i += 1;
        let ret = match step {
            Step::PoolDelta { kind, long_side, delta, via_trait } => {
                let k = KINDS[kind as usize];
                let rm = op.base_mut();
                let r = if via_trait { pool_mut_via_trait(rm, k) } else { rm.verif_pool_mut(k) }.and_then(|p| {
                    if long_side {
                        p.apply_delta_to_long_amount(&delta)
                    } else {
                        p.apply_delta_to_short_amount(&delta)
                    }
                });
                ret_of(r, |_| 0)
            }
            Step::ClockPass { which } => {
                let rm = op.base_mut();
                let r = match which {
                    0 => rm.just_passed_in_seconds_for_position_impact_distribution(),
                    1 => rm.just_passed_in_seconds_for_borrowing(),
                    _ => rm.just_passed_in_seconds_for_funding(),
                };
                ret_of(r, |d| d as u128)
            }
            Step::ClockPeek { which } => {
                let rm = op.base();
                let r = match which {
                    0 => rm.passed_in_seconds_for_position_impact_distribution(),
                    _ => rm.passed_in_seconds_for_borrowing(),
                };
                ret_of(r, |d| d as u128)
            }
            Step::Transfer { inn, long_token, amount } => {
                let token = if long_token { long_mint } else { short_mint };
                // Through the liquidity market's forwarding impl when one is open.
                let r = match (&mut op, inn) {
                    (Op::L(l), true) => l.record_transferred_in_by_token(&token, &amount),
                    (Op::L(l), false) => l.record_transferred_out_by_token(&token, &amount),
                    (Op::M(m), true) => m.record_transferred_in_by_token(&token, &amount),
                    (Op::M(m), false) => m.record_transferred_out_by_token(&token, &amount),
                };
                ret_of(r, |_| 0)
            }
            Step::Balance { long_token } => {
                let token = if long_token { long_mint } else { short_mint };
                ret_of(op.base().balance(&token), |b| b as u128)
            }
            Step::NextTradeId => ret_of(op.base_mut().verif_next_trade_id(), |v| v as u128),
            Step::SetFunding { value } => {
                *op.base_mut().funding_factor_per_second_mut() = value;
                let back = *op.base().funding_factor_per_second();
                Some(if back == value { Ok(0) } else { Err("funding factor read back differs".into()) })
            }
            Step::FeesState => {
                let prices = Prices {
                    index_token_price: Price { min: 59_990 * 10u128.pow(12), max: 60_010 * 10u128.pow(12) },
                    long_token_price: Price { min: 149 * 10u128.pow(11), max: 151 * 10u128.pow(11) },
                    short_token_price: Price { min: 10u128.pow(14), max: 10u128.pow(14) },
                };
                ret_of(op.base_mut().verif_update_fees_state(&prices), |_| 0)
            }
            Step::Mint { amount } => match &mut op {
                Op::L(l) => ret_of(l.mint(&amount), |_| 0),
                Op::M(_) => None,
            },
            Step::Burn { amount } => match &mut op {
                Op::L(l) => ret_of(l.burn(&amount), |_| 0),
                Op::M(_) => None,
            },
            Step::Commit | Step::Drop | Step::Begin { .. } | Step::Fail => {
                let commit = matches!(step, Step::Commit);
                if commit {
                    op.commit();
                } else {
                    drop(op);
                }
                let post = market_bytes(&accounts[0]);
                let rev_at_off = u64::from_le_bytes(post[BUF_OFF..BUF_OFF + 8].try_into().unwrap());
                push(Obs {
                    ret: None,
                    view: None,
                    storage_same: outside_buffer_eq(&post, &pre),
                    trait_ok: true,
                    rev: 0,
                    rev_at_off,
                    deferred: None,
                    supply: None,
                    pre: None,
                    post: Some(post),
                });
                // A `Begin`/`Fail` inside an operation is never generated; treat as drop and re-run it.
                return Ok(if matches!(step, Step::Commit | Step::Drop) { i } else { i - 1 });
            }
        };
        record(&op, ret, None);
    }
}

// ------------------------------------------------------------------------------------------------
// Reference model

#[derive(Clone, Debug, PartialEq, Eq)]
struct MPool {
    pure: u8,
    long: u128,
    short: u128,
}

#[derive(Clone, Debug, PartialEq, Eq)]
struct MState {
    pools: Vec<MPool>,
    clocks: [i64; 5],
    trade_count: u64,
    long_bal: u64,
    short_bal: u64,
    funding: i128,
}

fn parse_pool(b: &[u8]) -> MPool {
    MPool {
        pure: b[0],
        long: u128::from_le_bytes(b[16..32].try_into().unwrap()),
        short: u128::from_le_bytes(b[32..48].try_into().unwrap()),
    }
}

fn parse_clocks(b: &[u8]) -> [i64; 5] {
    let mut c = [0i64; 5];
    for (i, x) in c.iter_mut().enumerate() {
        *x = i64::from_le_bytes(b[16 + 8 * i..24 + 8 * i].try_into().unwrap());
    }
    c
}

fn parse_view(v: &View) -> MState {
    MState {
        pools: v.pools.iter().map(|p| parse_pool(p)).collect(),
        clocks: parse_clocks(&v.clocks),
        trade_count: u64::from_le_bytes(v.other[24..32].try_into().unwrap()),
        long_bal: u64::from_le_bytes(v.other[32..40].try_into().unwrap()),
        short_bal: u64::from_le_bytes(v.other[40..48].try_into().unwrap()),
        funding: i128::from_le_bytes(v.other[48..64].try_into().unwrap()),
    }
}

/// The stored state as parsed from raw account bytes with the derived layout.
fn parse_storage(bytes: &[u8]) -> MState {
    let s = &bytes[STATE_OFF..STATE_OFF + STATE_SZ];
    let o = &s[POOLS_SZ + CLOCKS_SZ..POOLS_SZ + CLOCKS_SZ + OTHER_SZ];
    MState {
        pools: (0..16).map(|i| parse_pool(&s[i * POOL_SLOT + 16..(i + 1) * POOL_SLOT])).collect(),
        clocks: parse_clocks(&s[POOLS_SZ..POOLS_SZ + CLOCKS_SZ]),
        trade_count: u64::from_le_bytes(o[24..32].try_into().unwrap()),
        long_bal: u64::from_le_bytes(o[32..40].try_into().unwrap()),
        short_bal: u64::from_le_bytes(o[40..48].try_into().unwrap()),
        funding: i128::from_le_bytes(o[48..64].try_into().unwrap()),
    }
}

/// The stored state as read through the repository's own public accessors.
fn storage_via_accessors(m: &Market) -> MState {
    let st = m.state();
    let mut clocks = [0i64; 5];
    for (i, k) in CLOCKS.iter().enumerate() {
        clocks[i] = m.clock(*k).unwrap_or(i64::MIN);
    }
    MState {
        pools: KINDS.iter().map(|k| parse_pool(bytemuck::bytes_of(&m.pool(*k).expect("kind")))).collect(),
        clocks,
        trade_count: st.trade_count(),
        long_bal: st.long_token_balance_raw(),
        short_bal: st.short_token_balance_raw(),
        funding: st.funding_factor_per_second(),
    }
}

#[derive(Clone)]
struct Model {
    storage: MState,
    rev: u64,
    pure_market: bool,
    supply: u64,
    receiver: u64,
    vault: u64,
    /// Number of operations abandoned with successful writes since the last commit.
    dirty_drops_since_commit: u64,
    consecutive_drops: u64,
}

struct OpenModel {
    overlay: MState,
    touched_pools: [bool; 16],
    touched_clocks: bool,
    touched_other: bool,
    wrote: u64,
    liq: bool,
    to_mint: u64,
    to_burn: u64,
    supply_at_begin: u64,
    pre: Vec<u8>,
}

struct Ctx<'a> {
    shard: u64,
    market: usize,
    tx: u64,
    now: i64,
    script: &'a [Step],
}

fn witness(cx: &Ctx, step: usize, detail: vcommon::serde_json::Value) -> vcommon::serde_json::Value {
    json!({
        "shard": cx.shard, "market": cx.market, "tx": cx.tx, "clock_unix_timestamp": cx.now, "step": step,
        "script": cx.script.iter().map(|s| format!("{s:?}")).collect::<Vec<_>>(),
        "detail": detail,
    })
}

fn diff_state(a: &MState, b: &MState) -> String {
    let mut out = vec![];
    for i in 0..16 {
        if a.pools[i] != b.pools[i] {
            out.push(format!("pool {:?}: observed {:?} model {:?}", KINDS[i], a.pools[i], b.pools[i]));
        }
    }
    if a.clocks != b.clocks {
        out.push(format!("clocks: observed {:?} model {:?}", a.clocks, b.clocks));
    }
    if (a.trade_count, a.long_bal, a.short_bal, a.funding) != (b.trade_count, b.long_bal, b.short_bal, b.funding) {
        out.push(format!(
            "other: observed {:?} model {:?}",
            (a.trade_count, a.long_bal, a.short_bal, a.funding),
            (b.trade_count, b.long_bal, b.short_bal, b.funding)
        ));
    }
    out.join("; ")
}

/// Replay the observations of one transaction against the model. Returns the index of the script
/// step at which the observations ended (== number of observations consumed).
fn check_tx(model: &mut Model, cx: &Ctx, obs: &[Obs], m: &mut Monitor) {
    let mut open: Option<OpenModel> = None;
    for (idx, (step, o)) in cx.script.iter().zip(obs.iter()).enumerate() {
        m.count(&format!("step_{}", step.name()));
        if let Some(Err(_)) = &o.ret {
            m.count(&format!("step_err_{}", step.name()));
        }
        match step {
            Step::Fail => return,
            Step::Begin { liq, .. } => {
                model.rev += 1;
                m.count("ops_begin");
                if model.dirty_drops_since_commit > 0 {
                    m.count("begin_after_abandoned_writes");
                }
                open = Some(OpenModel {
                    overlay: model.storage.clone(),
                    touched_pools: [false; 16],
                    touched_clocks: false,
                    touched_other: false,
                    wrote: 0,
                    liq: *liq,
                    to_mint: 0,
                    to_burn: 0,
                    supply_at_begin: model.supply,
                    pre: o.pre.clone().unwrap_or_default(),
                });
                if o.rev != model.rev || o.rev_at_off != model.rev {
                    m.inconclusive(&format!(
                        "harness: revision bookkeeping / layout self-check failed (rev {} at-offset {} model {})",
                        o.rev, o.rev_at_off, model.rev
                    ));
                }
            }
            _ => {}
        }
        let Some(om) = open.as_mut() else { continue };
        // Expected effect of the step on the overlay and its expected result.
        let mut expect: Option<std::result::Result<u128, ()>> = None;
        match step {
            Step::PoolDelta { kind, long_side, delta, .. } => {
                let p = &mut om.overlay.pools[*kind as usize];
                om.touched_pools[*kind as usize] = true;
                let target = if *long_side || p.pure != 0 { &mut p.long } else { &mut p.short };
                match target.checked_add_signed(*delta) {
                    Some(v) => {
                        if v != *target {
                            om.wrote += 1;
                        }
                        *target = v;
                        expect = Some(Ok(0));
                    }
                    None => expect = Some(Err(())),
                }
            }
            Step::ClockPass { which } => {
                om.touched_clocks = true;
                let last = &mut om.overlay.clocks[*which as usize];
                let d = cx.now.saturating_sub(*last);
                if d > 0 {
                    *last = cx.now;
                    om.wrote += 1;
                    expect = Some(Ok(d as u128));
                } else {
                    expect = Some(Ok(0));
                }
            }
            Step::ClockPeek { which } => {
                let d = cx.now.saturating_sub(om.overlay.clocks[*which as usize]);
                expect = Some(Ok(if d > 0 { d as u128 } else { 0 }));
            }
            Step::Transfer { inn, long_token, amount } => {
                om.touched_other = true;
                let bal = if *long_token || model.pure_market { &mut om.overlay.long_bal } else { &mut om.overlay.short_bal };
                let r = if *inn { bal.checked_add(*amount) } else { bal.checked_sub(*amount) };
                match r {
                    Some(v) => {
                        if v != *bal {
                            om.wrote += 1;
                        }
                        *bal = v;
                        expect = Some(Ok(0));
                    }
                    None => expect = Some(Err(())),
                }
            }
            Step::Balance { long_token } => {
                let b = if *long_token || model.pure_market { om.overlay.long_bal } else { om.overlay.short_bal };
                expect = Some(Ok(b as u128));
            }
            Step::NextTradeId => {
                // Documented: derived from the *stored* trade count (idempotent within an operation).
                om.touched_other = true;
                match model.storage.trade_count.checked_add(1) {
                    Some(id) => {
                        if om.overlay.trade_count != id {
                            om.wrote += 1;
                        }
                        om.overlay.trade_count = id;
                        expect = Some(Ok(id as u128));
                    }
                    None => expect = Some(Err(())),
                }
            }
            Step::SetFunding { value } => {
                om.touched_other = true;
                if om.overlay.funding != *value {
                    om.wrote += 1;
                }
                om.overlay.funding = *value;
                expect = Some(Ok(0));
            }
            Step::FeesState => {
                // Composite real-model write: the overlay adopts what the operation observed.
                if let Some(v) = &o.view {
                    let seen = parse_view(v);
                    if seen != om.overlay {
                        om.wrote += 1;
                    }
                    om.overlay = seen;
                }
                om.touched_pools = [true; 16];
                om.touched_clocks = true;
                om.touched_other = true;
            }
            Step::Mint { amount } if om.liq => {
                let r = u64::try_from(*amount)
                    .ok()
                    .and_then(|n| om.to_mint.checked_add(n))
                    .filter(|t| om.supply_at_begin.checked_add(*t).is_some());
                match r {
                    Some(t) => {
                        om.to_mint = t;
                        expect = Some(Ok(0));
                    }
                    None => expect = Some(Err(())),
                }
            }
            Step::Burn { amount } if om.liq => {
                let r = u64::try_from(*amount)
                    .ok()
                    .and_then(|n| om.to_burn.checked_add(n))
                    .filter(|t| om.supply_at_begin.checked_sub(*t).is_some());
                match r {
                    Some(t) => {
                        om.to_burn = t;
                        expect = Some(Ok(0));
                    }
                    None => expect = Some(Err(())),
                }
            }
            _ => {}
        }
        match step {
            Step::Commit | Step::Drop => {
                let om = open.take().unwrap();
                let Some(post) = &o.post else { continue };
                m.eval();
                let committed = matches!(step, Step::Commit);
                if o.rev_at_off != model.rev {
                    m.inconclusive("harness: buffer revision not found at the derived offset after the operation");
                }
                let mut sig: Vec<u8> = vec![committed as u8, om.liq as u8];
                for (i, t) in om.touched_pools.iter().enumerate() {
                    if *t {
                        sig.push(i as u8);
                    }
                }
                sig.push(100 + om.touched_clocks as u8);
                sig.push(110 + om.touched_other as u8);
                sig.push(120 + model.dirty_drops_since_commit.min(3) as u8);
                if committed {
                    m.count("ops_commit");
                    if om.wrote == 0 && om.to_mint == 0 && om.to_burn == 0 {
                        m.count("commit_no_writes");
                    } else {
                        m.count("commit_with_writes");
                    }
                    // bytes outside state and buffer never change
                    if post[..STATE_OFF] != om.pre[..STATE_OFF] || post[BUF_OFF + 16 + STATE_SZ..] != om.pre[BUF_OFF + 16 + STATE_SZ..] {
                        m.violation(
                            "C21:commit:bytes_outside_state_changed",
                            witness(cx, idx, json!("account bytes outside `state`/`buffer` differ after commit")),
                        );
                    }
                    let stored = parse_storage(post);
                    if stored != om.overlay {
                        m.violation(
                            "C21:commit:storage_differs_from_observed_writes",
                            witness(cx, idx, json!(diff_state(&stored, &om.overlay))),
                        );
                    }
                    // untouched kinds: byte-identical slots
                    let s = STATE_OFF;
                    let mut untouched_changed = vec![];
                    for i in 0..32 {
                        let touched = i < 16 && om.touched_pools[i];
                        let r = s + i * POOL_SLOT..s + (i + 1) * POOL_SLOT;
                        if !touched && post[r.clone()] != om.pre[r] {
                            untouched_changed.push(format!("pool slot {i}"));
                        }
                    }
                    let rc = s + POOLS_SZ..s + POOLS_SZ + CLOCKS_SZ;
                    if !om.touched_clocks && post[rc.clone()] != om.pre[rc] {
                        untouched_changed.push("clocks".into());
                    }
                    let ro = s + POOLS_SZ + CLOCKS_SZ..s + POOLS_SZ + CLOCKS_SZ + OTHER_SZ;
                    if !om.touched_other && post[ro.clone()] != om.pre[ro] {
                        untouched_changed.push("other".into());
                    }
                    let rr = s + POOLS_SZ + CLOCKS_SZ + OTHER_SZ..s + STATE_SZ;
                    if post[rr.clone()] != om.pre[rr] {
                        untouched_changed.push("state.reserved".into());
                    }
                    if !untouched_changed.is_empty() {
                        m.violation(
                            "C21:commit:untouched_state_changed",
                            witness(cx, idx, json!(untouched_changed)),
                        );
                    }
                    model.storage = om.overlay.clone();
                    if om.liq {
                        model.supply = model.supply + om.to_mint - om.to_burn;
                        model.receiver += om.to_mint;
                        model.vault = model.vault.saturating_sub(om.to_burn);
                        if om.to_mint > 0 {
                            m.count("liq_commit_minted");
                        }
                        if om.to_burn > 0 {
                            m.count("liq_commit_burned");
                        }
                    }
                    if om.wrote > 0 {
                        m.nontrivial(&sig);
                    }
                    model.dirty_drops_since_commit = 0;
                    model.consecutive_drops = 0;
                } else {
                    m.count("ops_drop");
                    if !o.storage_same {
                        m.violation(
                            "C21:drop:storage_changed",
                            witness(cx, idx, json!("account bytes outside the buffer differ after an abandoned operation")),
                        );
                    }
                    let stored = parse_storage(post);
                    if stored != model.storage {
                        m.violation(
                            "C21:drop:storage_changed",
                            witness(cx, idx, json!(diff_state(&stored, &model.storage))),
                        );
                    }
                    if om.wrote > 0 {
                        m.count("drop_with_writes");
                        model.dirty_drops_since_commit += 1;
                        m.nontrivial(&sig);
                    } else {
                        m.count("drop_without_writes");
                    }
                    if om.liq && (om.to_mint > 0 || om.to_burn > 0) {
                        m.count("liq_drop_with_deferred");
                    }
                    model.consecutive_drops += 1;
                    m.max("max_consecutive_drops", model.consecutive_drops);
                }
                continue;
            }
            _ => {}
        }
        // Per-step checks on the open operation.
        let om = open.as_ref().unwrap();
        m.eval();
        if !o.trait_ok {
            m.violation(
                "C21:step:trait_accessor_reads_other_pool",
                witness(cx, idx, json!("a model-trait pool accessor returned a pool different from the buffered view of its kind")),
            );
        }
        if let (Some(e), Some(r)) = (&expect, &o.ret) {
            let agree = match (e, r) {
                (Ok(a), Ok(b)) => a == b,
                (Err(()), Err(_)) => true,
                _ => false,
            };
            if !agree {
                m.violation(
                    "C21:step:read_result_differs_from_model",
                    witness(cx, idx, json!({"expected": format!("{e:?}"), "observed": format!("{r:?}")})),
                );
            }
        }
        if let Some(v) = &o.view {
            let seen = parse_view(v);
            if seen != om.overlay {
                let sig = if matches!(step, Step::Begin { .. }) {
                    "C21:begin:view_differs_from_storage"
                } else {
                    "C21:step:view_differs_from_model"
                };
                m.violation(sig, witness(cx, idx, json!(diff_state(&seen, &om.overlay))));
            }
        }
        if !o.storage_same {
            m.violation(
                "C21:step:storage_changed_before_commit",
                witness(cx, idx, json!("account bytes outside the buffer changed while the operation was open")),
            );
        }
        if om.liq {
            if o.deferred != Some((om.to_mint, om.to_burn)) {
                m.violation(
                    "C21:liquidity:deferred_counters_differ",
                    witness(cx, idx, json!({"observed": format!("{:?}", o.deferred), "model": [om.to_mint, om.to_burn]})),
                );
            }
            let sup = (om.supply_at_begin as u128).saturating_add(om.to_mint as u128).saturating_sub(om.to_burn as u128);
            if o.supply != Some(sup) {
                m.violation(
                    "C21:liquidity:total_supply_differs",
                    witness(cx, idx, json!({"observed": format!("{:?}", o.supply), "model": sup.to_string()})),
                );
            }
        }
    }
}

// ------------------------------------------------------------------------------------------------
// Workload

fn gen_delta(rng: &mut Rng, cur: u128) -> i128 {
    match rng.below(10) {
        0..=3 => rng.log_u128(10u128.pow(30)) as i128,
        4..=5 => -(rng.log_u128(cur.min(i128::MAX as u128)) as i128),
        6 => -(rng.log_u128(10u128.pow(12)) as i128),
        7 => *rng.pick(&[0i128, 1, -1, i128::MAX, i128::MIN, i128::MAX - 1]),
        8 => {
            // exactly drain / just overdraw
            let c = cur.min(i128::MAX as u128) as i128;
            if rng.bool() {
                -c
            } else {
                (-c).saturating_sub(1)
            }
        }
        _ => rng.biased_i128(crate::world::UNIT),
    }
}

fn gen_tx(rng: &mut Rng, model: &Model) -> Vec<Step> {
    let mut s = vec![];
    let n_ops = 1 + rng.weighted(&[50, 28, 14, 8]);
    // mood: 0 mixed, 1 drop-heavy (repeated abandonment), 2 commit-heavy
    let mood = rng.weighted(&[60, 25, 15]);
    for _ in 0..n_ops {
        let liq = rng.chance(1, 4);
        s.push(Step::Begin { liq, mint_on: rng.chance(19, 20), burn_on: rng.chance(19, 20) });
        let n = match rng.weighted(&[15, 45, 40]) {
            0 => 0,
            1 => rng.range(1, 3),
            _ => rng.range(4, 12),
        };
        for _ in 0..n {
            let w: [u32; 11] = [40, 12, 3, 15, 3, 6, 6, 3, if liq { 8 } else { 0 }, if liq { 8 } else { 0 }, 0];
            let st = match rng.weighted(&w) {
                0 => {
                    let kind = rng.below(16) as u8;
                    let long_side = rng.bool();
                    let p = &model.storage.pools[kind as usize];
                    let cur = if long_side || p.pure != 0 { p.long } else { p.short };
                    Step::PoolDelta { kind, long_side, delta: gen_delta(rng, cur), via_trait: rng.bool() }
                }
                1 => Step::ClockPass { which: rng.below(3) as u8 },
                2 => Step::ClockPeek { which: rng.below(2) as u8 },
                3 => {
                    let inn = rng.chance(3, 5);
                    let amount = match rng.below(8) {
                        0 => *rng.pick(&[0u64, 1, u64::MAX, u64::MAX - 1]),
                        1 => model.storage.long_bal,
                        2 => model.storage.short_bal.saturating_add(1),
                        _ => rng.log_u64(1_000_000_000_000_000),
                    };
                    Step::Transfer { inn, long_token: rng.bool(), amount }
                }
                4 => Step::Balance { long_token: rng.bool() },
                5 => Step::NextTradeId,
                6 => Step::SetFunding { value: rng.biased_i128(crate::world::UNIT) },
                7 => Step::FeesState,
                8 => Step::Mint {
                    amount: if rng.chance(1, 12) { rng.biased_u128(u128::MAX, 1 << 64) } else { rng.log_u128(1_000_000_000_000) },
                },
                _ => Step::Burn {
                    amount: if rng.chance(1, 12) {
                        rng.biased_u128(u128::MAX, 1 << 64)
                    } else {
                        rng.log_u128((model.vault as u128 / 4).max(1))
                    },
                },
            };
            s.push(st);
        }
        let commit = match mood {
            1 => rng.chance(1, 5),
            2 => rng.chance(4, 5),
            _ => rng.bool(),
        };
        s.push(if commit { Step::Commit } else { Step::Drop });
    }
    if rng.chance(1, 12) {
        s.push(Step::Fail);
    }
    s
}

fn script_ix(w: &World, mi: &MarketInfo, receiver: Pubkey) -> Instruction {
    Instruction {
        program_id: STORE_PID,
        accounts: vec![
            AccountMeta::new(mi.market, false),
            AccountMeta::new_readonly(w.event_authority(), false),
            AccountMeta::new_readonly(STORE_PID, false),
            AccountMeta::new_readonly(w.store, false),
            AccountMeta::new(mi.market_token, false),
            AccountMeta::new_readonly(spl_token::ID, false),
            AccountMeta::new(receiver, false),
            AccountMeta::new(w.vault(&mi.market_token), false),
        ],
        data: TAG.to_vec(),
    }
}

fn set_vault_amount(w: &mut World, market_token: &Pubkey, amount: u64) {
    use anchor_lang::solana_program::program_pack::Pack;
    let vault = w.vault(market_token);
    let owner = token::token_account(&w.svm, &vault).map(|a| a.owner).unwrap_or(w.store);
    let old = token::token_amount(&w.svm, &vault).unwrap_or(0);
    token::set_token_account(&mut w.svm, vault, *market_token, owner, amount);
    if let Some(acc) = w.svm.accounts.get_mut(market_token) {
        if let Ok(mut mint) = spl_token::state::Mint::unpack(&acc.data) {
            mint.supply = mint.supply - old + amount;
            mint.pack_into_slice(&mut acc.data);
        }
    }
}


// ------------------------------------------------------------------------------------------------
// Instruction level: abandoned (soft-failed) executions vs a twin world without them

use crate::world::exchange::{OrderKind, OrderReq};
use gmsol_store::states::{common::action::{Action, ActionState}, Deposit, Order, Withdrawal};

fn market_raw(w: &World, market: &Pubkey) -> Option<Vec<u8>> {
    w.svm.get(market).map(|a| a.data[8..8 + MSZ].to_vec())
}

fn refresh_prices(w: &mut World, toks: (usize, usize, usize), btc_usd: u128, sol_usd: u128) -> bool {
    let e18 = 1_000_000_000_000_000_000u128;
    w.set_price(toks.0, (btc_usd - 10) * e18, btc_usd * e18, (btc_usd + 10) * e18).is_ok()
        && w.set_price(toks.1, (sol_usd - 1) * e18, sol_usd * e18, (sol_usd + 1) * e18).is_ok()
        && w.set_price(toks.2, e18, e18, e18).is_ok()
}

/// One successful operation, identical in both worlds. Returns whether it executed.
fn good_op(w: &mut World, alice: Pubkey, m0: usize, toks: (usize, usize, usize), px: (u128, u128), which: u64, a: u64) -> bool {
    let ok = match which {
        0 => match w.create_deposit(alice, m0, 1_000_000_000 + a, 50_000_000 + a, None, None, &[], &[], 0) {
            Ok(d) => {
                w.svm.warp(1);
                let r = refresh_prices(w, toks, px.0, px.1) && w.execute_deposit(d, true).is_ok();
                let _ = w.close_deposit(alice, d);
                r
            }
            Err(_) => false,
        },
        1 | 2 => {
            let mut req = if which == 1 {
                let mut r = OrderReq::new(OrderKind::MarketIncrease, m0, true, false);
                r.initial_collateral_delta_amount = 100_000_000 + a;
                r.size_delta_value = 400 * crate::world::UNIT;
                r
            } else {
                let mut r = OrderReq::new(OrderKind::MarketDecrease, m0, true, false);
                r.size_delta_value = 150 * crate::world::UNIT;
                r
            };
            req.min_output = 0;
            match w.create_order(alice, &req) {
                Ok(o) => {
                    w.svm.warp(1);
                    let r = refresh_prices(w, toks, px.0, px.1) && w.execute_order(o, true).is_ok();
                    let _ = w.close_order(alice, o);
                    r
                }
                Err(_) => false,
            }
        }
        _ => {
            let mut req = OrderReq::new(OrderKind::MarketSwap, m0, true, false);
            req.initial_collateral_token = Some(w.tokens[toks.1].mint);
            req.initial_collateral_delta_amount = 200_000_000 + a;
            req.swap_path = vec![w.markets[m0].market_token];
            match w.create_order(alice, &req) {
                Ok(o) => {
                    w.svm.warp(1);
                    let r = refresh_prices(w, toks, px.0, px.1) && w.execute_order(o, true).is_ok();
                    let _ = w.close_order(alice, o);
                    r
                }
                Err(_) => false,
            }
        }
    };
    ok
}

fn twin_shard(args: &Args, shard: u64, m: &mut Monitor) {
    let mut rng = Rng::derive(args.seed, shard, 2121);
    let iters = args.scale(30, 60);
    let mut w = World::bootstrap_store();
    w.bootstrap_oracle();
    let btc = w.add_token("BTC", 8, 2, true);
    let sol = w.add_token("SOL", 9, 4, false);
    let usdc = w.add_token("USDC", 6, 6, false);
    let toks = (btc, sol, usdc);
    let m0 = w.add_market(btc, sol, usdc);
    let market = w.markets[m0].market;
    let alice = w.add_user("alice");
    let (sol_mint, usdc_mint) = (w.tokens[sol].mint, w.tokens[usdc].mint);
    token::fund_ata(&mut w.svm, &alice, &sol_mint, 10_000_000_000_000);
    token::fund_ata(&mut w.svm, &alice, &usdc_mint, 10_000_000_000_000);
    w.svm.warp(1);
    if !refresh_prices(&mut w, toks, 60_000, 150) {
        m.inconclusive("harness: twin bootstrap prices failed");
        return;
    }
    let boot = match w.create_deposit(alice, m0, 800_000_000_000, 200_000_000_000, None, None, &[], &[], 0) {
        Ok(d) => {
            let r = w.execute_deposit(d, true).is_ok();
            let _ = w.close_deposit(alice, d);
            r
        }
        Err(_) => false,
    };
    if !boot || !good_op(&mut w, alice, m0, toks, (60_000, 150), 1, 0) {
        m.inconclusive("harness: twin bootstrap liquidity / position failed");
        return;
    }
    for it in 0..iters {
        let px = (59_000 + rng.range(0, 2_000) as u128, 140 + rng.range(0, 20) as u128);
        let dt = rng.range(1, 900) as i64;
        let mut twin = w.clone();
        for x in [&mut w, &mut twin] {
            x.svm.warp(dt);
            if !refresh_prices(x, toks, px.0, px.1) {
                m.count("twin_price_refresh_failed");
            }
        }
        // abandoned executions in `w` only
        let n_bad = rng.range(1, 3);
        for _ in 0..n_bad {
            let Some(pre) = market_raw(&w, &market) else { return };
            let kind = rng.below(4);
            let (res, cancelled, name): (Option<crate::world::TxResult>, bool, &str) = match kind {
                0 => {
                    let mut req = OrderReq::new(OrderKind::MarketIncrease, m0, true, false);
                    req.initial_collateral_delta_amount = 50_000_000;
                    req.size_delta_value = 300 * crate::world::UNIT;
                    req.acceptable_price = Some(1); // unreachable for a long increase
                    match w.create_order(alice, &req) {
                        Ok(o) => {
                            w.svm.warp(1);
                            twin.svm.warp(1);
                            let _ = refresh_prices(&mut w, toks, px.0, px.1) && refresh_prices(&mut twin, toks, px.0, px.1);
                            let r = w.execute_order(o, false);
                            let c = load::<Order>(&w.svm, &o).and_then(|x| x.header().action_state().ok()).map(|s| s == ActionState::Cancelled).unwrap_or(false);
                            let _ = w.close_order(alice, o);
                            (Some(r), c, "increase_unacceptable_price")
                        }
                        Err(_) => (None, false, "increase_unacceptable_price"),
                    }
                }
                1 => {
                    let mut req = OrderReq::new(OrderKind::MarketSwap, m0, true, false);
                    req.initial_collateral_token = Some(sol_mint);
                    req.initial_collateral_delta_amount = 300_000_000;
                    req.swap_path = vec![w.markets[m0].market_token];
                    req.min_output = u64::MAX as u128;
                    match w.create_order(alice, &req) {
                        Ok(o) => {
                            w.svm.warp(1);
                            twin.svm.warp(1);
                            let _ = refresh_prices(&mut w, toks, px.0, px.1) && refresh_prices(&mut twin, toks, px.0, px.1);
                            let r = w.execute_order(o, false);
                            let c = load::<Order>(&w.svm, &o).and_then(|x| x.header().action_state().ok()).map(|s| s == ActionState::Cancelled).unwrap_or(false);
                            let _ = w.close_order(alice, o);
                            (Some(r), c, "swap_min_output")
                        }
                        Err(_) => (None, false, "swap_min_output"),
                    }
                }
                2 => match w.create_deposit(alice, m0, 2_000_000_000, 100_000_000, None, None, &[], &[], u64::MAX) {
                    Ok(d) => {
                        w.svm.warp(1);
                        twin.svm.warp(1);
                        let _ = refresh_prices(&mut w, toks, px.0, px.1) && refresh_prices(&mut twin, toks, px.0, px.1);
                        let r = w.execute_deposit(d, false);
                        let c = load::<Deposit>(&w.svm, &d).and_then(|x| x.header().action_state().ok()).map(|s| s == ActionState::Cancelled).unwrap_or(false);
                        let _ = w.close_deposit(alice, d);
                        (Some(r), c, "deposit_min_market_token")
                    }
                    Err(_) => (None, false, "deposit_min_market_token"),
                },
                _ => match w.create_withdrawal(alice, m0, 1_000_000_000, None, None, &[], &[], u64::MAX, u64::MAX) {
                    Ok(wd) => {
                        w.svm.warp(1);
                        twin.svm.warp(1);
                        let _ = refresh_prices(&mut w, toks, px.0, px.1) && refresh_prices(&mut twin, toks, px.0, px.1);
                        let r = w.execute_withdrawal(wd, false);
                        let c = load::<Withdrawal>(&w.svm, &wd).and_then(|x| x.header().action_state().ok()).map(|s| s == ActionState::Cancelled).unwrap_or(false);
                        let _ = w.close_withdrawal(alice, wd);
                        (Some(r), c, "withdrawal_min_output")
                    }
                    Err(_) => (None, false, "withdrawal_min_output"),
                },
            };
            let Some(res) = res else {
                m.count(&format!("twin_create_failed_{name}"));
                continue;
            };
            let Some(post) = market_raw(&w, &market) else { return };
            let rev_pre = u64::from_le_bytes(pre[BUF_OFF..BUF_OFF + 8].try_into().unwrap());
            let rev_post = u64::from_le_bytes(post[BUF_OFF..BUF_OFF + 8].try_into().unwrap());
            match res {
                Err((e, _)) => m.count(&format!("twin_bad_exec_tx_failed_{name}_{}", e.custom_code().unwrap_or(0))),
                Ok(_) if cancelled => {
                    m.eval();
                    m.count(&format!("twin_soft_failed_{name}"));
                    if rev_post > rev_pre {
                        m.count("twin_abandoned_revertible_operation_observed");
                    }
                    // The instruction also runs *committed* bookkeeping operations (escrow → vault transfer-in
                    // before, vault → escrow transfer-out after the failure) whose net effect on the recorded
                    // balances is zero but which re-stamp `other`; so: pools / clocks byte-identical, values of
                    // `other` equal.
                    let pc = STATE_OFF..STATE_OFF + POOLS_SZ + CLOCKS_SZ;
                    if post[pc.clone()] != pre[pc] || parse_storage(&post) != parse_storage(&pre) {
                        m.violation(
                            "C21:ix:cancelled_execution_changed_stored_market_state",
                            json!({"shard": shard, "iter": it, "kind": name, "diff": diff_state(&parse_storage(&post), &parse_storage(&pre)),
                                   "differing_state_offsets": (0..STATE_SZ).filter(|i| post[STATE_OFF + i] != pre[STATE_OFF + i]).take(64).collect::<Vec<_>>()}),
                        );
                    }
                }
                Ok(_) => m.count(&format!("twin_bad_exec_not_cancelled_{name}")),
            }
        }
        // the same successful operation in both worlds
        let which = rng.below(4);
        let a = rng.range(0, 1_000_000);
        let ra = good_op(&mut w, alice, m0, toks, px, which, a);
        let rb = good_op(&mut twin, alice, m0, toks, px, which, a);
        m.eval();
        if ra != rb {
            m.violation(
                "C21:twin:operation_outcome_differs_after_abandoned_execution",
                json!({"shard": shard, "iter": it, "op": which, "with_abandoned": ra, "without": rb}),
            );
        }
        let (Some(ma), Some(mb)) = (load::<Market>(&w.svm, &market), load::<Market>(&twin.svm, &market)) else {
            m.inconclusive("harness: twin market unreadable");
            return;
        };
        let (sa, sb) = (storage_via_accessors(&ma), storage_via_accessors(&mb));
        if sa != sb {
            m.violation(
                "C21:twin:stored_state_differs_from_world_without_abandoned_executions",
                json!({"shard": shard, "iter": it, "op": which, "diff(with abandoned vs without)": diff_state(&sa, &sb)}),
            );
        }
        if ra {
            m.count("twin_successful_op_compared");
            m.nontrivial(format!("twin|{which}|{n_bad}").as_bytes());
        } else {
            m.count("twin_op_failed_in_both");
        }
    }
}

pub fn run(args: &Args) -> Option<i32> {
    let mut mon = Monitor::new(
        args,
        "random histories of transactions, each a script of 1-4 revertible operations `begin (RevertibleMarket::verif_new / \
         RevertibleLiquidityMarket::verif_new) · steps · commit|drop` on a real Market account (one two-token and one \
         single-token market per shard), executed by the real buffer code inside hostsvm (a dispatcher under the store \
         program id runs the script; commit's event self-CPI and the mint/burn CPIs go to the real programs). Steps: pool \
         write over all 16 PoolKinds via verif_pool_mut or the model-trait accessor + Pool::apply_delta, clock write \
         (just_passed_* with the hostsvm clock warped / set back), other-state writes (Bank record_transferred_in/out, \
         next_trade_id, funding factor), update_fees_state (composite), liquidity mint/burn, reads. Some transactions fail \
         at the end (runtime rollback). After every step the whole revertible view is compared with an overlay model; \
         account bytes outside the buffer must not change before commit / after drop; after commit storage must equal \
         the overlay and untouched kinds must be byte-identical. non-trivial = an operation with at least one successful \
         value-changing write that was committed or abandoned and then checked; distinct = hash of (commit|drop, \
         liquidity?, set of touched pool kinds / clocks / other, #abandoned dirty operations since the last commit ≤3). \
         Second part (instruction level, twin worlds): real soft-failing executions (increase with unreachable acceptable \
         price, swap / deposit / withdrawal with unreachable minimum output, throw_on_execution_error = false) abandon a \
         revertible operation after update_fees_state has written into the buffer; the stored pools / clocks bytes and the \
         values of the other state must not change, and the next identical successful operation must leave the same stored state as in a cloned world that \
         never ran the abandoned executions",
    );
    mon.assume("market accounts are created by the real initialize_market; market-token vault balance / supply are seeded by state injection so that burns have something to burn");
    mon.assume("`next_trade_id` is documented to derive from the stored trade count (idempotent inside one operation); the model follows that");
    mon.assume("failed / panicking transactions are rolled back by the runtime (hostsvm atomicity), the model is rolled back with them");
    let shards = args.scale(64, 192);
    let txs = args.scale(3_000, 6_000);
    let twin_shards = args.scale(16, 48);
    let quiet = hostsvm::QuietStdout::new();
    run_shards(&mut mon, args.threads, shards + twin_shards, |shard, m| {
        if shard >= shards {
            twin_shard(args, shard - shards, m);
            return;
        }
        let mut rng = Rng::derive(args.seed, shard, 21);
        let mut w = World::bootstrap_store();
        w.bootstrap_oracle();
        let btc = w.add_token("BTC", 8, 2, true);
        let sol = w.add_token("SOL", 9, 4, false);
        let usdc = w.add_token("USDC", 6, 6, false);
        let m0 = w.add_market(btc, sol, usdc);
        let m1 = w.add_market(sol, sol, sol);
        w.svm.add_program(STORE_PID, entry);
        EVENT_BUMP.with(|b| b.set(pda::find_event_authority_address(&STORE_PID).1));
        let alice = w.add_user("alice");
        let keeper = w.keeper;
        let mut models = vec![];
        let mut receivers = vec![];
        for mi in [m0, m1] {
            let info = w.markets[mi].clone();
            let receiver = token::fund_ata(&mut w.svm, &alice, &info.market_token, rng.log_u64(1_000_000_000));
            set_vault_amount(&mut w, &info.market_token, 1_000_000_000_000 + rng.log_u64(1_000_000_000_000));
            let Some(market) = load::<Market>(&w.svm, &info.market) else {
                m.inconclusive("harness: market account missing after bootstrap");
                return;
            };
            let bytes = w.svm.get(&info.market).unwrap().data[8..8 + MSZ].to_vec();
            let storage = storage_via_accessors(&market);
            if storage != parse_storage(&bytes) {
                m.inconclusive("harness: derived Market layout does not match the accessors");
                return;
            }
            models.push(Model {
                storage,
                rev: u64::from_le_bytes(bytes[BUF_OFF..BUF_OFF + 8].try_into().unwrap()),
                pure_market: market.is_pure(),
                supply: token::mint_supply(&w.svm, &info.market_token).unwrap_or(0),
                receiver: token::token_amount(&w.svm, &receiver).unwrap_or(0),
                vault: token::token_amount(&w.svm, &w.vault(&info.market_token)).unwrap_or(0),
                dirty_drops_since_commit: 0,
                consecutive_drops: 0,
            });
            receivers.push(receiver);
        }
        for tx in 0..txs {
            // clock
            match rng.below(20) {
                0..=10 => w.svm.warp(rng.range(1, 120) as i64),
                11 => w.svm.warp(rng.range(1_000, 1_000_000) as i64),
                12 => {
                    let back = rng.range(1, 5_000) as i64;
                    let t = w.svm.clock.unix_timestamp - back;
                    w.svm.set_time(t);
                    m.count("clock_set_back");
                }
                _ => {}
            }
            let which = rng.below(2) as usize;
            let info = w.markets[[m0, m1][which]].clone();
            let script = gen_tx(&mut rng, &models[which]);
            SCRIPT.with(|s| *s.borrow_mut() = script.clone());
            OBS.with(|o| o.borrow_mut().clear());
            let ix = script_ix(&w, &info, receivers[which]);
            // `guard` only silences the panic message of a (caught, rolled back) panicking commit.
            let res = match vcommon::monitor::guard(|| w.send(&[ix], &[keeper])) {
                Ok(r) => r,
                Err(p) => {
                    m.inconclusive(&format!("harness: uncaught panic while sending: {p}"));
                    return;
                }
            };
            let obs = OBS.with(|o| std::mem::take(&mut *o.borrow_mut()));
            let cx = Ctx { shard, market: which, tx, now: w.svm.clock.unix_timestamp, script: &script };
            let mut work = models[which].clone();
            check_tx(&mut work, &cx, &obs, m);
            let wants_fail = matches!(script.last(), Some(Step::Fail));
            match &res {
                Ok(_) => {
                    m.count("tx_ok");
                    models[which] = work;
                    if wants_fail {
                        m.inconclusive("harness: a transaction that should fail succeeded");
                    }
                }
                Err((e, _)) => {
                    let has_liq = script.iter().any(|s| matches!(s, Step::Mint { .. } | Step::Burn { .. }));
                    if wants_fail && obs.len() == script.len() {
                        m.count("tx_failed_rolled_back");
                    } else if has_liq {
                        // A liquidity commit may legitimately abort (documented "should panic if the commitment
                        // cannot be done"): mint without receiver, burn without / beyond the vault.
                        m.count("tx_liquidity_commit_aborted_rolled_back");
                    } else if e.is_panic() && script.iter().any(|s| matches!(s, Step::FeesState)) {
                        m.count("tx_panic_with_update_fees_state");
                    } else if e.is_panic() {
                        m.count("tx_panic_unexplained");
                        m.set_extra("first_unexplained_tx_panic", json!({"error": format!("{e:?}"), "script": format!("{script:?}")}));
                    } else {
                        m.count("tx_error_unexplained");
                        m.set_extra("first_unexplained_tx_error", json!({"error": format!("{e:?}"), "observations": obs.len(), "script": format!("{script:?}")}));
                    }
                    // model keeps the pre-transaction state
                }
            }
            // Stored state after the transaction (committed or rolled back) through the repo's accessors.
            let Some(market) = load::<Market>(&w.svm, &info.market) else {
                m.inconclusive("harness: market account vanished");
                return;
            };
            m.eval();
            let stored = storage_via_accessors(&market);
            let model = &models[which];
            if stored != model.storage {
                m.violation(
                    "C21:tx:stored_state_differs_from_model",
                    witness(&cx, script.len(), json!(diff_state(&stored, &model.storage))),
                );
                // resynchronise so that one defect is not reported at every later step
                models[which].storage = stored;
            }
            let bytes = &w.svm.get(&info.market).unwrap().data[8..8 + MSZ];
            if parse_storage(bytes) != models[which].storage {
                m.inconclusive("harness: derived Market layout does not match the accessors");
            }
            let rev_now = u64::from_le_bytes(bytes[BUF_OFF..BUF_OFF + 8].try_into().unwrap());
            if rev_now != models[which].rev {
                m.inconclusive("harness: revision bookkeeping diverged");
                models[which].rev = rev_now;
            }
            let supply = token::mint_supply(&w.svm, &info.market_token).unwrap_or(0);
            let recv = token::token_amount(&w.svm, &receivers[which]).unwrap_or(0);
            let vault = token::token_amount(&w.svm, &w.vault(&info.market_token)).unwrap_or(0);
            let model = &models[which];
            if (supply, recv, vault) != (model.supply, model.receiver, model.vault) {
                m.violation(
                    "C21:liquidity:minted_or_burned_differs_from_committed_requests",
                    witness(
                        &cx,
                        script.len(),
                        json!({"observed": [supply, recv, vault], "model": [model.supply, model.receiver, model.vault]}),
                    ),
                );
                models[which].supply = supply;
                models[which].receiver = recv;
                models[which].vault = vault;
            }
            if m.wants_sample() && tx % 211 == 7 {
                m.sample(json!({"shard": shard, "tx": tx, "market": which, "script": script.iter().map(|s| format!("{s:?}")).collect::<Vec<_>>(), "result": format!("{:?}", res.as_ref().map(|_| ()).map_err(|e| &e.0))}));
            }
        }
        // which pool kinds were written
        let _ = sol;
        let _ = usdc;
    });
    drop(quiet);
    if mon.counter("tx_error_unexplained") + mon.counter("tx_panic_unexplained") > 0 {
        mon.inconclusive("some scripted transactions failed for a reason the harness cannot explain (see first_unexplained_* in the evidence)");
    }
    mon.require("ops_commit", 2_000);
    mon.require("ops_drop", 2_000);
    mon.require("drop_with_writes", 1_000);
    mon.require("commit_with_writes", 1_000);
    mon.require("commit_no_writes", 100);
    mon.require("begin_after_abandoned_writes", 1_000);
    mon.require("step_pool_write", 2_000);
    mon.require("step_pool_write_via_trait", 2_000);
    mon.require("step_clock_just_passed", 500);
    mon.require("step_transferred_in", 300);
    mon.require("step_next_trade_id", 300);
    mon.require("liq_commit_minted", 50);
    mon.require("liq_commit_burned", 50);
    mon.require("liq_drop_with_deferred", 50);
    mon.require("tx_failed_rolled_back", 50);
    mon.require("twin_abandoned_revertible_operation_observed", 300);
    mon.require("twin_successful_op_compared", 300);
    mon.require("tx_liquidity_commit_aborted_rolled_back", 20);
    Some(mon.finish())
}
