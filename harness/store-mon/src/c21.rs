//! Monitor for C21 (see /verif/DESIGN.md §5 C21).
use vcommon::Args;

pub fn run(_args: &Args) -> Option<i32> {
    None
}
