//! Engine E2 `store-mon`: monitors over the real on-chain programs executed in `hostsvm`,
//! plus direct monitors on program state types.
#![allow(clippy::too_many_arguments)]
pub mod sim;
pub mod world;

mod c17;
mod c18;
mod c19;
mod c20;
mod c21;
mod c22;
mod c23;
mod c24;
mod c25;
mod c29;
mod c30;
mod c32;
mod c33;
mod c35;
mod c36;
mod c37;
mod c38;
mod c39;
mod c44;
mod c45;
mod c09;

fn main() {
    let args = vcommon::Args::parse();
    let code: Option<i32> = match args.id.as_str() {
        "smoke" => Some(world::smoke()),
        "simdbg" => {
            let mut sim = sim::Sim::new(args.seed, 0);
            for _ in 0..args.scale(300, 900) {
                let rec = sim.step();
                if let Some(h) = sim.history.last() {
                    if matches!(rec.op, sim::Op::CreateOrder { .. } | sim::Op::Execute { .. } | sim::Op::Liquidate { .. }) {
                        eprintln!("{h}");
                    }
                }
            }
            Some(0)
        }
        "C17" => c17::run(&args),
        "C18" => c18::run(&args),
        "C19" => c19::run(&args),
        "C20" => c20::run(&args),
        "C21" => c21::run(&args),
        "C22" => c22::run(&args),
        "C23" => c23::run(&args),
        "C24" => c24::run(&args),
        "C25" => c25::run(&args),
        "C29" => c29::run(&args),
        "C30" => c30::run(&args),
        "C32" => c32::run(&args),
        "C33" => c33::run(&args),
        "C35" => c35::run(&args),
        "C36" => c36::run(&args),
        "C37" => c37::run(&args),
        "C38" => c38::run(&args),
        "C39" => c39::run(&args),
        "C44" => c44::run(&args),
        "C45" => c45::run(&args),
        "C09" => c09::run(&args),
        _ => None,
    };
    match code {
        Some(c) => std::process::exit(c),
        None => {
            eprintln!("store-mon: no monitor for {}", args.id);
            std::process::exit(2)
        }
    }
}
