//! Engine E2 `store-mon`: monitors over the real on-chain programs executed in `hostsvm`,
//! plus direct monitors on program state types.
pub mod world;

fn main() {
    let args = vcommon::Args::parse();
    let code: Option<i32> = match args.id.as_str() {
        "smoke" => Some(world::smoke()),
        _ => None,
    };
    match code {
        Some(c) => std::process::exit(c),
        None => {
            eprintln!("store-mon: no monitor for {}", args.id);
            std::process::exit(2)
        }
    }
}
