//! Monitor for C30 (see /verif/DESIGN.md §5 C30).
use vcommon::Args;

pub fn run(_args: &Args) -> Option<i32> {
    None
}
