//! Monitor for C30 "GT balances, mint cost and user ranks stay consistent" (see /verif/DESIGN.md §5 C30).
//!
//! Random histories of the real store-program instructions `initialize_gt`, `toggle_gt_minting`,
//! order create/execute/close (GT minted from paid order fees, referral reward on close),
//! `mint_gt_reward`, `gt_set_exchange_time_window`, `prepare_gt_exchange_vault`, `request_gt_exchange`,
//! `confirm_gt_exchange_vault_v2`, `close_gt_exchange`, with clock moves across exchange windows, are
//! executed in hostsvm. A small sequential reference model (per-user balances, total minted, vault
//! amounts) plus BigInt recomputation of the minting cost decides every successful instruction.
use crate::world::{
    exchange::{load, OrderKind, OrderReq},
    gt::{gt_updated_events, GtParams},
    World, UNIT,
};
use anchor_lang::prelude::Pubkey;
use gmsol_store::{events::GtUpdateKind, states::Position};
use hostsvm::{token, TxError};
use std::collections::{BTreeMap, BTreeSet};
use vcommon::{
    json,
    monitor::{guard, run_shards},
    num_bigint::BigInt,
    num_traits::ToPrimitive,
    serde_json::Value,
    Args, Monitor, Rng,
};

const E18: u128 = 1_000_000_000_000_000_000;
/// Largest number of cost steps a single mint may cross / a history may reach (the program loops once
/// per step; the bound keeps the workload finite, it is not part of the oracle).
const MAX_STEPS_PER_MINT: u128 = 3_000;
const MAX_STEPS_PER_HISTORY: u128 = 40_000;
const MAX_RANK: usize = 15;

struct Base {
    w: World,
    users: Vec<Pubkey>,
    market: usize,
    tokens: [usize; 3],
}

fn refresh_prices(w: &mut World, t: &[usize; 3]) -> bool {
    let a = w.set_price(t[0], 59_990 * E18, 60_000 * E18, 60_010 * E18).is_ok();
    let b = w.set_price(t[1], 149 * E18, 150 * E18, 151 * E18).is_ok();
    let c = w.set_price(t[2], E18, E18, E18).is_ok();
    a && b && c
}

/// Store, oracle, one market with liquidity, four funded traders with user accounts, one referral.
/// Any failure here is a harness error (panic ⇒ the shard is reported inconclusive).
fn base_world() -> Base {
    let mut w = World::bootstrap_store();
    w.bootstrap_oracle();
    let btc = w.add_token("BTC", 8, 2, true);
    let sol = w.add_token("SOL", 9, 4, false);
    let usdc = w.add_token("USDC", 6, 6, false);
    let market = w.add_market(btc, sol, usdc);
    let tokens = [btc, sol, usdc];
    assert!(refresh_prices(&mut w, &tokens), "bootstrap: set prices");
    let (sol_mint, usdc_mint) = (w.tokens[sol].mint, w.tokens[usdc].mint);
    let lp = w.add_user("lp");
    token::fund_ata(&mut w.svm, &lp, &sol_mint, 20_000_000_000_000);
    token::fund_ata(&mut w.svm, &lp, &usdc_mint, 3_000_000_000_000);
    let d = w
        .create_deposit(lp, market, 800_000_000_000, 700_000_000_000, None, None, &[], &[], 0)
        .unwrap_or_else(|(e, _)| panic!("bootstrap: create_deposit {e:?}"));
    w.execute_deposit(d, true).unwrap_or_else(|(e, _)| panic!("bootstrap: execute_deposit {e:?}"));
    w.close_deposit(lp, d).unwrap_or_else(|(e, _)| panic!("bootstrap: close_deposit {e:?}"));
    let mut users = vec![];
    for name in ["t0", "t1", "t2", "t3"] {
        let u = w.add_user(name);
        token::fund_ata(&mut w.svm, &u, &sol_mint, 100_000_000_000_000);
        token::fund_ata(&mut w.svm, &u, &usdc_mint, 100_000_000_000_000);
        w.prepare_user(u).unwrap_or_else(|(e, _)| panic!("bootstrap: prepare_user {e:?}"));
        users.push(u);
    }
    // t1 is referred by t0 (referral rewards are minted to t0 when t1's orders are closed).
    let code = *b"c30refer";
    w.initialize_referral_code(users[0], code).unwrap_or_else(|(e, _)| panic!("bootstrap: referral code {e:?}"));
    w.set_referrer(users[1], users[0], code).unwrap_or_else(|(e, _)| panic!("bootstrap: set_referrer {e:?}"));
    Base { w, users, market, tokens }
}

#[derive(Clone, Debug)]
struct VaultModel {
    index: i64,
    window: i64,
    amount: u64,
    confirmed: bool,
}

struct Model {
    p: GtParams,
    /// Stored rank table (`init` keeps at most MAX_RANK thresholds).
    ranks: Vec<u64>,
    /// `costs[k]` = minting cost after `k` grow steps, recomputed from the initial cost (BigInt);
    /// `None` = does not fit u128 (the program reports an error there).
    costs: Vec<Option<u128>>,
    total: u64,
    /// Balance per user-account address.
    bal: BTreeMap<Pubkey, u64>,
    /// User accounts that had a non-zero mint or burn.
    touched: BTreeSet<Pubkey>,
    gt_vault: u64,
    vaults: BTreeMap<Pubkey, VaultModel>,
    exchanges: BTreeMap<(Pubkey, Pubkey), u64>,
    minting_enabled: bool,
    last_total_seen: u64,
}

impl Model {
    fn new(p: &GtParams) -> Self {
        let n = p.ranks.len().min(MAX_RANK);
        Self {
            p: p.clone(),
            ranks: p.ranks[..n].to_vec(),
            costs: vec![Some(p.initial_minting_cost)],
            total: 0,
            bal: BTreeMap::new(),
            touched: BTreeSet::new(),
            gt_vault: 0,
            vaults: BTreeMap::new(),
            exchanges: BTreeMap::new(),
            minting_enabled: false,
            last_total_seen: 0,
        }
    }

    /// Cost after `k` steps: `c_{i+1} = ⌊c_i · factor / 10^20⌋`, step by step from the initial cost.
    fn cost_at(&mut self, k: u128) -> Option<u128> {
        let k = k as usize;
        while self.costs.len() <= k {
            let next = match self.costs.last().copied().flatten() {
                None => None,
                Some(c) => {
                    let v: BigInt = BigInt::from(c) * BigInt::from(self.p.grow_factor) / BigInt::from(UNIT);
                    v.to_u128()
                }
            };
            self.costs.push(next);
        }
        self.costs[k]
    }

    fn steps(&self) -> u128 {
        self.total as u128 / self.p.grow_step as u128
    }

    /// The program loops once per crossed step: keep mints within a finite number of steps.
    fn steps_ok(&self, amount: u64) -> bool {
        let t = self.total as u128 + amount as u128;
        if t > u64::MAX as u128 {
            return true; // rejected before the loop
        }
        let ns = t / self.p.grow_step as u128;
        ns - self.steps() <= MAX_STEPS_PER_MINT && ns <= MAX_STEPS_PER_HISTORY
    }

    fn rank_of(&self, balance: u64) -> usize {
        self.ranks.iter().filter(|t| **t <= balance).count()
    }

    fn apply_mint(&mut self, user: Pubkey, amount: u64) {
        if amount != 0 {
            *self.bal.entry(user).or_insert(0) += amount;
            self.total += amount;
            self.touched.insert(user);
        }
    }
}

struct Ctx<'a> {
    seed: u64,
    shard: u64,
    hist: u64,
    log: &'a mut Vec<String>,
}

impl Ctx<'_> {
    fn witness(&self, md: &Model, detail: Value) -> Value {
        let n = self.log.len();
        let from = n.saturating_sub(400);
        json!({
            "seed": self.seed, "shard": self.shard, "history": self.hist,
            "gt_params": {
                "decimals": md.p.decimals,
                "initial_minting_cost": md.p.initial_minting_cost.to_string(),
                "grow_factor": md.p.grow_factor.to_string(),
                "grow_step": md.p.grow_step.to_string(),
                "ranks": md.p.ranks.iter().map(|r| r.to_string()).collect::<Vec<_>>(),
            },
            "ops_before": self.log[from..].to_vec(),
            "ops_omitted": from,
            "detail": detail,
        })
    }
}

fn err_name(e: &TxError) -> String {
    match e {
        TxError::Program(p) => match e.custom_code() {
            Some(c) => format!("custom_{c}"),
            None => format!("program_{p:?}").chars().take(40).collect(),
        },
        TxError::Panic(_) => "panic".into(),
        TxError::Runtime(r) => format!("runtime_{}", r.chars().take(24).collect::<String>()),
    }
}

fn gen_params(rng: &mut Rng) -> (GtParams, &'static str) {
    let class = ["grow", "grow", "grow", "grow", "grow", "grow", "grow", "shrink", "shrink", "flat", "huge_factor", "tiny_cost", "zero_factor"]
        [rng.below(13) as usize];
    let decimals = rng.below(10) as u8;
    let mut grow_step = match rng.below(4) {
        0 => rng.range(1, 10),
        _ => rng.log_u64(1_000_000_000_000).max(1),
    };
    // USD value (20 decimals) of one grow step.
    let p_step: u128 = 10u128.pow(rng.range(18, 22) as u32) * rng.range(1, 9) as u128;
    let mut cost = (p_step / grow_step as u128).max(1);
    let grow_factor = match class {
        "grow" => UNIT + UNIT / 10_000 * rng.range(1, 500) as u128,
        "shrink" => UNIT - UNIT / 10_000 * rng.range(1, 300) as u128,
        "flat" => UNIT,
        "huge_factor" => UNIT * rng.range(2, 1_000) as u128 + rng.range(0, 1_000_000) as u128,
        "zero_factor" => 0,
        _ => UNIT + UNIT / 100,
    };
    if class == "tiny_cost" {
        cost = rng.range(0, 3) as u128;
        grow_step = rng.range(1 << 50, 1 << 60);
    }
    let n = if rng.chance(1, 10) { rng.range(16, 20) } else { rng.range(0, 15) } as usize;
    let mut ranks = vec![];
    let mut acc: u64 = if rng.chance(1, 12) { 0 } else { rng.log_u64(grow_step.saturating_mul(4)).max(1) };
    for _ in 0..n {
        ranks.push(acc);
        acc = acc.saturating_add(rng.log_u64(grow_step.saturating_mul(30)).max(1));
    }
    ranks.dedup();
    (GtParams { decimals, initial_minting_cost: cost, grow_factor, grow_step, ranks }, class)
}

/// Invalid `initialize_gt` arguments: every one of them must leave the GT state uninitialized.
fn try_invalid_inits(w: &mut World, rng: &mut Rng, p: &GtParams, m: &mut Monitor) {
    if rng.chance(1, 3) {
        let mut q = p.clone();
        q.grow_step = 0;
        m.count(if w.initialize_gt(&q).is_err() { "init_zero_step_rejected" } else { "init_zero_step_accepted" });
    }
    if p.ranks.len() >= 2 && rng.chance(1, 3) {
        let mut q = p.clone();
        let i = rng.below(q.ranks.len().min(MAX_RANK) as u64 - 1) as usize;
        if rng.bool() {
            q.ranks.swap(i, i + 1);
        } else {
            q.ranks[i + 1] = q.ranks[i];
        }
        m.count(if w.initialize_gt(&q).is_err() { "init_unsorted_ranks_rejected" } else { "init_unsorted_ranks_accepted" });
    }
}

/// Quiescent-point oracle: run after every successful instruction.
fn check_global(w: &World, md: &mut Model, m: &mut Monitor, cx: &Ctx, after: &str) {
    m.eval();
    let Some(gt) = w.gt_state() else {
        m.inconclusive("harness: store account unreadable");
        return;
    };
    let users = w.all_user_headers();
    // (1) buyback-able supply == Σ user balances (every user account of the store).
    let sum: u128 = users.iter().map(|(_, u)| u.gt().amount() as u128).sum();
    if sum != gt.supply() as u128 {
        m.violation(
            "C30:global:supply_ne_sum_of_balances",
            cx.witness(md, json!({"after": after, "supply": gt.supply().to_string(), "sum_balances": sum.to_string()})),
        );
    }
    // (2) total minted never decreases (and equals the reference model's Σ mints).
    if gt.total_minted() < md.last_total_seen {
        m.violation(
            "C30:global:total_minted_decreased",
            cx.witness(md, json!({"after": after, "before": md.last_total_seen.to_string(), "now": gt.total_minted().to_string()})),
        );
    }
    md.last_total_seen = gt.total_minted();
    if gt.total_minted() != md.total {
        m.violation(
            "C30:global:total_minted_ne_model",
            cx.witness(md, json!({"after": after, "onchain": gt.total_minted().to_string(), "model": md.total.to_string()})),
        );
    }
    // (3) cost is a function of total minted only: ⌊T/step⌋ sequential factor applications from the initial cost.
    let steps = gt.total_minted() as u128 / md.p.grow_step as u128;
    if gt.grow_steps() as u128 != steps {
        m.violation(
            "C30:global:grow_steps_ne_total_div_step",
            cx.witness(md, json!({"after": after, "grow_steps": gt.grow_steps().to_string(), "expected": steps.to_string()})),
        );
    }
    if steps <= MAX_STEPS_PER_HISTORY + MAX_STEPS_PER_MINT {
        match md.cost_at(steps) {
            Some(c) if c == gt.minting_cost() => {}
            other => {
                m.violation(
                    "C30:global:minting_cost_ne_recomputed",
                    cx.witness(md, json!({"after": after, "total_minted": gt.total_minted().to_string(), "steps": steps.to_string(),
                        "onchain_cost": gt.minting_cost().to_string(), "recomputed": other.map(|c| c.to_string())})),
                );
            }
        }
    }
    // (4) per-user balances equal the reference model; rank == #thresholds ≤ balance.
    for (key, u) in &users {
        let expect = md.bal.get(key).copied().unwrap_or(0);
        if u.gt().amount() != expect {
            m.violation(
                "C30:global:balance_ne_model",
                cx.witness(md, json!({"after": after, "user_account": key.to_string(), "onchain": u.gt().amount().to_string(), "model": expect.to_string()})),
            );
        }
        let rank = md.rank_of(u.gt().amount());
        if u.gt().rank() as usize != rank {
            let sig = if md.touched.contains(key) { "C30:rank:ne_thresholds_at_or_below_balance" } else { "C30:rank:stale_for_user_without_mint_or_burn" };
            m.violation(
                sig,
                cx.witness(md, json!({"after": after, "user_account": key.to_string(), "balance": u.gt().amount().to_string(),
                    "stored_rank": u.gt().rank(), "thresholds_at_or_below": rank})),
            );
        }
        m.max("max_rank_seen", u.gt().rank() as u64);
    }
    // (5) reference model of burns: everything burnt sits in a vault; confirmed vault amounts are in gt_vault.
    if gt.gt_vault() != md.gt_vault {
        m.violation(
            "C30:global:gt_vault_ne_confirmed_vault_amounts",
            cx.witness(md, json!({"after": after, "gt_vault": gt.gt_vault().to_string(), "model": md.gt_vault.to_string()})),
        );
    }
    let mut vault_sum: u128 = 0;
    for (key, v) in w.all_gt_vaults() {
        vault_sum += v.amount() as u128;
        let mv = md.vaults.get(&key);
        if mv.map(|x| (x.amount, x.confirmed)) != Some((v.amount(), v.is_confirmed())) {
            m.violation(
                "C30:global:vault_ne_model",
                cx.witness(md, json!({"after": after, "vault": key.to_string(), "amount": v.amount().to_string(), "confirmed": v.is_confirmed(),
                    "model": mv.map(|x| format!("{x:?}"))})),
            );
        }
    }
    if gt.supply() as u128 + vault_sum != gt.total_minted() as u128 {
        m.violation(
            "C30:global:supply_plus_vaults_ne_total_minted",
            cx.witness(md, json!({"after": after, "supply": gt.supply().to_string(), "vaults": vault_sum.to_string(), "total_minted": gt.total_minted().to_string()})),
        );
    }
}

/// `get_mint_amount` on the real GT state (hook `verif_get_mint_amount`) against the BigInt formula.
fn check_get_mint_amount(w: &World, rng: &mut Rng, n: usize, md: &Model, m: &mut Monitor, cx: &Ctx) {
    let Some(gt) = w.gt_state() else { return };
    let cost = gt.minting_cost();
    for _ in 0..n {
        let size = match rng.below(5) {
            0 => rng.biased_u128(u128::MAX, cost.max(1)),
            1 => cost.saturating_mul(rng.log_u64(u64::MAX) as u128).saturating_add(rng.below_u128(cost.max(1))),
            2 => cost.saturating_mul(u64::MAX as u128).saturating_add(rng.range_u128(0, cost.max(1).saturating_mul(2))).saturating_sub(cost.max(1)),
            3 => rng.log_u128(u128::MAX),
            _ => rng.log_u128(10_000 * UNIT),
        };
        m.eval();
        m.count("get_mint_amount_direct");
        let r = guard(|| gt.verif_get_mint_amount(size));
        let w_ = |why: &str, got: Value| cx.witness(md, json!({"why": why, "size_in_value": size.to_string(), "minting_cost": cost.to_string(), "got": got}));
        match r {
            Err(p) => {
                m.count("panics");
                m.count("get_mint_amount_panic");
                let _ = p;
            }
            Ok(Err(_)) => {
                if cost == 0 {
                    m.count("get_mint_amount_zero_cost_rejected");
                } else if BigInt::from(size) / BigInt::from(cost) > BigInt::from(u64::MAX) {
                    m.count("get_mint_amount_overflow_rejected");
                } else {
                    m.count("get_mint_amount_unexpected_err");
                }
            }
            Ok(Ok((minted, minted_value, used_cost))) => {
                if cost == 0 {
                    m.violation("C30:get_mint_amount:ok_with_zero_cost", w_("cost is zero", json!(minted.to_string())));
                    continue;
                }
                let q = BigInt::from(size) / BigInt::from(cost);
                let rem = BigInt::from(size) - &q * BigInt::from(cost);
                let ok = BigInt::from(minted) == q
                    && BigInt::from(minted_value) == &q * BigInt::from(cost)
                    && used_cost == cost
                    && rem >= BigInt::from(0)
                    && rem < BigInt::from(cost)
                    && BigInt::from(size) - BigInt::from(minted_value) == rem;
                if !ok {
                    m.violation(
                        "C30:get_mint_amount:ne_floor_of_value_over_cost",
                        w_("minted / minted value / cost differ from ⌊v/c⌋, ⌊v/c⌋·c, c", json!([minted.to_string(), minted_value.to_string(), used_cost.to_string()])),
                    );
                } else {
                    m.count("get_mint_amount_ok");
                    if minted > 0 && rem > BigInt::from(0) {
                        m.nontrivial(&[b"gma".as_slice(), &size.to_le_bytes(), &cost.to_le_bytes()].concat());
                    }
                }
            }
        }
    }
}

fn mint_amount(rng: &mut Rng, md: &Model) -> u64 {
    let s = md.p.grow_step;
    let to_boundary = s - md.total % s;
    match rng.below(12) {
        0 => 0,
        1 => to_boundary,
        2 => to_boundary.saturating_sub(1),
        3 => to_boundary.saturating_add(1),
        4 => s.saturating_mul(rng.range(1, 20)),
        5 => s.saturating_mul(rng.range(1, 200)).saturating_add(rng.below(s)),
        6 if md.total > 0 => u64::MAX,
        7 if md.total > 0 => u64::MAX - md.total + rng.range(0, 1),
        8 => rng.log_u64(s.saturating_mul(50)).max(1),
        _ => {
            let k = rng.range(1, 4);
            rng.range(1, s.saturating_mul(k))
        }
    }
}

fn current_index(w: &World, window: i64) -> i64 {
    w.svm.clock.unix_timestamp / window
}

/// `mint_gt_reward` with the per-instruction oracle. Returns true on success.
fn op_mint(w: &mut World, md: &mut Model, m: &mut Monitor, cx: &mut Ctx, owner: Pubkey, amount: u64) -> bool {
    let keeper = w.keeper;
    let user = w.user_pda(&owner);
    cx.log.push(format!("mint_gt_reward owner={owner} amount={amount} t={}", w.svm.clock.unix_timestamp));
    let steps_before = md.steps();
    let rank_before = w.user_header(&owner).map(|u| u.gt().rank());
    match w.mint_gt_reward(keeper, owner, amount) {
        Ok(meta) => {
            m.count("mint_reward_ok");
            if amount == 0 {
                m.count("mint_reward_zero_amount_ok");
            }
            md.apply_mint(user, amount);
            if md.steps() > steps_before {
                m.count("mint_crossed_cost_step");
                m.add("cost_steps_crossed", (md.steps() - steps_before) as u64);
            }
            for e in gt_updated_events(&meta) {
                if matches!(e.kind, GtUpdateKind::Reward) && e.receiver_delta != amount {
                    m.violation(
                        "C30:mint_gt_reward:event_delta_ne_amount",
                        cx.witness(md, json!({"amount": amount.to_string(), "event_delta": e.receiver_delta.to_string()})),
                    );
                }
            }
            check_global(w, md, m, cx, "mint_gt_reward");
            if w.user_header(&owner).map(|u| u.gt().rank()) != rank_before {
                m.count("rank_changed");
            }
            if amount != 0 {
                m.nontrivial(&[b"mint".as_slice(), &amount.to_le_bytes(), &md.total.to_le_bytes(), &md.p.grow_step.to_le_bytes()].concat());
            }
            true
        }
        Err((e, _)) => {
            let t = md.total as u128 + amount as u128;
            let expected = if t > u64::MAX as u128 {
                "mint_reward_rejected_amount_overflow"
            } else if md.cost_at(t / md.p.grow_step as u128).is_none() {
                "mint_reward_rejected_cost_overflow"
            } else if e.is_panic() {
                m.count("panics");
                "mint_reward_panicked"
            } else {
                "mint_reward_rejected_other"
            };
            m.count(expected);
            m.count(&format!("mint_reward_err_{}", err_name(&e)));
            false
        }
    }
}

/// Twin experiment: the same total reached by one mint or by several smaller ones gives the same cost.
fn op_twin(w: &World, md: &Model, rng: &mut Rng, m: &mut Monitor, cx: &Ctx, users: &[Pubkey]) {
    let s = md.p.grow_step;
    let x = match rng.below(3) {
        0 => s.saturating_mul(rng.range(1, 30)),
        1 => (s - md.total % s).saturating_add(rng.below(s.saturating_mul(3))),
        _ => {
            let k = rng.range(1, 12);
            rng.range(1, s.saturating_mul(k))
        }
    };
    if !md.steps_ok(x) || md.total.checked_add(x).is_none() {
        m.count("twin_skipped");
        return;
    }
    let keeper = w.keeper;
    let mut a = w.clone();
    let mut b = w.clone();
    let k = rng.range(2, 6) as usize;
    let mut cuts: Vec<u64> = (0..k - 1).map(|_| rng.range(0, x)).collect();
    cuts.sort();
    let mut parts = vec![];
    let mut prev = 0;
    for c in cuts.iter().chain(std::iter::once(&x)) {
        parts.push(c - prev);
        prev = *c;
    }
    let ra = a.mint_gt_reward(keeper, users[0], x).is_ok();
    let mut rb = true;
    let mut desc = vec![];
    for p in &parts {
        let warp = if rng.chance(1, 3) { rng.range_i64(1, 200_000) } else { 0 };
        if warp > 0 {
            b.svm.warp(warp);
        }
        let u = *rng.pick(users);
        desc.push(format!("{p}->{u} after +{warp}s"));
        rb &= b.mint_gt_reward(keeper, u, *p).is_ok();
    }
    m.eval();
    match (ra, rb) {
        (true, true) => {
            let (ga, gb) = (a.gt_state().expect("gt"), b.gt_state().expect("gt"));
            m.count("twin_compared");
            if (x as u128 + md.total as u128) / s as u128 > md.steps() {
                m.count("twin_compared_across_cost_step");
            }
            if ga.minting_cost() != gb.minting_cost() || ga.grow_steps() != gb.grow_steps() || ga.total_minted() != gb.total_minted() {
                m.violation(
                    "C30:twin:cost_depends_on_how_minting_was_split",
                    cx.witness(md, json!({"total_before": md.total.to_string(), "one_mint": x.to_string(), "split": desc,
                        "one": [ga.total_minted().to_string(), ga.grow_steps().to_string(), ga.minting_cost().to_string()],
                        "many": [gb.total_minted().to_string(), gb.grow_steps().to_string(), gb.minting_cost().to_string()]})),
                );
            }
            m.nontrivial(&[b"twin".as_slice(), &x.to_le_bytes(), &md.total.to_le_bytes(), &(k as u64).to_le_bytes()].concat());
        }
        (false, false) => m.count("twin_both_rejected"),
        _ => m.count("twin_one_side_rejected"),
    }
}

/// Create + execute + close one position order; GT minted from the paid fee is checked against
/// ⌊(paid − already minted for) / cost⌋ with the remainder carried.
fn op_order(base: &Base, w: &mut World, md: &mut Model, rng: &mut Rng, m: &mut Monitor, cx: &mut Ctx) {
    if !refresh_prices(w, &base.tokens) {
        m.count("price_refresh_failed");
        return;
    }
    let owner = *rng.pick(&base.users);
    let user = w.user_pda(&owner);
    let pos_key = w.position_pda(&owner, base.market, false, false);
    let size_now = load::<Position>(&w.svm, &pos_key).map(|p| p.state.size_in_usd).unwrap_or(0);
    let decrease = size_now > 0 && rng.chance(2, 5);
    let mut req;
    if decrease {
        req = OrderReq::new(OrderKind::MarketDecrease, base.market, false, false);
        req.size_delta_value = if rng.chance(1, 3) { size_now } else { (size_now / 100 * rng.range(5, 95) as u128).max(UNIT) };
    } else {
        req = OrderReq::new(OrderKind::MarketIncrease, base.market, false, false);
        let usd = rng.log_u64(30_000).max(20) as u128;
        req.size_delta_value = usd * UNIT + rng.below_u128(UNIT);
        req.initial_collateral_delta_amount = ((usd / rng.range(2, 8) as u128 + 5) * 1_000_000) as u64;
    }
    // Finite-loop guard (not an oracle): worst-case mint must stay within the step bound.
    let Some(pre_u) = w.user_header(&owner) else { return };
    let Some(pre_gt) = w.gt_state() else { return };
    let carry = pre_u.gt().paid_fee_value().saturating_sub(pre_u.gt().minted_fee_value());
    let fee_bound = req.size_delta_value / 500 + size_now / 50;
    let fee_floor = req.size_delta_value / 4_000;
    if pre_gt.minting_cost() != 0 {
        let worst = (carry + fee_bound) / pre_gt.minting_cost();
        let least = (carry + fee_floor) / pre_gt.minting_cost();
        // Either certainly beyond u64 (rejected before the loop) or certainly within the step bound.
        let certainly_overflows = least > u64::MAX as u128;
        if !certainly_overflows && (worst > u64::MAX as u128 || !md.steps_ok(worst as u64)) {
            m.count("order_skipped_by_step_guard");
            return;
        }
    }
    cx.log.push(format!(
        "order owner={owner} kind={} size_delta={} collateral={} minting_enabled={} t={}",
        if decrease { "decrease" } else { "increase" },
        req.size_delta_value,
        req.initial_collateral_delta_amount,
        md.minting_enabled,
        w.svm.clock.unix_timestamp
    ));
    let order = match w.create_order(owner, &req) {
        Ok(o) => o,
        Err((e, _)) => {
            m.count("order_create_failed");
            m.count(&format!("order_create_err_{}", err_name(&e)));
            return;
        }
    };
    m.count("order_created");
    let steps_before = md.steps();
    match w.execute_order(order, true) {
        Ok(meta) => {
            m.count("order_executed");
            let (Some(post_u), Some(post_gt)) = (w.user_header(&owner), w.gt_state()) else {
                m.inconclusive("harness: user/store unreadable after order execution");
                return;
            };
            let paid = post_u.gt().paid_fee_value();
            let d_paid = paid.saturating_sub(pre_u.gt().paid_fee_value());
            let d_bal = post_u.gt().amount() as i128 - pre_u.gt().amount() as i128;
            let events = gt_updated_events(&meta);
            let mint_events: Vec<_> = events.iter().filter(|e| matches!(e.kind, GtUpdateKind::Mint)).collect();
            if !md.minting_enabled {
                m.count("order_executed_minting_disabled");
                if d_bal != 0 || post_gt.total_minted() != pre_gt.total_minted() {
                    // Not part of C30's statement; recorded, and the model follows the chain.
                    m.count("gt_minted_while_market_minting_disabled");
                    if d_bal > 0 {
                        md.apply_mint(user, d_bal as u64);
                    }
                }
            } else if d_paid == 0 && mint_events.is_empty() {
                m.count("order_executed_no_fee_paid");
            } else {
                m.eval();
                let cost = pre_gt.minting_cost();
                let value = BigInt::from(paid) - BigInt::from(pre_u.gt().minted_fee_value());
                if cost == 0 || value < BigInt::from(0) {
                    m.violation(
                        "C30:order_mint:executed_with_unusable_cost_or_value",
                        cx.witness(md, json!({"cost": cost.to_string(), "paid": paid.to_string(), "minted_for": pre_u.gt().minted_fee_value().to_string()})),
                    );
                } else {
                    let q = &value / BigInt::from(cost);
                    let rem = &value - &q * BigInt::from(cost);
                    let minted_for = BigInt::from(post_u.gt().minted_fee_value());
                    let ok = BigInt::from(d_bal) == q
                        && minted_for == BigInt::from(pre_u.gt().minted_fee_value()) + &q * BigInt::from(cost)
                        && BigInt::from(paid) - &minted_for == rem
                        && rem < BigInt::from(cost)
                        && BigInt::from(post_gt.total_minted()) - BigInt::from(pre_gt.total_minted()) == q
                        && mint_events.len() == 1
                        && mint_events[0].minting_cost == cost
                        && BigInt::from(mint_events[0].receiver_delta) == q;
                    if !ok {
                        m.violation(
                            "C30:order_mint:ne_floor_of_unminted_fee_value_over_cost",
                            cx.witness(md, json!({
                                "cost_before": cost.to_string(),
                                "paid_fee_value_before": pre_u.gt().paid_fee_value().to_string(),
                                "paid_fee_value_after": paid.to_string(),
                                "minted_fee_value_before": pre_u.gt().minted_fee_value().to_string(),
                                "minted_fee_value_after": post_u.gt().minted_fee_value().to_string(),
                                "balance_delta": d_bal.to_string(),
                                "expected_minted": q.to_string(),
                                "expected_remainder": rem.to_string(),
                                "mint_events": mint_events.iter().map(|e| json!([e.minting_cost.to_string(), e.receiver_delta.to_string()])).collect::<Vec<_>>(),
                            })),
                        );
                    }
                    if let Some(qq) = q.to_u64() {
                        md.apply_mint(user, qq);
                        if qq > 0 {
                            m.count("order_mint_ok");
                            if rem > BigInt::from(0) {
                                m.count("order_mint_with_remainder_carried");
                            }
                            if carry > 0 {
                                m.count("order_mint_used_carried_remainder");
                            }
                            m.nontrivial(&[b"omint".as_slice(), &qq.to_le_bytes(), &cost.to_le_bytes(), &md.total.to_le_bytes()].concat());
                        } else {
                            m.count("order_mint_zero_units_all_carried");
                        }
                    }
                }
            }
            if md.steps() > steps_before {
                m.count("mint_crossed_cost_step");
                m.add("cost_steps_crossed", (md.steps() - steps_before) as u64);
            }
            check_global(w, md, m, cx, "execute_order");
        }
        Err((e, _)) => {
            m.count("order_execution_failed");
            m.count(&format!("order_exec_err_{}", err_name(&e)));
            if e.is_panic() {
                m.count("panics");
            }
        }
    }
    // Close (completed: may mint the referral reward to the referrer; failed: cancels and refunds).
    match w.close_order(owner, order) {
        Ok(meta) => {
            m.count("order_closed");
            let rewards: Vec<_> = gt_updated_events(&meta).into_iter().filter(|e| matches!(e.kind, GtUpdateKind::Reward) && e.receiver_delta > 0).collect();
            let steps_before = md.steps();
            for e in &rewards {
                m.count("referral_reward_minted");
                if let Some(r) = e.receiver {
                    // The reward *amount* (rank factor) is C31's business; the model adopts the emitted amount
                    // and the global oracle then requires balances / supply / total / cost / rank to agree.
                    md.apply_mint(w.user_pda(&r), e.receiver_delta);
                }
            }
            if md.steps() > steps_before {
                m.count("mint_crossed_cost_step");
                m.add("cost_steps_crossed", (md.steps() - steps_before) as u64);
            }
            check_global(w, md, m, cx, "close_order");
        }
        Err((e, _)) => {
            m.count("order_close_failed");
            m.count(&format!("order_close_err_{}", err_name(&e)));
        }
    }
}

fn op_prepare_vault(w: &mut World, md: &mut Model, rng: &mut Rng, m: &mut Monitor, cx: &mut Ctx, users: &[Pubkey]) -> Option<Pubkey> {
    let window = w.gt_state()?.exchange_time_window();
    let cur = current_index(w, window as i64);
    let index = match rng.below(6) {
        0 => cur - 1,
        1 => cur + 1,
        2 => cur - rng.range_i64(2, 5),
        _ => cur,
    };
    let payer = *rng.pick(users);
    let key = w.gt_vault_pda(index, window);
    let existed = w.gt_vault(&key).is_some();
    cx.log.push(format!("prepare_gt_exchange_vault index={index} (current {cur}) window={window} t={}", w.svm.clock.unix_timestamp));
    m.eval();
    match w.prepare_gt_exchange_vault(payer, index) {
        Ok(v) => {
            m.count("prepare_vault_ok");
            if !existed {
                if index != cur {
                    m.violation(
                        "C30:prepare_gt_exchange_vault:created_for_other_window_than_current",
                        cx.witness(md, json!({"index": index, "current_index": cur, "window": window})),
                    );
                }
                m.count("vault_created");
                md.vaults.insert(v, VaultModel { index, window: window as i64, amount: 0, confirmed: false });
            } else {
                m.count("prepare_vault_existing_ok");
            }
            check_global(w, md, m, cx, "prepare_gt_exchange_vault");
            Some(v)
        }
        Err((e, _)) => {
            if existed || index == cur {
                m.count("prepare_vault_unexpected_reject");
            } else {
                m.count("prepare_vault_wrong_index_rejected");
            }
            m.count(&format!("prepare_vault_err_{}", err_name(&e)));
            None
        }
    }
}

fn op_request(w: &mut World, md: &mut Model, rng: &mut Rng, m: &mut Monitor, cx: &mut Ctx, users: &[Pubkey]) {
    if md.vaults.is_empty() {
        return;
    }
    let owner = *rng.pick(users);
    let user = w.user_pda(&owner);
    let now = w.svm.clock.unix_timestamp;
    // Prefer the vault of the current window; sometimes a stale / confirmed one.
    let keys: Vec<Pubkey> = md.vaults.keys().copied().collect();
    let current: Vec<Pubkey> = md.vaults.iter().filter(|(_, v)| !v.confirmed && now / v.window == v.index).map(|(k, _)| *k).collect();
    let vault = if !current.is_empty() && rng.chance(3, 4) { *rng.pick(&current) } else { *rng.pick(&keys) };
    let Some(v) = w.gt_vault(&vault) else { return };
    let bal = w.user_header(&owner).map(|u| u.gt().amount()).unwrap_or(0);
    let amount = match rng.below(10) {
        0 => 0,
        1 => bal,
        2 => bal.saturating_add(1),
        3 => bal.saturating_add(rng.log_u64(u64::MAX / 2)),
        4 => 1,
        _ => rng.range(0, bal),
    };
    let depositable = !v.is_confirmed() && now / v.time_window() == v.time_window_index();
    cx.log.push(format!(
        "request_gt_exchange owner={owner} amount={amount} balance={bal} vault_index={} window={} now_index={} confirmed={} t={now}",
        v.time_window_index(),
        v.time_window(),
        now / v.time_window(),
        v.is_confirmed()
    ));
    m.eval();
    let rank_before = w.user_header(&owner).map(|u| u.gt().rank());
    match w.request_gt_exchange(owner, vault, amount) {
        Ok(meta) => {
            m.count("request_exchange_ok");
            if v.is_confirmed() {
                m.violation("C30:request_gt_exchange:accepted_on_confirmed_vault", cx.witness(md, json!({"vault": vault.to_string()})));
            } else if !depositable {
                m.violation(
                    "C30:request_gt_exchange:accepted_outside_the_vault_window",
                    cx.witness(md, json!({"vault_index": v.time_window_index(), "now_index": now / v.time_window(), "window": v.time_window()})),
                );
            }
            if amount > bal {
                m.violation(
                    "C30:request_gt_exchange:burnt_more_than_balance",
                    cx.witness(md, json!({"amount": amount.to_string(), "balance": bal.to_string()})),
                );
            }
            if amount != 0 {
                let b = md.bal.entry(user).or_insert(0);
                *b = b.saturating_sub(amount);
                md.touched.insert(user);
                m.count("burn_ok");
                if amount == bal {
                    m.count("burn_whole_balance");
                }
            } else {
                m.count("request_exchange_zero_amount_ok");
            }
            if let Some(mv) = md.vaults.get_mut(&vault) {
                mv.amount = mv.amount.saturating_add(amount);
            }
            *md.exchanges.entry((vault, owner)).or_insert(0) += amount;
            for e in gt_updated_events(&meta) {
                if matches!(e.kind, GtUpdateKind::Burn) && e.receiver_delta != amount {
                    m.violation(
                        "C30:request_gt_exchange:event_delta_ne_amount",
                        cx.witness(md, json!({"amount": amount.to_string(), "event_delta": e.receiver_delta.to_string()})),
                    );
                }
            }
            let ex = w.gt_exchange(&vault, &owner).map(|e| e.amount());
            if ex != md.exchanges.get(&(vault, owner)).copied() {
                m.violation(
                    "C30:request_gt_exchange:exchange_amount_ne_sum_of_requests",
                    cx.witness(md, json!({"exchange": ex.map(|x| x.to_string()), "model": md.exchanges.get(&(vault, owner)).map(|x| x.to_string())})),
                );
            }
            check_global(w, md, m, cx, "request_gt_exchange");
            if w.user_header(&owner).map(|u| u.gt().rank()) != rank_before {
                m.count("rank_changed");
            }
            if amount != 0 {
                m.nontrivial(&[b"burn".as_slice(), &amount.to_le_bytes(), &bal.to_le_bytes(), &v.time_window_index().to_le_bytes()].concat());
            }
        }
        Err((e, _)) => {
            let class = if v.is_confirmed() {
                "request_rejected_confirmed_vault"
            } else if !depositable {
                "request_rejected_outside_window"
            } else if amount > bal {
                "request_rejected_insufficient_balance"
            } else {
                "request_rejected_unexpected"
            };
            m.count(class);
            m.count(&format!("request_err_{}", err_name(&e)));
            if e.is_panic() {
                m.count("panics");
            }
        }
    }
}

fn op_confirm(w: &mut World, md: &mut Model, rng: &mut Rng, m: &mut Monitor, cx: &mut Ctx) {
    if md.vaults.is_empty() {
        return;
    }
    let keys: Vec<Pubkey> = md.vaults.keys().copied().collect();
    let now = w.svm.clock.unix_timestamp;
    let ripe: Vec<Pubkey> = md.vaults.iter().filter(|(_, v)| !v.confirmed && now / v.window > v.index).map(|(k, _)| *k).collect();
    let vault = if !ripe.is_empty() && rng.chance(2, 3) { *rng.pick(&ripe) } else { *rng.pick(&keys) };
    let Some(v) = w.gt_vault(&vault) else { return };
    let confirmable = v.is_initialized() && !v.is_confirmed() && now / v.time_window() > v.time_window_index();
    cx.log.push(format!(
        "confirm_gt_exchange_vault_v2 vault_index={} window={} now_index={} confirmed={} amount={} t={now}",
        v.time_window_index(),
        v.time_window(),
        now / v.time_window(),
        v.is_confirmed(),
        v.amount()
    ));
    m.eval();
    let keeper = w.keeper;
    match w.confirm_gt_exchange_vault(keeper, vault, rng.log_u128(u128::MAX), if rng.bool() { Some(rng.log_u128(u128::MAX)) } else { None }) {
        Ok(_) => {
            m.count("confirm_vault_ok");
            if !confirmable {
                let sig = if v.is_confirmed() { "C30:confirm_gt_exchange_vault:confirmed_twice" } else { "C30:confirm_gt_exchange_vault:confirmed_before_window_passed" };
                m.violation(sig, cx.witness(md, json!({"vault_index": v.time_window_index(), "now_index": now / v.time_window(), "window": v.time_window()})));
            }
            if let Some(mv) = md.vaults.get_mut(&vault) {
                mv.confirmed = true;
            }
            md.gt_vault = md.gt_vault.saturating_add(v.amount());
            if v.amount() > 0 {
                m.count("confirm_vault_nonzero_amount");
                m.nontrivial(&[b"confirm".as_slice(), &v.amount().to_le_bytes(), &v.time_window_index().to_le_bytes()].concat());
            }
            check_global(w, md, m, cx, "confirm_gt_exchange_vault_v2");
        }
        Err((e, _)) => {
            let class = if v.is_confirmed() {
                "confirm_rejected_already_confirmed"
            } else if !confirmable {
                "confirm_rejected_window_not_passed"
            } else {
                "confirm_rejected_unexpected"
            };
            m.count(class);
            m.count(&format!("confirm_err_{}", err_name(&e)));
        }
    }
}

fn op_close_exchange(w: &mut World, md: &mut Model, rng: &mut Rng, m: &mut Monitor, cx: &mut Ctx) {
    if md.exchanges.is_empty() {
        return;
    }
    let keys: Vec<(Pubkey, Pubkey)> = md.exchanges.keys().copied().collect();
    let (vault, owner) = *rng.pick(&keys);
    let Some(v) = w.gt_vault(&vault) else { return };
    cx.log.push(format!("close_gt_exchange owner={owner} vault_index={} confirmed={}", v.time_window_index(), v.is_confirmed()));
    let keeper = w.keeper;
    match w.close_gt_exchange(keeper, owner, vault) {
        Ok(_) => {
            m.count("close_exchange_ok");
            if !v.is_confirmed() {
                m.count("close_exchange_ok_on_unconfirmed_vault");
            }
            md.exchanges.remove(&(vault, owner));
            check_global(w, md, m, cx, "close_gt_exchange");
        }
        Err((e, _)) => {
            m.count(if v.is_confirmed() { "close_exchange_rejected_unexpected" } else { "close_exchange_rejected_unconfirmed" });
            m.count(&format!("close_exchange_err_{}", err_name(&e)));
        }
    }
}

fn op_warp(w: &mut World, rng: &mut Rng, m: &mut Monitor, cx: &mut Ctx) {
    let window = w.gt_state().map(|g| g.exchange_time_window() as i64).unwrap_or(86_400).max(1);
    let now = w.svm.clock.unix_timestamp;
    let to_next = window - now % window;
    let secs = match rng.below(8) {
        0 => rng.range_i64(1, 600),
        1 => to_next - 1,
        2 => to_next,
        3 => to_next + 1,
        4 => to_next + window * rng.range_i64(1, 3) + rng.range_i64(0, window - 1),
        5 => rng.range_i64(1, window),
        _ => rng.range_i64(1, 7_200),
    }
    .max(1);
    w.svm.warp(secs);
    if (now + secs) / window != now / window {
        m.count("warp_crossed_window");
    }
    m.count("warp");
    cx.log.push(format!("warp +{secs}s -> t={} index={}", now + secs, (now + secs) / window));
}

fn history(base: &Base, rng: &mut Rng, m: &mut Monitor, seed: u64, shard: u64, hist: u64, n_ops: u64) {
    let mut w = base.w.clone();
    let mut log: Vec<String> = vec![];
    let mut cx = Ctx { seed, shard, hist, log: &mut log };
    // Start at a random offset inside an exchange window.
    w.svm.warp(rng.range_i64(0, 200_000));
    let (p, class) = gen_params(rng);
    m.count(&format!("gt_class_{class}"));
    // Before initialization the GT instructions must refuse.
    if rng.chance(1, 4) {
        let keeper = w.keeper;
        m.count(if w.mint_gt_reward(keeper, base.users[0], 5).is_err() { "mint_before_init_rejected" } else { "mint_before_init_accepted" });
    }
    try_invalid_inits(&mut w, rng, &p, m);
    if w.gt_state().map(|g| g.is_initialized()).unwrap_or(true) {
        // An invalid init was accepted: the history continues with whatever is stored is not meaningful.
        m.count("history_abandoned_invalid_init_accepted");
        return;
    }
    cx.log.push(format!("initialize_gt {p:?} t={}", w.svm.clock.unix_timestamp));
    if let Err((e, _)) = w.initialize_gt(&p) {
        m.count("init_rejected");
        m.count(&format!("init_err_{}", err_name(&e)));
        return;
    }
    m.count("init_ok");
    m.count("histories");
    if p.ranks.len() > MAX_RANK {
        m.count("init_with_more_than_15_ranks");
    }
    if p.ranks.first() == Some(&0) {
        m.count("init_with_zero_threshold");
    }
    let mut md = Model::new(&p);
    {
        let gt = w.gt_state().expect("gt");
        m.eval();
        if gt.minting_cost() != p.initial_minting_cost || gt.decimals() != p.decimals || gt.total_minted() != 0 || gt.supply() != 0 || gt.grow_steps() != 0 {
            m.violation(
                "C30:initialize_gt:state_ne_arguments",
                cx.witness(&md, json!({"cost": gt.minting_cost().to_string(), "decimals": gt.decimals(), "total_minted": gt.total_minted().to_string()})),
            );
        }
    }
    check_global(&w, &mut md, m, &cx, "initialize_gt");
    // Referral reward factors (non-decreasing, one per rank incl. rank 0) so that closing t1's orders mints to t0.
    {
        let n = md.ranks.len() + 1;
        let mut f = vec![];
        let mut acc = UNIT / 100 * rng.range(0, 30) as u128;
        for _ in 0..n {
            f.push(acc);
            acc += UNIT / 100 * rng.range(0, 10) as u128;
        }
        m.count(if w.gt_set_referral_reward_factors(f).is_ok() { "referral_factors_set" } else { "referral_factors_rejected" });
    }
    if rng.chance(9, 10) {
        if w.toggle_gt_minting(base.market, true).is_ok() {
            md.minting_enabled = true;
            m.count("toggle_gt_minting_ok");
        }
    }
    let keeper = w.keeper;
    for _ in 0..n_ops {
        if md.steps() >= MAX_STEPS_PER_HISTORY {
            m.count("history_cut_at_step_bound");
            break;
        }
        match rng.weighted(&[26, 10, 14, 8, 12, 7, 4, 10, 2, 3, 2, 2]) {
            0 => {
                let amount = mint_amount(rng, &md);
                if md.steps_ok(amount) {
                    let owner = *rng.pick(&base.users);
                    if op_mint(&mut w, &mut md, m, &mut cx, owner, amount) && rng.chance(1, 4) {
                        check_get_mint_amount(&w, rng, 4, &md, m, &cx);
                    }
                } else {
                    m.count("mint_skipped_by_step_guard");
                }
            }
            1 => op_order(base, &mut w, &mut md, rng, m, &mut cx),
            2 => op_request(&mut w, &mut md, rng, m, &mut cx, &base.users),
            3 => {
                op_prepare_vault(&mut w, &mut md, rng, m, &mut cx, &base.users);
            }
            4 => op_warp(&mut w, rng, m, &mut cx),
            5 => op_confirm(&mut w, &mut md, rng, m, &mut cx),
            6 => op_close_exchange(&mut w, &mut md, rng, m, &mut cx),
            7 => {
                // Make sure the current window has a vault, then request.
                let window = w.gt_state().map(|g| g.exchange_time_window()).unwrap_or(86_400);
                let cur = current_index(&w, window as i64);
                let key = w.gt_vault_pda(cur, window);
                if w.gt_vault(&key).is_none() {
                    cx.log.push(format!("prepare_gt_exchange_vault index={cur} (current) window={window}"));
                    if let Ok(v) = w.prepare_gt_exchange_vault(keeper, cur) {
                        m.count("prepare_vault_ok");
                        m.count("vault_created");
                        md.vaults.insert(v, VaultModel { index: cur, window: window as i64, amount: 0, confirmed: false });
                        check_global(&w, &mut md, m, &cx, "prepare_gt_exchange_vault");
                    }
                }
                op_request(&mut w, &mut md, rng, m, &mut cx, &base.users);
            }
            8 => {
                let enable = rng.chance(3, 4);
                cx.log.push(format!("toggle_gt_minting {enable}"));
                if w.toggle_gt_minting(base.market, enable).is_ok() {
                    md.minting_enabled = enable;
                    m.count("toggle_gt_minting_ok");
                    check_global(&w, &mut md, m, &cx, "toggle_gt_minting");
                }
            }
            9 => op_twin(&w, &md, rng, m, &cx, &base.users),
            10 => {
                let window = *rng.pick(&[0u32, 1, 60, 3_600, 86_400, 604_800]);
                cx.log.push(format!("gt_set_exchange_time_window {window}"));
                match w.gt_set_exchange_time_window(window) {
                    Ok(_) => {
                        m.count("set_exchange_time_window_ok");
                        if window == 0 || w.gt_state().map(|g| g.exchange_time_window()) != Some(window) {
                            m.violation("C30:gt_set_exchange_time_window:zero_or_not_stored", cx.witness(&md, json!({"window": window})));
                        }
                        check_global(&w, &mut md, m, &cx, "gt_set_exchange_time_window");
                    }
                    Err((e, _)) => {
                        m.count("set_exchange_time_window_rejected");
                        m.count(&format!("set_exchange_time_window_err_{}", err_name(&e)));
                    }
                }
            }
            _ => {
                // Re-initialization and the cumulative-factor update must not disturb balances / cost.
                if rng.bool() {
                    cx.log.push("initialize_gt (again)".into());
                    let (q, _) = gen_params(rng);
                    match w.initialize_gt(&q) {
                        Ok(_) => {
                            m.count("reinit_accepted");
                            check_global(&w, &mut md, m, &cx, "initialize_gt(again)");
                        }
                        Err(_) => m.count("reinit_rejected"),
                    }
                } else {
                    cx.log.push("update_gt_cumulative_inv_cost_factor".into());
                    if w.update_gt_cumulative_inv_cost_factor(keeper).is_ok() {
                        m.count("update_cumulative_inv_cost_factor_ok");
                        check_global(&w, &mut md, m, &cx, "update_gt_cumulative_inv_cost_factor");
                    } else {
                        m.count("update_cumulative_inv_cost_factor_rejected");
                    }
                }
            }
        }
    }
    check_get_mint_amount(&w, rng, 12, &md, m, &cx);
    m.max("max_cost_steps_in_a_history", md.steps() as u64);
    m.max("max_vaults_in_a_history", md.vaults.len() as u64);
    if m.wants_sample() && md.total > 0 && m.counter("sampled_histories") < 1 {
        m.count("sampled_histories");
        let gt = w.gt_state().expect("gt");
        m.sample(json!({
            "shard": shard, "history": hist, "class": class,
            "grow_step": p.grow_step.to_string(), "grow_factor": p.grow_factor.to_string(), "initial_cost": p.initial_minting_cost.to_string(),
            "ranks": p.ranks.iter().map(|r| r.to_string()).collect::<Vec<_>>(),
            "final_total_minted": gt.total_minted().to_string(), "final_supply": gt.supply().to_string(), "final_gt_vault": gt.gt_vault().to_string(),
            "final_cost": gt.minting_cost().to_string(), "final_grow_steps": gt.grow_steps().to_string(),
            "balances": w.all_user_headers().iter().map(|(_, u)| json!([u.gt().amount().to_string(), u.gt().rank()])).collect::<Vec<_>>(),
            "first_ops": cx.log.iter().take(12).cloned().collect::<Vec<_>>(),
        }));
    }
}

pub fn run(args: &Args) -> Option<i32> {
    let quiet = hostsvm::QuietStdout::new();
    let mut mon = Monitor::new(
        args,
        "random histories (initialize_gt with random cost/growth/step/rank tables; mint_gt_reward, order create/execute/close with GT \
         minting, request_gt_exchange, prepare/confirm vault, close_gt_exchange, clock moves across windows) run through the real store \
         program in hostsvm; after every successful instruction the GT state and all user accounts are compared with a sequential \
         reference model and a BigInt recomputation of the cost. Non-trivial = a successful non-zero mint / burn / vault confirmation, a \
         twin comparison, or a direct get_mint_amount case with non-zero units and remainder; distinct = hash of (kind, amount, total \
         minted, step or cost).",
    );
    mon.assume("rank tables longer than 15 entries: init keeps the first 15 (MAX_RANK); the rank oracle counts thresholds of the stored prefix");
    mon.assume("single mints are kept below 3000 cost steps (the program loops once per step); amounts otherwise arbitrary incl. u64::MAX");
    mon.assume("prices are constant (BTC 60000, SOL 150, USDC 1); orders are short positions with USDC collateral; order fees use the market's default fee factors");
    let shards = args.scale(64, 512);
    let hist_per_shard = args.scale(20, 12);
    let (seed, tier_ops) = (args.seed, args.scale(70, 110));
    run_shards(&mut mon, args.threads, shards, |shard, m| {
        let base = base_world();
        for h in 0..hist_per_shard {
            let mut rng = Rng::derive(seed, shard, h);
            let n_ops = rng.range(tier_ops / 2, tier_ops * 3 / 2);
            history(&base, &mut rng, m, seed, shard, h, n_ops);
        }
    });
    let k = args.scale(1, 6);
    mon.require("histories", 150 * k);
    mon.require("mint_reward_ok", 2_000 * k);
    mon.require("mint_crossed_cost_step", 500 * k);
    mon.require("order_mint_ok", 100 * k);
    mon.require("order_mint_with_remainder_carried", 50 * k);
    mon.require("burn_ok", 500 * k);
    mon.require("request_rejected_outside_window", 20 * k);
    mon.require("request_rejected_insufficient_balance", 20 * k);
    mon.require("confirm_vault_nonzero_amount", 50 * k);
    mon.require("confirm_rejected_window_not_passed", 20 * k);
    mon.require("close_exchange_ok", 20 * k);
    mon.require("rank_changed", 200 * k);
    mon.require("twin_compared_across_cost_step", 50 * k);
    mon.require("get_mint_amount_ok", 1_000 * k);
    mon.require("warp_crossed_window", 200 * k);
    if mon.counter("set_exchange_time_window_ok") == 0 {
        mon.set_extra(
            "not_covered",
            json!(["gt_set_exchange_time_window: the store program is built without its `test-only` feature, where the instruction always \
                    returns Unimplemented; the exchange window therefore stays at the 86400 s default (attempts and their rejection are counted)"]),
        );
    }
    drop(quiet);
    Some(mon.finish())
}
