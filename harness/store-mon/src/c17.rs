//! Monitor for C17 — "A newly created market starts from the documented default configuration".
//!
//! Observed: `Market` accounts created (1) by the real `initialize_market` instruction in hostsvm, for
//! random (index, long, short) token triples (pure: long == short, and impure), names, `enable` flags,
//! creation times, with and without other markets holding liquidity; (2) directly by
//! `Market::default()` + `Market::init(..)` executed inside the runtime context (stubbed clock).
//!
//! Oracle: an independent hand-written table `MarketConfigKey -> documented DEFAULT_* constant`, chosen
//! by the *name / doc comment* of the key and of the constant (never by what `MarketConfig::init`
//! assigns); the same for the config flags; pool purity pattern from the property text; amounts zero.
use crate::world::{self, exchange::load, six, user::in_runtime, World, STORE_PID, UNIT};
use anchor_lang::prelude::Pubkey;
use anchor_lang::system_program;
use anchor_spl::token::spl_token;
use gmsol_model::{Balance, Delta, Pool as _, PoolKind};
use gmsol_store::{
    accounts as sa, constants as k, instruction as si,
    states::market::config::{MarketConfigFlag, MarketConfigKey},
    states::Market,
};
use hostsvm::{key, token};
use strum::IntoEnumIterator;
use vcommon::{json, monitor::run_shards, Args, Monitor, Rng};

/// Documented default of a config key: `(value, constant name, how the constant was chosen)`.
/// `None`: no documented constant could be associated by name (reported as uncovered).
fn documented_default(key: MarketConfigKey) -> Option<(u128, &'static str, &'static str)> {
    use MarketConfigKey as K;
    const BY_NAME: &str = "same name";
    const RECEIVER: &str = "the only documented receiver-factor default (\"Default receiver factor\")";
    const CLOSED: &str = "no constant of its own: the documented default of the same setting without the `market closed` qualifier";
    Some(match key {
        K::SwapImpactExponent => (k::DEFAULT_SWAP_IMPACT_EXPONENT, "DEFAULT_SWAP_IMPACT_EXPONENT", BY_NAME),
        K::SwapImpactPositiveFactor => (k::DEFAULT_SWAP_IMPACT_POSITIVE_FACTOR, "DEFAULT_SWAP_IMPACT_POSITIVE_FACTOR", BY_NAME),
        K::SwapImpactNegativeFactor => (k::DEFAULT_SWAP_IMPACT_NEGATIVE_FACTOR, "DEFAULT_SWAP_IMPACT_NEGATIVE_FACTOR", BY_NAME),
        K::SwapFeeReceiverFactor => (k::DEFAULT_RECEIVER_FACTOR, "DEFAULT_RECEIVER_FACTOR", RECEIVER),
        K::SwapFeeFactorForPositiveImpact => (k::DEFAULT_SWAP_FEE_FACTOR_FOR_POSITIVE_IMPACT, "DEFAULT_SWAP_FEE_FACTOR_FOR_POSITIVE_IMPACT", BY_NAME),
        K::SwapFeeFactorForNegativeImpact => (k::DEFAULT_SWAP_FEE_FACTOR_FOR_NEGATIVE_IMPACT, "DEFAULT_SWAP_FEE_FACTOR_FOR_NEGATIVE_IMPACT", BY_NAME),
        K::MinPositionSizeUsd => (k::DEFAULT_MIN_POSITION_SIZE_USD, "DEFAULT_MIN_POSITION_SIZE_USD", BY_NAME),
        K::MinCollateralValue => (k::DEFAULT_MIN_COLLATERAL_VALUE, "DEFAULT_MIN_COLLATERAL_VALUE", BY_NAME),
        K::MinCollateralFactor => (k::DEFAULT_MIN_COLLATERAL_FACTOR, "DEFAULT_MIN_COLLATERAL_FACTOR", BY_NAME),
        K::MinCollateralFactorForOpenInterestMultiplierForLong => (
            k::DEFAULT_MIN_COLLATERAL_FACTOR_FOR_OPEN_INTEREST_FOR_LONG,
            "DEFAULT_MIN_COLLATERAL_FACTOR_FOR_OPEN_INTEREST_FOR_LONG",
            "doc comment \"min collateral factor for open interest for long\"",
        ),
        K::MinCollateralFactorForOpenInterestMultiplierForShort => (
            k::DEFAULT_MIN_COLLATERAL_FACTOR_FOR_OPEN_INTEREST_FOR_SHORT,
            "DEFAULT_MIN_COLLATERAL_FACTOR_FOR_OPEN_INTEREST_FOR_SHORT",
            "doc comment \"min collateral factor for open interest for short\"",
        ),
        K::MaxPositivePositionImpactFactor => (k::DEFAULT_MAX_POSITIVE_POSITION_IMPACT_FACTOR, "DEFAULT_MAX_POSITIVE_POSITION_IMPACT_FACTOR", BY_NAME),
        K::MaxNegativePositionImpactFactor => (k::DEFAULT_MAX_NEGATIVE_POSITION_IMPACT_FACTOR, "DEFAULT_MAX_NEGATIVE_POSITION_IMPACT_FACTOR", BY_NAME),
        K::MaxPositionImpactFactorForLiquidations => (k::DEFAULT_MAX_POSITION_IMPACT_FACTOR_FOR_LIQUIDATIONS, "DEFAULT_MAX_POSITION_IMPACT_FACTOR_FOR_LIQUIDATIONS", BY_NAME),
        K::PositionImpactExponent => (k::DEFAULT_POSITION_IMPACT_EXPONENT, "DEFAULT_POSITION_IMPACT_EXPONENT", BY_NAME),
        K::PositionImpactPositiveFactor => (k::DEFAULT_POSITION_IMPACT_POSITIVE_FACTOR, "DEFAULT_POSITION_IMPACT_POSITIVE_FACTOR", BY_NAME),
        K::PositionImpactNegativeFactor => (k::DEFAULT_POSITION_IMPACT_NEGATIVE_FACTOR, "DEFAULT_POSITION_IMPACT_NEGATIVE_FACTOR", BY_NAME),
        K::OrderFeeReceiverFactor => (k::DEFAULT_RECEIVER_FACTOR, "DEFAULT_RECEIVER_FACTOR", RECEIVER),
        K::OrderFeeFactorForPositiveImpact => (k::DEFAULT_ORDER_FEE_FACTOR_FOR_POSITIVE_IMPACT, "DEFAULT_ORDER_FEE_FACTOR_FOR_POSITIVE_IMPACT", BY_NAME),
        K::OrderFeeFactorForNegativeImpact => (k::DEFAULT_ORDER_FEE_FACTOR_FOR_NEGATIVE_IMPACT, "DEFAULT_ORDER_FEE_FACTOR_FOR_NEGATIVE_IMPACT", BY_NAME),
        K::LiquidationFeeReceiverFactor => (k::DEFAULT_RECEIVER_FACTOR, "DEFAULT_RECEIVER_FACTOR", RECEIVER),
        K::LiquidationFeeFactor => (k::DEFAULT_LIQUIDATION_FEE_FACTOR, "DEFAULT_LIQUIDATION_FEE_FACTOR", BY_NAME),
        K::PositionImpactDistributeFactor => (k::DEFAULT_POSITION_IMPACT_DISTRIBUTE_FACTOR, "DEFAULT_POSITION_IMPACT_DISTRIBUTE_FACTOR", BY_NAME),
        K::MinPositionImpactPoolAmount => (k::DEFAULT_MIN_POSITION_IMPACT_POOL_AMOUNT, "DEFAULT_MIN_POSITION_IMPACT_POOL_AMOUNT", BY_NAME),
        K::BorrowingFeeReceiverFactor => (k::DEFAULT_RECEIVER_FACTOR, "DEFAULT_RECEIVER_FACTOR", RECEIVER),
        K::BorrowingFeeFactorForLong => (k::DEFAULT_BORROWING_FEE_FACTOR_FOR_LONG, "DEFAULT_BORROWING_FEE_FACTOR_FOR_LONG", BY_NAME),
        K::BorrowingFeeFactorForShort => (k::DEFAULT_BORROWING_FEE_FACTOR_FOR_SHORT, "DEFAULT_BORROWING_FEE_FACTOR_FOR_SHORT", BY_NAME),
        K::BorrowingFeeExponentForLong => (k::DEFAULT_BORROWING_FEE_EXPONENT_FOR_LONG, "DEFAULT_BORROWING_FEE_EXPONENT_FOR_LONG", BY_NAME),
        K::BorrowingFeeExponentForShort => (k::DEFAULT_BORROWING_FEE_EXPONENT_FOR_SHORT, "DEFAULT_BORROWING_FEE_EXPONENT_FOR_SHORT", BY_NAME),
        K::BorrowingFeeOptimalUsageFactorForLong => (k::DEFAULT_BORROWING_FEE_OPTIMAL_USAGE_FACTOR_FOR_LONG, "DEFAULT_BORROWING_FEE_OPTIMAL_USAGE_FACTOR_FOR_LONG", BY_NAME),
        K::BorrowingFeeOptimalUsageFactorForShort => (k::DEFAULT_BORROWING_FEE_OPTIMAL_USAGE_FACTOR_FOR_SHORT, "DEFAULT_BORROWING_FEE_OPTIMAL_USAGE_FACTOR_FOR_SHORT", BY_NAME),
        K::BorrowingFeeBaseFactorForLong => (k::DEFAULT_BORROWING_FEE_BASE_FACTOR_FOR_LONG, "DEFAULT_BORROWING_FEE_BASE_FACTOR_FOR_LONG", BY_NAME),
        K::BorrowingFeeBaseFactorForShort => (k::DEFAULT_BORROWING_FEE_BASE_FACTOR_FOR_SHORT, "DEFAULT_BORROWING_FEE_BASE_FACTOR_FOR_SHORT", BY_NAME),
        K::BorrowingFeeAboveOptimalUsageFactorForLong => (k::DEFAULT_BORROWING_FEE_ABOVE_OPTIMAL_USAGE_FACTOR_FOR_LONG, "DEFAULT_BORROWING_FEE_ABOVE_OPTIMAL_USAGE_FACTOR_FOR_LONG", BY_NAME),
        K::BorrowingFeeAboveOptimalUsageFactorForShort => (k::DEFAULT_BORROWING_FEE_ABOVE_OPTIMAL_USAGE_FACTOR_FOR_SHORT, "DEFAULT_BORROWING_FEE_ABOVE_OPTIMAL_USAGE_FACTOR_FOR_SHORT", BY_NAME),
        K::FundingFeeExponent => (k::DEFAULT_FUNDING_FEE_EXPONENT, "DEFAULT_FUNDING_FEE_EXPONENT", BY_NAME),
        K::FundingFeeFactor => (k::DEFAULT_FUNDING_FEE_FACTOR, "DEFAULT_FUNDING_FEE_FACTOR", BY_NAME),
        K::FundingFeeMaxFactorPerSecond => (k::DEFAULT_FUNDING_FEE_MAX_FACTOR_PER_SECOND, "DEFAULT_FUNDING_FEE_MAX_FACTOR_PER_SECOND", BY_NAME),
        K::FundingFeeMinFactorPerSecond => (k::DEFAULT_FUNDING_FEE_MIN_FACTOR_PER_SECOND, "DEFAULT_FUNDING_FEE_MIN_FACTOR_PER_SECOND", BY_NAME),
        K::FundingFeeIncreaseFactorPerSecond => (k::DEFAULT_FUNDING_FEE_INCREASE_FACTOR_PER_SECOND, "DEFAULT_FUNDING_FEE_INCREASE_FACTOR_PER_SECOND", BY_NAME),
        K::FundingFeeDecreaseFactorPerSecond => (k::DEFAULT_FUNDING_FEE_DECREASE_FACTOR_PER_SECOND, "DEFAULT_FUNDING_FEE_DECREASE_FACTOR_PER_SECOND", BY_NAME),
        K::FundingFeeThresholdForStableFunding => (k::DEFAULT_FUNDING_FEE_THRESHOLD_FOR_STABLE_FUNDING, "DEFAULT_FUNDING_FEE_THRESHOLD_FOR_STABLE_FUNDING", BY_NAME),
        K::FundingFeeThresholdForDecreaseFunding => (k::DEFAULT_FUNDING_FEE_THRESHOLD_FOR_DECREASE_FUNDING, "DEFAULT_FUNDING_FEE_THRESHOLD_FOR_DECREASE_FUNDING", BY_NAME),
        K::ReserveFactor => (k::DEFAULT_RESERVE_FACTOR, "DEFAULT_RESERVE_FACTOR", BY_NAME),
        K::OpenInterestReserveFactor => (k::DEFAULT_OPEN_INTEREST_RESERVE_FACTOR, "DEFAULT_OPEN_INTEREST_RESERVE_FACTOR", BY_NAME),
        K::MaxPnlFactorForLongDeposit => (k::DEFAULT_MAX_PNL_FACTOR_FOR_LONG_DEPOSIT, "DEFAULT_MAX_PNL_FACTOR_FOR_LONG_DEPOSIT", BY_NAME),
        K::MaxPnlFactorForShortDeposit => (k::DEFAULT_MAX_PNL_FACTOR_FOR_SHORT_DEPOSIT, "DEFAULT_MAX_PNL_FACTOR_FOR_SHORT_DEPOSIT", BY_NAME),
        K::MaxPnlFactorForLongWithdrawal => (k::DEFAULT_MAX_PNL_FACTOR_FOR_LONG_WITHDRAWAL, "DEFAULT_MAX_PNL_FACTOR_FOR_LONG_WITHDRAWAL", BY_NAME),
        K::MaxPnlFactorForShortWithdrawal => (k::DEFAULT_MAX_PNL_FACTOR_FOR_SHORT_WITHDRAWAL, "DEFAULT_MAX_PNL_FACTOR_FOR_SHORT_WITHDRAWAL", BY_NAME),
        K::MaxPnlFactorForLongTrader => (k::DEFAULT_MAX_PNL_FACTOR_FOR_LONG_TRADER, "DEFAULT_MAX_PNL_FACTOR_FOR_LONG_TRADER", BY_NAME),
        K::MaxPnlFactorForShortTrader => (k::DEFAULT_MAX_PNL_FACTOR_FOR_SHORT_TRADER, "DEFAULT_MAX_PNL_FACTOR_FOR_SHORT_TRADER", BY_NAME),
        K::MaxPnlFactorForLongAdl => (k::DEFAULT_MAX_PNL_FACTOR_FOR_LONG_ADL, "DEFAULT_MAX_PNL_FACTOR_FOR_LONG_ADL", BY_NAME),
        K::MaxPnlFactorForShortAdl => (k::DEFAULT_MAX_PNL_FACTOR_FOR_SHORT_ADL, "DEFAULT_MAX_PNL_FACTOR_FOR_SHORT_ADL", BY_NAME),
        K::MinPnlFactorAfterLongAdl => (k::DEFAULT_MIN_PNL_FACTOR_AFTER_LONG_ADL, "DEFAULT_MIN_PNL_FACTOR_AFTER_LONG_ADL", BY_NAME),
        K::MinPnlFactorAfterShortAdl => (k::DEFAULT_MIN_PNL_FACTOR_AFTER_SHORT_ADL, "DEFAULT_MIN_PNL_FACTOR_AFTER_SHORT_ADL", BY_NAME),
        K::MaxPoolAmountForLongToken => (k::DEFAULT_MAX_POOL_AMOUNT_FOR_LONG_TOKEN, "DEFAULT_MAX_POOL_AMOUNT_FOR_LONG_TOKEN", BY_NAME),
        K::MaxPoolAmountForShortToken => (k::DEFAULT_MAX_POOL_AMOUNT_FOR_SHORT_TOKEN, "DEFAULT_MAX_POOL_AMOUNT_FOR_SHORT_TOKEN", BY_NAME),
        K::MaxPoolValueForDepositForLongToken => (
            k::DEFAULT_MAX_POOL_VALUE_FOR_DEPOSIT_LONG_TOKEN,
            "DEFAULT_MAX_POOL_VALUE_FOR_DEPOSIT_LONG_TOKEN",
            "doc comment \"max pool value for deposit for long token\"",
        ),
        K::MaxPoolValueForDepositForShortToken => (
            k::DEFAULT_MAX_POOL_VALUE_FOR_DEPOSIT_SHORT_TOKEN,
            "DEFAULT_MAX_POOL_VALUE_FOR_DEPOSIT_SHORT_TOKEN",
            "doc comment \"max pool value for deposit for short token\"",
        ),
        K::MaxOpenInterestForLong => (k::DEFAULT_MAX_OPEN_INTEREST_FOR_LONG, "DEFAULT_MAX_OPEN_INTEREST_FOR_LONG", BY_NAME),
        K::MaxOpenInterestForShort => (k::DEFAULT_MAX_OPEN_INTEREST_FOR_SHORT, "DEFAULT_MAX_OPEN_INTEREST_FOR_SHORT", BY_NAME),
        K::MinTokensForFirstDeposit => (k::DEFAULT_MIN_TOKENS_FOR_FIRST_DEPOSIT, "DEFAULT_MIN_TOKENS_FOR_FIRST_DEPOSIT", BY_NAME),
        K::MinCollateralFactorForLiquidation => (k::DEFAULT_MIN_COLLATERAL_FACTOR_FOR_LIQUIDATION, "DEFAULT_MIN_COLLATERAL_FACTOR_FOR_LIQUIDATION", BY_NAME),
        K::MarketClosedMinCollateralFactorForLiquidation => (k::DEFAULT_MIN_COLLATERAL_FACTOR_FOR_LIQUIDATION, "DEFAULT_MIN_COLLATERAL_FACTOR_FOR_LIQUIDATION", CLOSED),
        // Side-less market-closed settings: the long and the short constant of the same setting must
        // agree for the association to be unambiguous; otherwise the key is uncovered.
        K::MarketClosedBorrowingFeeBaseFactor => {
            if k::DEFAULT_BORROWING_FEE_BASE_FACTOR_FOR_LONG != k::DEFAULT_BORROWING_FEE_BASE_FACTOR_FOR_SHORT {
                return None;
            }
            (k::DEFAULT_BORROWING_FEE_BASE_FACTOR_FOR_LONG, "DEFAULT_BORROWING_FEE_BASE_FACTOR_FOR_{LONG,SHORT}", CLOSED)
        }
        K::MarketClosedBorrowingFeeAboveOptimalUsageFactor => {
            if k::DEFAULT_BORROWING_FEE_ABOVE_OPTIMAL_USAGE_FACTOR_FOR_LONG != k::DEFAULT_BORROWING_FEE_ABOVE_OPTIMAL_USAGE_FACTOR_FOR_SHORT {
                return None;
            }
            (
                k::DEFAULT_BORROWING_FEE_ABOVE_OPTIMAL_USAGE_FACTOR_FOR_LONG,
                "DEFAULT_BORROWING_FEE_ABOVE_OPTIMAL_USAGE_FACTOR_FOR_{LONG,SHORT}",
                CLOSED,
            )
        }
        _ => return None,
    })
}

/// Documented default of a config flag (`None`: no documented constant → uncovered).
fn documented_flag_default(flag: MarketConfigFlag) -> Option<(bool, &'static str)> {
    use MarketConfigFlag as F;
    Some(match flag {
        F::SkipBorrowingFeeForSmallerSide => (k::DEFAULT_SKIP_BORROWING_FEE_FOR_SMALLER_SIDE, "DEFAULT_SKIP_BORROWING_FEE_FOR_SMALLER_SIDE"),
        F::IgnoreOpenInterestForUsageFactor => (k::DEFAULT_IGNORE_OPEN_INTEREST_FOR_USAGE_FACTOR, "DEFAULT_IGNORE_OPEN_INTEREST_FOR_USAGE_FACTOR"),
        F::MarketClosedSkipBorrowingFeeForSmallerSide => (
            k::DEFAULT_SKIP_BORROWING_FEE_FOR_SMALLER_SIDE,
            "DEFAULT_SKIP_BORROWING_FEE_FOR_SMALLER_SIDE (setting without the `market closed` qualifier)",
        ),
        // `EnableMarketClosedParams` has no documented default constant.
        _ => return None,
    })
}

/// Pool kinds the property names as "always impure": the (position) impact pool, the borrowing-factor
/// pool and the total-borrowing pool.
fn always_impure(kind: PoolKind) -> bool {
    matches!(kind, PoolKind::PositionImpact | PoolKind::BorrowingFactor | PoolKind::TotalBorrowing)
}

struct Case<'a> {
    path: &'a str,
    long: Pubkey,
    short: Pubkey,
    index: Pubkey,
    name: &'a str,
    enable: bool,
    now: i64,
    shard: u64,
    case: u64,
}

fn check_market(m: &mut Monitor, mk: &Market, c: &Case) {
    let pure = c.long == c.short;
    let ctx = |extra: vcommon::serde_json::Value| {
        json!({
            "path": c.path, "shard": c.shard, "case": c.case, "pure_market": pure, "name": c.name, "enable": c.enable,
            "unix_timestamp": c.now, "index_token": c.index.to_string(), "long_token": c.long.to_string(),
            "short_token": c.short.to_string(), "detail": extra,
        })
    };
    m.count(&format!("markets_{}_{}", c.path, if pure { "pure" } else { "impure" }));

    // --- config keys
    for key in MarketConfigKey::iter() {
        let name = key.to_string();
        let Some((want, cname, how)) = documented_default(key) else {
            m.count("key_checks_skipped_uncovered");
            continue;
        };
        m.eval();
        m.count("key_checks");
        m.nontrivial(format!("key:{}:{}:{}", c.path, pure, name).as_bytes());
        match mk.get_config_by_key(key) {
            Some(got) if *got == want => {}
            Some(got) => {
                let mut d = json!({
                    "key": name, "observed": got.to_string(), "documented_constant": cname,
                    "documented_value": want.to_string(), "constant_chosen_by": how,
                });
                if matches!(key, MarketConfigKey::ReserveFactor) {
                    d["DEFAULT_RESERVE_FACTOR"] = json!(k::DEFAULT_RESERVE_FACTOR.to_string());
                    d["DEFAULT_RECEIVER_FACTOR"] = json!(k::DEFAULT_RECEIVER_FACTOR.to_string());
                }
                m.violation(&format!("C17:default:{name}"), ctx(d));
            }
            None => m.violation(
                &format!("C17:default:{name}"),
                ctx(json!({"key": name, "observed": "no value stored for this key", "documented_constant": cname})),
            ),
        }
    }

    // --- config flags
    for flag in MarketConfigFlag::iter() {
        let name = flag.to_string();
        let got = mk.get_config_flag_by_key(flag);
        let Some((want, cname)) = documented_flag_default(flag) else {
            m.count("flag_checks_skipped_uncovered");
            m.count(&format!("uncovered_flag_{name}_observed_{got}"));
            continue;
        };
        m.eval();
        m.count("flag_checks");
        m.nontrivial(format!("flag:{}:{}:{}", c.path, pure, name).as_bytes());
        if got != want {
            m.violation(
                &format!("C17:default_flag:{name}"),
                ctx(json!({"flag": name, "observed": got, "documented_constant": cname, "documented_value": want})),
            );
        }
    }

    // --- the market's own purity flag
    m.eval();
    if mk.is_pure() != pure {
        m.violation("C17:market_flag:pure", ctx(json!({"observed": mk.is_pure(), "expected": pure})));
    }
    if mk.is_enabled() == c.enable {
        m.count("enabled_flag_as_requested");
    } else {
        m.count("enabled_flag_differs_from_request");
    }

    // --- pools
    for kind in PoolKind::iter() {
        let kname = kind.to_string();
        m.eval();
        m.count("pool_checks");
        m.nontrivial(format!("pool:{}:{}:{}", c.path, pure, kname).as_bytes());
        let Some(pool) = mk.pool(kind) else {
            m.violation(&format!("C17:pool_missing:{kname}"), ctx(json!({"pool": kname})));
            continue;
        };
        let want_pure = if always_impure(kind) { false } else { pure };
        if always_impure(kind) && pure {
            m.count("always_impure_pools_checked_in_pure_market");
        }
        // (1) stored marker, (2) behaviour: a short-side delta lands on the shared amount iff pure.
        let raw = bytemuck::bytes_of(&pool);
        let raw_pure = raw[0] != 0;
        let beh = pool.checked_apply_delta(Delta::new(None, Some(&3i128))).ok().and_then(|p| {
            let (l, s) = (p.long_amount().ok()?, p.short_amount().ok()?);
            match (l, s) {
                (2, 1) => Some(true),
                (0, 3) => Some(false),
                _ => None,
            }
        });
        if raw_pure != want_pure || beh != Some(want_pure) {
            m.violation(
                &format!("C17:pool_purity:{kname}"),
                ctx(json!({"pool": kname, "expected_pure": want_pure, "stored_marker_pure": raw_pure,
                    "behaves_pure": beh.map(|b| b.to_string()).unwrap_or("undetermined".into())})),
            );
        }
        let (l, s) = (pool.long_amount(), pool.short_amount());
        let raw_amounts_zero = raw[16..48].iter().all(|b| *b == 0);
        if !matches!((&l, &s), (Ok(0), Ok(0))) || !raw_amounts_zero {
            m.violation(
                &format!("C17:pool_amount:{kname}"),
                ctx(json!({"pool": kname, "long_amount": format!("{l:?}"), "short_amount": format!("{s:?}"),
                    "stored_amount_bytes_zero": raw_amounts_zero})),
            );
        }
    }
    if m.wants_sample() {
        m.sample(json!({
            "path": c.path, "pure_market": pure, "name": c.name, "enable": c.enable,
            "reserve_factor": mk.get_config_by_key(MarketConfigKey::ReserveFactor).map(|v| v.to_string()),
            "swap_impact_exponent": mk.get_config_by_key(MarketConfigKey::SwapImpactExponent).map(|v| v.to_string()),
            "primary_pool_pure_marker": mk.pool(PoolKind::Primary).map(|p| bytemuck::bytes_of(&p)[0]),
            "position_impact_pool_pure_marker": mk.pool(PoolKind::PositionImpact).map(|p| bytemuck::bytes_of(&p)[0]),
        }));
    }
}

fn rand_name(rng: &mut Rng) -> String {
    let n = rng.range(0, 40) as usize;
    const A: &[u8] = b"ABCDEFGHIJKLMNOPQRSTUVWXYZabcdefghijklmnopqrstuvwxyz0123456789/[]- _.";
    (0..n).map(|_| *rng.pick(A) as char).collect()
}

/// Create vaults if needed and send `initialize_market`; returns the market address.
pub(crate) fn create_market(w: &mut World, it: usize, lt: usize, st: usize, name: &str, enable: bool) -> Result<Pubkey, String> {
    let (keeper, store, token_map) = (w.keeper, w.store, w.token_map);
    let (im, lm, sm) = (w.tokens[it].mint, w.tokens[lt].mint, w.tokens[st].mint);
    for mint in [lm, sm] {
        let vault = w.vault(&mint);
        if w.svm.get(&vault).is_none() {
            w.send(
                &[six(
                    sa::InitializeMarketVault {
                        authority: keeper,
                        store,
                        mint,
                        vault,
                        system_program: system_program::ID,
                        token_program: spl_token::ID,
                    },
                    si::InitializeMarketVault {},
                )],
                &[keeper],
            )
            .map_err(|(e, _)| format!("initialize_market_vault: {e:?}"))?;
        }
    }
    let market_token = world::pda::find_market_token_address(&store, &im, &lm, &sm, &STORE_PID).0;
    let market = world::pda::find_market_address(&store, &market_token, &STORE_PID).0;
    w.send(
        &[six(
            sa::InitializeMarket {
                authority: keeper,
                store,
                market_token_mint: market_token,
                long_token_mint: lm,
                short_token_mint: sm,
                market,
                token_map,
                long_token_vault: w.vault(&lm),
                short_token_vault: w.vault(&sm),
                system_program: system_program::ID,
                token_program: spl_token::ID,
            },
            si::InitializeMarket { index_token_mint: im, name: name.to_string(), enable },
        )],
        &[keeper],
    )
    .map_err(|(e, _)| format!("initialize_market: {e:?}"))?;
    Ok(market)
}

pub fn run(args: &Args) -> Option<i32> {
    let mut mon = Monitor::new(
        args,
        "cases: markets created by the real initialize_market instruction (random index/long/short token triples, \
         names, enable flag, creation time; some after another market received a deposit) and by Market::default()+init() \
         inside the runtime context; every MarketConfigKey / MarketConfigFlag of the EnumIter and every PoolKind is \
         compared with a hand-written table of documented DEFAULT_* constants chosen by name. non-trivial: every \
         (key|flag|pool kind) check; distinct = distinct (creation path, pure/impure, key|flag|pool kind)",
    );
    mon.assume("market-closed variants of a setting have no constant of their own: they are compared with the documented default of the same setting without the `market closed` qualifier (side-less ones only because the long and short constants agree)");
    mon.assume("`the impact pool` in the property is the position impact pool (Pools::init documents exactly position impact, borrowing factor and total borrowing as `must be impure`)");
    mon.assume("MarketConfigFlag::EnableMarketClosedParams has no documented default constant: observed, not asserted");

    // Coverage of the table itself (static).
    let mut uncovered_keys = vec![];
    let mut covered = 0u64;
    for key in MarketConfigKey::iter() {
        match documented_default(key) {
            Some(_) => covered += 1,
            None => uncovered_keys.push(key.to_string()),
        }
    }
    let uncovered_flags: Vec<String> = MarketConfigFlag::iter().filter(|f| documented_flag_default(*f).is_none()).map(|f| f.to_string()).collect();
    mon.add("config_keys_in_enum", covered + uncovered_keys.len() as u64);
    mon.add("config_keys_with_documented_constant", covered);
    mon.add("config_keys_uncovered", uncovered_keys.len() as u64);
    mon.add("config_flags_in_enum", MarketConfigFlag::iter().count() as u64);
    mon.add("config_flags_uncovered", uncovered_flags.len() as u64);
    mon.set_extra("uncovered_config_keys", json!(uncovered_keys));
    mon.set_extra("uncovered_config_flags", json!(uncovered_flags));
    mon.set_extra(
        "constants",
        json!({"DEFAULT_RESERVE_FACTOR": k::DEFAULT_RESERVE_FACTOR.to_string(), "DEFAULT_RECEIVER_FACTOR": k::DEFAULT_RECEIVER_FACTOR.to_string()}),
    );

    let quiet = hostsvm::QuietStdout::new();
    let shards = args.scale(2048, 32768);
    let per_shard = args.scale(10, 14);
    let seed = args.seed;
    run_shards(&mut mon, args.threads, shards, |shard, m| {
        let mut rng = Rng::derive(seed, shard, 17);
        let boot = vcommon::monitor::guard(|| {
            let mut w = World::bootstrap_store();
            w.bootstrap_oracle();
            // Tokens: one synthetic (index only) and 3–4 real ones with different decimals.
            w.add_token("BTC", 8, 2, true);
            w.add_token("SOL", 9, 4, false);
            w.add_token("USDC", 6, 6, false);
            w.add_token("WETH", 8, 3, false);
            w.add_token("BONK", 5, 9, false);
            w
        });
        let mut w = match boot {
            Ok(w) => w,
            Err(e) => {
                m.inconclusive(&format!("bootstrap failed in shard {shard}: {e}"));
                return;
            }
        };
        let real: Vec<usize> = (0..w.tokens.len()).filter(|i| !w.tokens[*i].synthetic).collect();
        let mut used = std::collections::BTreeSet::new();
        let mut funded: Option<usize> = None;
        for case in 0..per_shard {
            // Pick an unused triple; pure with probability ~ 2/5.
            let mut triple = None;
            for _ in 0..64 {
                let it = rng.below(w.tokens.len() as u64) as usize;
                let lt = *rng.pick(&real);
                let st = if rng.chance(2, 5) { lt } else { *rng.pick(&real) };
                if used.insert((it, lt, st)) {
                    triple = Some((it, lt, st));
                    break;
                }
            }
            let Some((it, lt, st)) = triple else { break };
            if rng.chance(1, 2) {
                w.svm.warp(rng.range(1, 100_000) as i64);
            }
            // Occasionally make another market non-default first (deposit), so that a fresh market
            // is observed next to used ones.
            if funded.is_none() && !w.markets.is_empty() && rng.chance(1, 3) {
                let mi = 0usize;
                let r = vcommon::monitor::guard(|| {
                    let e18 = 1_000_000_000_000_000_000u128;
                    let prices = [60_000 * e18, 150 * e18, e18, 3_000 * e18, e18 / 50_000];
                    for t in 0..w.tokens.len() {
                        let p = prices[t % prices.len()];
                        let _ = w.set_price(t, p, p, p);
                    }
                    let alice = w.add_user(&format!("alice{shard}"));
                    let mk = w.markets[mi].clone();
                    let (lm, sm) = (w.tokens[mk.long].mint, w.tokens[mk.short].mint);
                    token::fund_ata(&mut w.svm, &alice, &lm, 1_000_000_000_000);
                    if sm != lm {
                        token::fund_ata(&mut w.svm, &alice, &sm, 1_000_000_000_000);
                    }
                    let d = w.create_deposit(alice, mi, 1_000_000_000, if sm != lm { 1_000_000_000 } else { 0 }, None, None, &[], &[], 0);
                    match d {
                        Ok(d) => w.execute_deposit(d, false).map(|_| ()).map_err(|(e, _)| format!("execute_deposit: {e:?}")),
                        Err((e, _)) => Err(format!("create_deposit: {e:?}")),
                    }
                });
                match r {
                    Ok(Ok(())) => {
                        funded = Some(mi);
                        m.count("other_market_funded_before_creation");
                    }
                    Ok(Err(e)) => m.count(&format!("funding_other_market_failed(ignored)[{}]", e.chars().take(60).collect::<String>())),
                    Err(e) => m.count(&format!("funding_other_market_aborted(ignored)[{}]", e.chars().take(60).collect::<String>())),
                }
            }
            let name = rand_name(&mut rng);
            let enable = rng.chance(3, 4);
            let now = w.svm.clock.unix_timestamp;
            let (im, lm, sm) = (w.tokens[it].mint, w.tokens[lt].mint, w.tokens[st].mint);
            match create_market(&mut w, it, lt, st, &name, enable) {
                Ok(market) => {
                    // Remember it as a World market (for the funding step above).
                    let market_token = world::pda::find_market_token_address(&w.store, &im, &lm, &sm, &STORE_PID).0;
                    let vault = w.vault(&market_token);
                    let (keeper, store) = (w.keeper, w.store);
                    let _ = w.send(
                        &[six(
                            sa::InitializeMarketVault {
                                authority: keeper,
                                store,
                                mint: market_token,
                                vault,
                                system_program: system_program::ID,
                                token_program: spl_token::ID,
                            },
                            si::InitializeMarketVault {},
                        )],
                        &[keeper],
                    );
                    match load::<Market>(&w.svm, &market) {
                        Some(mk) => {
                            let c = Case { path: "instruction", long: lm, short: sm, index: im, name: &name, enable, now, shard, case };
                            check_market(m, &mk, &c);
                        }
                        None => m.inconclusive("market account not readable after a successful initialize_market"),
                    }
                    if enable {
                        w.markets.push(world::MarketInfo { name: name.clone(), market_token, market, index: it, long: lt, short: st });
                    }
                }
                Err(e) => {
                    m.count("initialize_market_failed");
                    m.inconclusive(&format!("initialize_market failed (harness): {e}"));
                }
            }

            // Direct path, same triple shape but arbitrary keys, inside the runtime (stubbed clock).
            let (dl, ds) = {
                let l = key(&format!("d-long-{shard}-{case}"));
                (l, if lm == sm { l } else { key(&format!("d-short-{shard}-{case}")) })
            };
            let di = key(&format!("d-index-{shard}-{case}"));
            let dmt = key(&format!("d-mt-{shard}-{case}"));
            let store = w.store;
            let bump = rng.below(256) as u8;
            let r = in_runtime(&mut w.svm, || {
                let mut mk = Box::new(Market::default());
                mk.init(bump, store, &name, dmt, di, dl, ds, enable).map(|_| mk).map_err(|e| format!("{e:?}"))
            });
            match r {
                Ok(Ok(mk)) => {
                    let c = Case { path: "direct", long: dl, short: ds, index: di, name: &name, enable, now, shard, case };
                    check_market(m, &mk, &c);
                }
                Ok(Err(e)) => {
                    m.count("direct_init_returned_err");
                    m.inconclusive(&format!("Market::init returned an error for an ordinary name: {e}"));
                }
                Err(e) => {
                    m.count("direct_init_aborted");
                    m.inconclusive(&format!("direct Market::init aborted: {e}"));
                }
            }
        }
    });
    drop(quiet);
    let _ = UNIT;
    for c in ["markets_instruction_pure", "markets_instruction_impure", "markets_direct_pure", "markets_direct_impure"] {
        mon.require(c, args.scale(20, 400));
    }
    mon.require("key_checks", 1000);
    mon.require("flag_checks", 100);
    mon.require("pool_checks", 1000);
    mon.require("always_impure_pools_checked_in_pure_market", 100);
    mon.require("config_keys_with_documented_constant", 60);
    Some(mon.finish())
}
