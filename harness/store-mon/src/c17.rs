//! Monitor for C17 (see /verif/DESIGN.md §5 C17).
use vcommon::Args;

pub fn run(_args: &Args) -> Option<i32> {
    None
}
