//! Monitor for C45 (see /verif/DESIGN.md §5 C45).
use vcommon::Args;

pub fn run(_args: &Args) -> Option<i32> {
    None
}
