//! Monitor for C45 "GLV vaults keep their composition and price in their own favour"
//! (see /verif/DESIGN.md §5 C45).
//!
//! Everything runs through the real instructions in `hostsvm`. Per shard one random world (2–4
//! markets with the GLV's long/short tokens, 1–3 markets with other tokens, random funding, prices
//! with `min < max` spreads, optionally open positions and per-market PnL-cap configs) and a random
//! history of GLV operations. Oracles:
//!
//! 1. composition — `insert_glv_market` / `initialize_glv` must not succeed with a market whose long /
//!    short token differs from the GLV's; after every successful instruction every market listed in
//!    the GLV account has the GLV's tokens;
//! 2. caps — after every *executed* GLV deposit the recorded balance of that market token respects the
//!    configured `max_amount` and `max_value`; the value is recomputed as the program defines it
//!    (`balance * pool_value(MaxAfterDeposit, maximize = true) / supply`, floor) independently: BigInt
//!    from the market account + the published prices when the market has no positions, and through
//!    the program's `get_market_token_value` view (which does not go through any GLV code) otherwise;
//! 3. favour — (a) the vault value used by a deposit equals the independently recomputed *maximized*
//!    value, the one used by a withdrawal the *minimized* one; on one and the same state the value used
//!    by a deposit is >= the value used by a withdrawal; (b) twin experiment on a cloned world: deposit
//!    immediately followed by the withdrawal of all GLV tokens minted, at the same prices, never burns
//!    more market tokens out of the vault than the deposit put in.
use crate::world::{
    exchange::{load, OrderKind, OrderReq},
    glv::{ata22, find_events, GlvInfo},
    World, UNIT,
};
use anchor_lang::prelude::Pubkey;
use gmsol_model::{Balance, PoolKind};
use gmsol_store::{
    events::{GlvPricing, GlvPricingKind},
    states::{
        common::action::ActionState,
        glv::{GlvMarketFlag, UpdateGlvParams},
        Market,
    },
    CoreError,
};
use hostsvm::{token, TxError, TxMeta};
use std::collections::BTreeMap;
use vcommon::{
    big::{b, div_floor},
    json,
    serde_json,
    monitor::run_shards,
    num_bigint::BigInt,
    num_traits::{Signed, Zero},
    Args, Monitor, Rng,
};

// ------------------------------------------------------------------------------------------------
// World description

/// (name, decimals, precision, synthetic, base price in ticks of 10^-precision USD)
const TOKENS: &[(&str, u8, u8, bool, u64)] = &[
    ("BTC", 8, 2, true, 6_000_000),
    ("ETH", 8, 2, true, 300_000),
    ("DOGE", 8, 6, true, 100_000),
    ("SOL", 9, 4, false, 1_500_000),
    ("WBTC", 8, 2, false, 6_000_000),
    ("USDC", 6, 6, false, 1_000_000),
    ("USDT", 6, 6, false, 1_000_000),
];
const T_BTC: usize = 0;
const T_ETH: usize = 1;
const T_DOGE: usize = 2;
const T_SOL: usize = 3;
const T_WBTC: usize = 4;
const T_USDC: usize = 5;
const T_USDT: usize = 6;

const PNL_DEPOSIT: &str = "max_after_deposit";

#[derive(Clone, Copy, Debug)]
struct Ticks {
    bid: u64,
    mid: u64,
    ask: u64,
}

#[derive(Clone, Copy, Debug, PartialEq, Eq)]
enum Mismatch {
    Swapped,
    OtherShort,
    OtherLong,
    Both,
}

struct Ctx {
    shard: u64,
    w: World,
    glv: GlvInfo,
    gl: usize,
    gs: usize,
    /// market index -> Some(kind) if its tokens differ from the GLV's.
    mismatch: Vec<Option<Mismatch>>,
    ticks: Vec<Ticks>,
    /// market index -> an order was ever sent to it (positions may exist).
    touched_by_orders: Vec<bool>,
    /// market index -> deposit PnL cap configured below the withdrawal PnL cap (either side).
    dep_cap_below_wd_cap: Vec<bool>,
    /// market index -> direction of the positions opened so far (last successful one).
    pos_dir: Vec<Option<bool>>,
    users: Vec<Pubkey>,
    lp: Pubkey,
    position_world: bool,
    hist: Vec<String>,
    step: u64,
}

fn code_of(e: &TxError) -> Option<u32> {
    e.custom_code()
}

fn is_core(e: &TxError, c: CoreError) -> bool {
    code_of(e) == Some(u32::from(c))
}

fn err_class(e: &TxError) -> String {
    match e {
        TxError::Program(p) => match e.custom_code() {
            Some(c) => format!("custom_{c}"),
            None => format!("program_{p:?}").chars().take(40).collect(),
        },
        TxError::Panic(_) => "panic".into(),
        TxError::Runtime(r) => format!("runtime_{}", r.split_whitespace().next().unwrap_or("")),
    }
}

fn pow10(e: u32) -> u128 {
    10u128.pow(e)
}

impl Ctx {
    fn note(&mut self, s: String) {
        self.hist.push(format!("#{} {}", self.step, s));
    }

    fn unit_price(&self, tok: usize, maximize: bool) -> BigInt {
        let (_, d, p, _, _) = TOKENS[tok];
        let t = if maximize { self.ticks[tok].ask } else { self.ticks[tok].bid };
        b(t) * b(pow10(20 - d as u32 - p as u32))
    }

    /// Publish the current ticks of one token through the real chainlink-feed instruction.
    fn publish(&mut self, tok: usize) -> bool {
        let (_, _, p, _, _) = TOKENS[tok];
        let k = pow10(18 - p as u32);
        let t = self.ticks[tok];
        self.w.set_price(tok, t.bid as u128 * k, t.mid as u128 * k, t.ask as u128 * k).is_ok()
    }

    fn publish_all(&mut self) {
        for t in 0..TOKENS.len() {
            if !self.publish(t) {
                panic!("harness: publishing price of {} failed", TOKENS[t].0);
            }
        }
    }

    fn glv_markets(&self, w: &World) -> Vec<usize> {
        w.glv_market_tokens(&self.glv.glv)
            .iter()
            .filter_map(|mt| w.markets.iter().position(|m| m.market_token == *mt))
            .collect()
    }

    fn witness(&self, extra: serde_json::Value) -> serde_json::Value {
        let prices: Vec<_> = TOKENS
            .iter()
            .zip(self.ticks.iter())
            .map(|(t, k)| json!({"token": t.0, "decimals": t.1, "precision": t.2, "bid_ticks": k.bid, "mid_ticks": k.mid, "ask_ticks": k.ask}))
            .collect();
        let markets: Vec<_> = self
            .w
            .markets
            .iter()
            .enumerate()
            .map(|(i, m)| json!({"i": i, "name": m.name, "mismatch": format!("{:?}", self.mismatch[i])}))
            .collect();
        json!({
            "shard": self.shard,
            "step": self.step,
            "glv_long": TOKENS[self.gl].0,
            "glv_short": TOKENS[self.gs].0,
            "position_world": self.position_world,
            "markets": markets,
            "prices": prices,
            "glv_state": glv_state_json(self, &self.w),
            "detail": extra,
            "history": self.hist,
            "replay": "rerun `store-mon C45` with the same VERIF_SEED and tier; the shard is deterministic",
        })
    }
}


fn glv_state_json(ctx: &Ctx, w: &World) -> serde_json::Value {
    let Some(g) = w.load_glv(&ctx.glv.glv) else {
        return json!(null);
    };
    let supply = token::mint_supply(&w.svm, &ctx.glv.glv_token).unwrap_or(0);
    let ms: Vec<_> = g
        .market_tokens()
        .map(|mt| {
            let c = g.market_config(&mt).expect("listed");
            let idx = w.markets.iter().position(|m| m.market_token == mt);
            json!({
                "market": idx,
                "balance": c.balance().to_string(),
                "max_amount": c.max_amount().to_string(),
                "max_value": c.max_value().to_string(),
                "deposit_allowed": c.get_flag(GlvMarketFlag::IsDepositAllowed),
                "market_token_supply": token::mint_supply(&w.svm, &mt).unwrap_or(0).to_string(),
            })
        })
        .collect();
    json!({"glv_supply": supply.to_string(), "markets": ms})
}

// ------------------------------------------------------------------------------------------------
// Independent valuation

/// Signed pool value and market-token supply.
#[derive(Clone, Debug, PartialEq, Eq)]
struct Pv {
    p: BigInt,
    s: BigInt,
}

impl Pv {
    /// `floor(amount * pool_value / supply)`; `None` if the pool value is negative or the supply zero.
    fn value(&self, amount: u64) -> Option<BigInt> {
        if self.p.is_negative() || self.s.is_zero() {
            return None;
        }
        Some(div_floor(&(b(amount) * &self.p), &self.s))
    }
}

/// Exact pool value from the market account and the published prices; only for markets without open
/// interest, position-impact pool and borrowing (then `pool value = Σ pool amount × picked price`).
fn pv_bigint(ctx: &Ctx, w: &World, market: usize, maximize: bool) -> Option<Pv> {
    let info = &w.markets[market];
    let m: Market = load(&w.svm, &info.market)?;
    for k in [
        PoolKind::OpenInterestForLong,
        PoolKind::OpenInterestForShort,
        PoolKind::OpenInterestInTokensForLong,
        PoolKind::OpenInterestInTokensForShort,
        PoolKind::PositionImpact,
        PoolKind::TotalBorrowing,
    ] {
        let p = m.pool(k)?;
        if p.long_amount().ok()? != 0 || p.short_amount().ok()? != 0 {
            return None;
        }
    }
    let pool = m.pool(PoolKind::Primary)?;
    let (la, sa) = (pool.long_amount().ok()?, pool.short_amount().ok()?);
    let p = b(la) * ctx.unit_price(info.long, maximize) + b(sa) * ctx.unit_price(info.short, maximize);
    let s = b(token::mint_supply(&w.svm, &info.market_token)?);
    Some(Pv { p, s })
}

/// Pool value through the program's own `get_market_token_value` view (simulation).
fn pv_view(w: &mut World, market: usize, maximize: bool) -> Option<Pv> {
    let mt = w.markets[market].market_token;
    let e = w.view_market_token_value(mt, 0, PNL_DEPOSIT, maximize).ok()?;
    Some(Pv { p: b(e.pool_value), s: b(e.supply) })
}

/// The pool value both ways; they must agree where both are available.
fn pv(ctx: &Ctx, w: &mut World, market: usize, maximize: bool, m: &mut Monitor) -> Option<Pv> {
    let a = pv_bigint(ctx, w, market, maximize);
    let v = pv_view(w, market, maximize);
    match (a, v) {
        (Some(a), Some(v)) => {
            if a == v {
                m.count("pool_value_bigint_equals_program_view");
                Some(a)
            } else {
                m.count("pool_value_bigint_vs_program_view_mismatch");
                m.inconclusive(&format!(
                    "harness pool-value model disagrees with get_market_token_value (market {market}, maximize {maximize}): {a:?} vs {v:?}"
                ));
                None
            }
        }
        (None, Some(v)) => {
            m.count("pool_value_from_program_view_only");
            Some(v)
        }
        (Some(a), None) => {
            m.count("pool_value_from_bigint_only");
            Some(a)
        }
        (None, None) => {
            m.count("pool_value_unavailable");
            None
        }
    }
}

/// `Σ_i floor(balance_i × pool_value_i / supply_i)` over the GLV's markets with the given balances
/// (taken from `balances`), pools / supplies taken from the world `w`.
fn glv_value(ctx: &Ctx, w: &mut World, balances: &BTreeMap<usize, u64>, maximize: bool, m: &mut Monitor) -> Option<BigInt> {
    let mut total = BigInt::zero();
    for (mi, bal) in balances {
        if *bal == 0 {
            // The program still evaluates the pool value (and fails if that fails); a zero balance
            // contributes zero.
            continue;
        }
        let v = pv(ctx, w, *mi, maximize, m)?;
        total += v.value(*bal)?;
    }
    Some(total)
}

fn balances_of(ctx: &Ctx, w: &World) -> BTreeMap<usize, u64> {
    let mut out = BTreeMap::new();
    if let Some(g) = w.load_glv(&ctx.glv.glv) {
        for mt in g.market_tokens() {
            if let Some(i) = w.markets.iter().position(|m| m.market_token == mt) {
                out.insert(i, g.market_config(&mt).map(|c| c.balance()).unwrap_or(0));
            }
        }
    }
    out
}

fn glv_supply(ctx: &Ctx, w: &World) -> u64 {
    token::mint_supply(&w.svm, &ctx.glv.glv_token).unwrap_or(0)
}

fn pricing_event(meta: &TxMeta, deposit: bool) -> Option<GlvPricing> {
    find_events::<GlvPricing>(meta)
        .into_iter()
        .find(|e| matches!((&e.kind, deposit), (GlvPricingKind::Deposit, true) | (GlvPricingKind::Withdrawal, false)))
}

// ------------------------------------------------------------------------------------------------
// Oracle 1: composition

fn check_composition(ctx: &Ctx, w: &World, m: &mut Monitor, site: &str) {
    let Some(g) = w.load_glv(&ctx.glv.glv) else {
        return;
    };
    m.count("composition_checks");
    let (gl, gs) = (w.tokens[ctx.gl].mint, w.tokens[ctx.gs].mint);
    if *g.long_token() != gl || *g.short_token() != gs {
        m.violation(
            &format!("C45:{site}:glv_tokens_changed"),
            ctx.witness(json!({"long": g.long_token().to_string(), "short": g.short_token().to_string()})),
        );
    }
    for mt in g.market_tokens() {
        let Some(mk) = load::<Market>(&w.svm, &w.market_of_token(&mt)) else {
            m.violation(&format!("C45:{site}:glv_lists_unknown_market"), ctx.witness(json!({"market_token": mt.to_string()})));
            continue;
        };
        let meta = mk.meta();
        if meta.long_token_mint != *g.long_token() || meta.short_token_mint != *g.short_token() {
            m.violation(
                &format!("C45:{site}:glv_lists_market_with_other_tokens"),
                ctx.witness(json!({"market_token": mt.to_string(), "market_long": meta.long_token_mint.to_string(), "market_short": meta.short_token_mint.to_string()})),
            );
        }
    }
}

// ------------------------------------------------------------------------------------------------
// World construction

fn gen_ticks(rng: &mut Rng, base: u64) -> Ticks {
    // mid within [0.4, 2.5] × base, spread 0 / one tick / up to 2 %.
    let mid = ((base as u128 * rng.range(400, 2500) as u128) / 1000).max(10) as u64;
    let half = match rng.below(6) {
        0 => 0,
        1 => 1,
        2 => (mid / 10_000).max(1),
        3 => (mid / 1000).max(1),
        4 => (mid / 100).max(1),
        _ => rng.range(0, (mid / 50).max(1)),
    };
    let bid = mid.saturating_sub(if rng.chance(1, 5) { 0 } else { half }).max(1);
    let ask = mid + half;
    Ticks { bid, mid, ask }
}

/// A "reasonable" pool funding amount for a token, in token units (log-uniform over ~3 decades).
fn funding_amount(rng: &mut Rng, tok: usize, scale_milli: u64) -> u64 {
    // target USD value 300 .. 100_000, at the *base* price
    let usd = rng.log_u64(100_000).max(300) as u128 * scale_milli as u128 / 1000;
    let (_, d, p, _, base) = TOKENS[tok];
    // amount = usd / price = usd * 10^p / base ticks, in units of 10^d
    let amt = usd * pow10(p as u32) * pow10(d as u32) / base as u128;
    amt.clamp(1, 400_000_000_000) as u64
}

fn regular_deposit(w: &mut World, user: Pubkey, market: usize, long: u64, short: u64) -> Result<(), String> {
    let d = w.create_deposit(user, market, long, short, None, None, &[], &[], 0).map_err(|(e, _)| format!("create_deposit: {e:?}"))?;
    w.execute_deposit(d, true).map_err(|(e, _)| format!("execute_deposit: {e:?}"))?;
    w.close_deposit(user, d).map_err(|(e, _)| format!("close_deposit: {e:?}"))?;
    Ok(())
}

fn build(shard: u64, rng: &mut Rng, m: &mut Monitor) -> Ctx {
    let mut w = World::bootstrap_store();
    w.bootstrap_oracle();
    for (name, d, p, syn, _) in TOKENS {
        w.add_token(name, *d, *p, *syn);
    }
    // GLV token pair.
    let (gl, gs) = match rng.below(10) {
        0..=4 => (T_SOL, T_USDC),
        5..=6 => (T_WBTC, T_USDC),
        7..=8 => (T_SOL, T_USDT),
        _ => (T_SOL, T_SOL),
    };
    let pure = gl == gs;
    m.count(&format!("world_glv_pair_{}_{}", TOKENS[gl].0, TOKENS[gs].0));
    let other_long = if gl == T_SOL { T_WBTC } else { T_SOL };
    let other_short = if gs == T_USDC { T_USDT } else { T_USDC };
    // Matching markets: 2–4 distinct index tokens.
    let mut idx_tokens = vec![T_BTC, T_ETH, T_DOGE, T_SOL, T_WBTC];
    rng.shuffle(&mut idx_tokens);
    let n_match = rng.range(2, 4) as usize;
    let mut mismatch: Vec<Option<Mismatch>> = vec![];
    for it in idx_tokens.iter().take(n_match) {
        w.add_market(*it, gl, gs);
        mismatch.push(None);
    }
    // Mismatching markets: 1–3 of the four kinds.
    let mut kinds = vec![Mismatch::OtherShort, Mismatch::OtherLong, Mismatch::Both];
    if !pure {
        kinds.push(Mismatch::Swapped);
    }
    rng.shuffle(&mut kinds);
    let n_mis = rng.range(1, 3) as usize;
    for k in kinds.iter().take(n_mis) {
        let it = *rng.pick(&[T_BTC, T_ETH, T_DOGE, T_SOL]);
        let (l, s) = match k {
            Mismatch::Swapped => (gs, gl),
            Mismatch::OtherShort => (gl, if pure { T_USDC } else { other_short }),
            Mismatch::OtherLong => (other_long, gs),
            Mismatch::Both => (other_long, if pure { T_USDC } else { other_short }),
        };
        w.add_market(it, l, s);
        mismatch.push(Some(*k));
    }
    m.add("world_matching_markets", n_match as u64);
    m.add("world_mismatching_markets", n_mis as u64);
    let n_markets = w.markets.len();
    let ticks: Vec<Ticks> = TOKENS.iter().map(|t| gen_ticks(rng, t.4)).collect();
    let lp = w.add_user("lp");
    let users = vec![w.add_user("alice"), w.add_user("bob")];
    for u in users.iter().chain(std::iter::once(&lp)) {
        for (i, t) in TOKENS.iter().enumerate() {
            if !t.3 {
                let mint = w.tokens[i].mint;
                token::fund_ata(&mut w.svm, u, &mint, 1_000_000_000_000_000);
            }
        }
    }
    let position_world = !pure && rng.chance(2, 5);
    if position_world {
        m.count("world_with_positions");
    }
    let glv = w.glv_info(0);
    let mut ctx = Ctx {
        shard,
        w,
        glv,
        gl,
        gs,
        mismatch,
        ticks,
        touched_by_orders: vec![false; n_markets],
        dep_cap_below_wd_cap: vec![false; n_markets],
        pos_dir: vec![None; n_markets],
        users,
        lp,
        position_world,
        hist: vec![],
        step: 0,
    };
    ctx.publish_all();
    ctx.note(format!("world: glv=({},{}) markets={:?}", TOKENS[gl].0, TOKENS[gs].0, ctx.w.markets.iter().map(|x| x.name.clone()).collect::<Vec<_>>()));
    // Fund the markets (every matching one, mismatching ones mostly) through real deposits.
    for mi in 0..n_markets {
        if ctx.mismatch[mi].is_some() && rng.chance(1, 3) {
            continue;
        }
        let (l, s) = (ctx.w.markets[mi].long, ctx.w.markets[mi].short);
        let scale = if rng.chance(1, 8) { 5 } else { 1000 };
        let (la, sa) = (funding_amount(rng, l, scale), funding_amount(rng, s, scale));
        let lp = ctx.lp;
        if let Err(e) = regular_deposit(&mut ctx.w, lp, mi, la, sa) {
            panic!("harness: funding market {mi} failed: {e}");
        }
        ctx.note(format!("fund market={mi} long={la} short={sa}"));
    }
    // Users acquire market tokens of the matching markets.
    for ui in 0..ctx.users.len() {
        for mi in 0..n_match {
            let (l, s) = (ctx.w.markets[mi].long, ctx.w.markets[mi].short);
            let (la, sa) = (funding_amount(rng, l, 100), funding_amount(rng, s, 100));
            let u = ctx.users[ui];
            match regular_deposit(&mut ctx.w, u, mi, la, sa) {
                Ok(()) => ctx.note(format!("user{ui} deposit market={mi} long={la} short={sa}")),
                Err(_) => m.count("setup_user_deposit_failed"),
            }
        }
    }
    // Hostile initialisation: a list containing a mismatching market must be refused.
    {
        let mut list: Vec<usize> = (0..n_match).filter(|_| rng.bool()).collect();
        let mis: Vec<usize> = (n_match..n_markets).collect();
        let bad = *rng.pick(&mis);
        list.push(bad);
        if list.len() == 1 && rng.bool() {
            list.push(0);
        }
        m.eval();
        match ctx.w.initialize_glv(7, &list) {
            Ok(info) => {
                // Only acceptable if, by coincidence, all listed markets share one token pair.
                let first = &ctx.w.markets[list[0]];
                let same = list.iter().all(|i| ctx.w.markets[*i].long == first.long && ctx.w.markets[*i].short == first.short);
                if same {
                    m.count("init_list_consistent_accepted");
                } else {
                    m.violation(
                        "C45:initialize_glv:accepted_markets_with_different_tokens",
                        ctx.witness(json!({"list": list, "glv": info.glv.to_string()})),
                    );
                }
            }
            Err((e, _)) => {
                m.count("init_mixed_list_rejected");
                m.count(&format!("init_mixed_list_rejected_{}", err_class(&e)));
                m.nontrivial(format!("init-mixed:{:?}:{}", ctx.mismatch[bad], list.len()).as_bytes());
            }
        }
    }
    // The real GLV: a non-empty subset of the matching markets.
    let mut initial: Vec<usize> = (0..n_match).filter(|_| rng.chance(2, 3)).collect();
    if initial.is_empty() {
        initial.push(rng.below(n_match as u64) as usize);
    }
    match ctx.w.initialize_glv(0, &initial) {
        Ok(info) => ctx.glv = info,
        Err((e, meta)) => panic!("harness: initialize_glv failed: {e:?} {:?}", meta.logs),
    }
    ctx.note(format!("initialize_glv markets={initial:?}"));
    m.count("initialize_glv_ok");
    check_composition(&ctx, &ctx.w, m, "initialize_glv");
    for mi in initial {
        if rng.chance(9, 10) {
            let mt = ctx.w.markets[mi].market_token;
            let glv = ctx.glv;
            if ctx.w.toggle_glv_market_flag(&glv, mt, GlvMarketFlag::IsDepositAllowed, true).is_err() {
                panic!("harness: enabling deposits failed");
            }
        }
    }
    if rng.bool() {
        // No waiting between shifts.
        let glv = ctx.glv;
        let _ = ctx.w.update_glv_config(&glv, UpdateGlvParams { shift_min_interval_secs: Some(0), ..Default::default() });
        ctx.note("update_glv_config shift_min_interval_secs=0".into());
    }
    if position_world {
        // Per-market PnL caps (deposit / withdrawal) and positions.
        for mi in 0..n_match {
            if rng.bool() {
                let mut caps = [0u128; 4];
                for (i, key) in [
                    "max_pnl_factor_for_long_deposit",
                    "max_pnl_factor_for_short_deposit",
                    "max_pnl_factor_for_long_withdrawal",
                    "max_pnl_factor_for_short_withdrawal",
                ]
                .iter()
                .enumerate()
                {
                    // deposits (i < 2) mostly get the lower cap: the configuration the GLV pricing must survive
                    let f = if i < 2 { *rng.pick(&[2u128, 5, 20, 60, 95]) } else { *rng.pick(&[20u128, 60, 95]) } * UNIT / 100;
                    caps[i] = f;
                    if ctx.w.update_market_config(mi, key, f).is_err() {
                        m.count("setup_update_market_config_failed");
                        caps[i] = 60 * UNIT / 100;
                    }
                }
                ctx.dep_cap_below_wd_cap[mi] = caps[0] < caps[2] || caps[1] < caps[3];
                ctx.note(format!("market {mi} pnl caps dep=({},{}) wd=({},{}) /UNIT%", caps[0] * 100 / UNIT, caps[1] * 100 / UNIT, caps[2] * 100 / UNIT, caps[3] * 100 / UNIT));
            }
            if rng.chance(3, 4) {
                open_position(&mut ctx, rng, m, mi);
            }
        }
    }
    ctx
}

fn open_position(ctx: &mut Ctx, rng: &mut Rng, m: &mut Monitor, mi: usize) {
    let user = ctx.users[rng.below(ctx.users.len() as u64) as usize];
    // Mostly pile onto the side that is already there (one-sided markets give the traders a large PnL).
    let is_long = match ctx.pos_dir[mi] {
        Some(d) if rng.chance(4, 5) => d,
        _ => rng.bool(),
    };
    let mk = ctx.w.markets[mi].clone();
    let Some(market) = load::<Market>(&ctx.w.svm, &mk.market) else {
        return;
    };
    let Some(pool) = market.pool(PoolKind::Primary) else {
        return;
    };
    // USD (10^-20) backing this side: longs are backed by the long token, shorts by the short token.
    let (amount, tok) = if is_long { (pool.long_amount().unwrap_or(0), mk.long) } else { (pool.short_amount().unwrap_or(0), mk.short) };
    let side_usd = b(amount) * ctx.unit_price(tok, false);
    let frac = *rng.pick(&[20u32, 60, 120, 250, 400]); // permille of the backing side
    let Some(size) = vcommon::big::to_u128(&(side_usd * b(frac) / b(1000u32))) else {
        return;
    };
    if size < 2 * UNIT {
        return;
    }
    let collateral_long = rng.chance(1, 4);
    let ctok = if collateral_long { mk.long } else { mk.short };
    let lev10 = rng.range(15, 60) as u128;
    let collateral_usd = b(size) * b(10u32) / b(lev10);
    let Some(collateral) = vcommon::big::to_u64(&(collateral_usd / ctx.unit_price(ctok, false).max(b(1u32)))) else {
        return;
    };
    if collateral == 0 {
        return;
    }
    let mut req = OrderReq::new(OrderKind::MarketIncrease, mi, is_long, collateral_long);
    req.initial_collateral_delta_amount = collateral;
    req.size_delta_value = size;
    ctx.touched_by_orders[mi] = true;
    m.count("position_open_attempts");
    match ctx.w.create_order(user, &req) {
        Ok(o) => {
            match ctx.w.execute_order(o, true) {
                Ok(_) => {
                    m.count("position_open_ok");
                    ctx.pos_dir[mi] = Some(is_long);
                    ctx.note(format!("open position market={mi} long={is_long} collateral={collateral}(long_token={collateral_long}) size={size} ({frac} permille of the backing side)"));
                }
                Err((e, _)) => {
                    m.count(&format!("position_open_failed_{}", err_class(&e)));
                    ctx.note(format!("open position market={mi} long={is_long} collateral={collateral} size={size} -> failed {}", err_class(&e)));
                }
            }
            let _ = ctx.w.close_order(user, o);
        }
        Err((e, _)) => m.count(&format!("position_create_failed_{}", err_class(&e))),
    }
}

/// Move the index price of a market with positions in the traders' favour (large trader PnL is the
/// hostile market state for GLV pricing: it is where the PnL caps and the maximize flags matter).
fn op_price_pressure(ctx: &mut Ctx, rng: &mut Rng, m: &mut Monitor) {
    let cands: Vec<usize> = (0..ctx.w.markets.len()).filter(|i| ctx.pos_dir[*i].is_some()).collect();
    if cands.is_empty() {
        return op_prices(ctx, rng, m);
    }
    let mi = *rng.pick(&cands);
    let up = ctx.pos_dir[mi] == Some(true);
    let tok = ctx.w.markets[mi].index;
    let t = ctx.ticks[tok];
    let f = if up { rng.range(1050, 1800) } else { rng.range(450, 950) } as u128;
    let base = TOKENS[tok].4 as u128;
    let mid = (t.mid as u128 * f / 1000).clamp((base / 20).max(10), base * 40) as u64;
    let half = match rng.below(4) {
        0 => 0,
        1 => 1,
        2 => (mid / 2000).max(1),
        _ => (mid / 200).max(1),
    };
    ctx.ticks[tok] = Ticks { bid: mid.saturating_sub(half).max(1), mid, ask: mid + half };
    m.count("op_price_pressure");
    if !ctx.publish(tok) {
        panic!("harness: price publication failed");
    }
    ctx.note(format!("price pressure market={mi} index={} ticks {}/{}/{}", TOKENS[tok].0, ctx.ticks[tok].bid, mid, ctx.ticks[tok].ask));
}

// ------------------------------------------------------------------------------------------------
// Operations

fn op_insert(ctx: &mut Ctx, rng: &mut Rng, m: &mut Monitor) {
    let listed = ctx.glv_markets(&ctx.w);
    let n = ctx.w.markets.len();
    // Mostly markets that are not listed; sometimes one that already is.
    let cands: Vec<usize> = (0..n).filter(|i| !listed.contains(i)).collect();
    let mi = if cands.is_empty() || rng.chance(1, 10) { rng.below(n as u64) as usize } else { *rng.pick(&cands) };
    let already = listed.contains(&mi);
    let glv = ctx.glv;
    m.eval();
    m.count("op_insert_glv_market");
    let r = ctx.w.insert_glv_market(&glv, mi);
    let kind = ctx.mismatch[mi];
    ctx.note(format!("insert_glv_market market={mi} mismatch={kind:?} already={already} -> {}", r.as_ref().map(|_| "ok".to_string()).unwrap_or_else(|(e, _)| err_class(e))));
    match (r, kind) {
        (Ok(_), Some(k)) => {
            m.violation(
                "C45:insert_glv_market:accepted_market_with_other_tokens",
                ctx.witness(json!({"market": mi, "mismatch": format!("{k:?}")})),
            );
        }
        (Ok(_), None) => {
            m.count("insert_matching_ok");
            if already {
                m.count("insert_already_listed_ok_unexpected");
            }
            let mt = ctx.w.markets[mi].market_token;
            if rng.chance(9, 10) {
                let _ = ctx.w.toggle_glv_market_flag(&glv, mt, GlvMarketFlag::IsDepositAllowed, true);
            }
        }
        (Err((e, _)), Some(k)) => {
            m.count("insert_mismatching_rejected");
            m.count(&format!("insert_mismatching_rejected_{k:?}"));
            m.count(&format!("insert_mismatching_rejected_{}", err_class(&e)));
            m.nontrivial(format!("insert-mismatch:{k:?}:{}:{}", TOKENS[ctx.gl].0, TOKENS[ctx.gs].0).as_bytes());
        }
        (Err((e, _)), None) => {
            if already {
                m.count("insert_already_listed_rejected");
            } else {
                m.count("insert_matching_rejected");
                m.count(&format!("insert_matching_rejected_{}", err_class(&e)));
            }
        }
    }
    check_composition(ctx, &ctx.w, m, "insert_glv_market");
}

fn op_remove(ctx: &mut Ctx, rng: &mut Rng, m: &mut Monitor) {
    let listed = ctx.glv_markets(&ctx.w);
    if listed.len() < 2 {
        return;
    }
    let mi = *rng.pick(&listed);
    let mt = ctx.w.markets[mi].market_token;
    let glv = ctx.glv;
    m.count("op_remove_glv_market");
    if rng.chance(4, 5) {
        let _ = ctx.w.toggle_glv_market_flag(&glv, mt, GlvMarketFlag::IsDepositAllowed, false);
    }
    let r = ctx.w.remove_glv_market(&glv, mi);
    ctx.note(format!("remove_glv_market market={mi} -> {}", r.as_ref().map(|_| "ok".to_string()).unwrap_or_else(|(e, _)| err_class(e))));
    match r {
        Ok(_) => m.count("remove_ok"),
        Err((e, _)) => {
            m.count(&format!("remove_rejected_{}", err_class(&e)));
            // keep deposits going
            let _ = ctx.w.toggle_glv_market_flag(&glv, mt, GlvMarketFlag::IsDepositAllowed, true);
        }
    }
    check_composition(ctx, &ctx.w, m, "remove_glv_market");
}

fn op_caps(ctx: &mut Ctx, rng: &mut Rng, m: &mut Monitor) {
    let listed = ctx.glv_markets(&ctx.w);
    if listed.is_empty() {
        return;
    }
    let mi = *rng.pick(&listed);
    let mt = ctx.w.markets[mi].market_token;
    let bal = balances_of(ctx, &ctx.w).get(&mi).copied().unwrap_or(0);
    let max_amount = match rng.below(5) {
        0 => None,
        1 => Some(0),
        2 => Some(bal.saturating_add(rng.log_u64(1_000_000_000_000))),
        3 => Some(rng.log_u64(u64::MAX)),
        _ => Some(bal.saturating_mul(2).max(1)),
    };
    let max_value = match rng.below(5) {
        0 => None,
        1 => Some(0),
        2 => Some(rng.log_u128(1_000_000 * UNIT)),
        3 => Some(rng.log_u128(u128::MAX)),
        _ => Some(rng.range(1, 100_000) as u128 * UNIT),
    };
    let glv = ctx.glv;
    m.count("op_update_glv_market_config");
    let r = ctx.w.update_glv_market_config(&glv, mt, max_amount, max_value);
    ctx.note(format!("update_glv_market_config market={mi} max_amount={max_amount:?} max_value={max_value:?} -> {}", r.is_ok()));
    if r.is_ok() {
        m.count("update_glv_market_config_ok");
    }
    check_composition(ctx, &ctx.w, m, "update_glv_market_config");
}

fn op_toggle(ctx: &mut Ctx, rng: &mut Rng, m: &mut Monitor) {
    let listed = ctx.glv_markets(&ctx.w);
    if listed.is_empty() {
        return;
    }
    let mi = *rng.pick(&listed);
    let mt = ctx.w.markets[mi].market_token;
    let enable = rng.chance(3, 4);
    let glv = ctx.glv;
    m.count("op_toggle_glv_market_flag");
    let r = ctx.w.toggle_glv_market_flag(&glv, mt, GlvMarketFlag::IsDepositAllowed, enable);
    ctx.note(format!("toggle_glv_market_flag market={mi} enable={enable} -> {}", r.is_ok()));
    check_composition(ctx, &ctx.w, m, "toggle_glv_market_flag");
}

fn op_glv_config(ctx: &mut Ctx, rng: &mut Rng, m: &mut Monitor) {
    let params = match rng.below(4) {
        0 => UpdateGlvParams { shift_min_interval_secs: Some(*rng.pick(&[0u32, 1, 60, 3600])), ..Default::default() },
        1 => UpdateGlvParams { shift_max_price_impact_factor: Some(rng.log_u128(UNIT)), ..Default::default() },
        2 => UpdateGlvParams { shift_min_value: Some(rng.log_u128(1000 * UNIT)), ..Default::default() },
        _ => UpdateGlvParams { min_tokens_for_first_deposit: Some(*rng.pick(&[0u64, 0, 1, 1_000_000])), ..Default::default() },
    };
    let glv = ctx.glv;
    m.count("op_update_glv_config");
    let r = ctx.w.update_glv_config(&glv, params);
    ctx.note(format!("update_glv_config variant -> {}", r.is_ok()));
    check_composition(ctx, &ctx.w, m, "update_glv_config");
}

fn op_prices(ctx: &mut Ctx, rng: &mut Rng, m: &mut Monitor) {
    m.count("op_set_prices");
    if rng.chance(1, 4) {
        let secs = *rng.pick(&[1i64, 30, 600, 3700]);
        ctx.w.svm.warp(secs);
        ctx.note(format!("warp {secs}s"));
        m.count("op_warp");
        for t in 0..TOKENS.len() {
            if rng.chance(1, 2) {
                ctx.ticks[t] = gen_ticks(rng, TOKENS[t].4);
            }
        }
        ctx.publish_all();
    } else {
        let t = rng.below(TOKENS.len() as u64) as usize;
        ctx.ticks[t] = gen_ticks(rng, TOKENS[t].4);
        if !ctx.publish(t) {
            panic!("harness: price publication failed");
        }
    }
    let desc: Vec<String> = ctx.ticks.iter().map(|k| format!("{}/{}/{}", k.bid, k.mid, k.ask)).collect();
    ctx.note(format!("prices(ticks bid/mid/ask) {}", desc.join(" ")));
}

fn op_market_activity(ctx: &mut Ctx, rng: &mut Rng, m: &mut Monitor) {
    let listed = ctx.glv_markets(&ctx.w);
    if listed.is_empty() {
        return;
    }
    let mi = *rng.pick(&listed);
    let (l, s) = (ctx.w.markets[mi].long, ctx.w.markets[mi].short);
    match rng.below(if ctx.position_world { 4 } else { 3 }) {
        0 => {
            let (la, sa) = (if rng.bool() { funding_amount(rng, l, 50) } else { 0 }, if rng.bool() { funding_amount(rng, s, 50) } else { 0 });
            if la == 0 && sa == 0 {
                return;
            }
            let lp = ctx.lp;
            let ok = regular_deposit(&mut ctx.w, lp, mi, la, sa).is_ok();
            m.count(if ok { "activity_deposit_ok" } else { "activity_deposit_failed" });
            ctx.note(format!("activity deposit market={mi} long={la} short={sa} ok={ok}"));
        }
        1 => {
            let lp = ctx.lp;
            let mt = ctx.w.markets[mi].market_token;
            let have = token::token_amount(&ctx.w.svm, &token::ata(&lp, &mt)).unwrap_or(0);
            let amt = rng.log_u64(have / 4);
            if amt == 0 {
                return;
            }
            let ok = match ctx.w.create_withdrawal(lp, mi, amt, None, None, &[], &[], 0, 0) {
                Ok(wd) => {
                    let ok = ctx.w.execute_withdrawal(wd, true).is_ok();
                    let _ = ctx.w.close_withdrawal(lp, wd);
                    ok
                }
                Err(_) => false,
            };
            m.count(if ok { "activity_withdrawal_ok" } else { "activity_withdrawal_failed" });
            ctx.note(format!("activity withdrawal market={mi} amount={amt} ok={ok}"));
        }
        2 => {
            if l == s {
                return;
            }
            // swap long -> short or back through this market
            let user = ctx.users[rng.below(ctx.users.len() as u64) as usize];
            let to_long = rng.bool();
            let pay = if to_long { s } else { l };
            let mut req = OrderReq::new(OrderKind::MarketSwap, mi, true, to_long);
            req.initial_collateral_token = Some(ctx.w.tokens[pay].mint);
            req.initial_collateral_delta_amount = funding_amount(rng, pay, 20);
            req.swap_path = vec![ctx.w.markets[mi].market_token];
            let ok = match ctx.w.create_order(user, &req) {
                Ok(o) => {
                    let ok = ctx.w.execute_order(o, true).is_ok();
                    let _ = ctx.w.close_order(user, o);
                    ok
                }
                Err(_) => false,
            };
            m.count(if ok { "activity_swap_ok" } else { "activity_swap_failed" });
            ctx.note(format!("activity swap market={mi} to_long={to_long} amount={} ok={ok}", req.initial_collateral_delta_amount));
        }
        _ => open_position(ctx, rng, m, mi),
    }
}

#[derive(Clone, Copy, Debug)]
struct DepositPlan {
    user: usize,
    market: usize,
    mt_amount: u64,
    long: u64,
    short: u64,
}

fn plan_deposit(ctx: &Ctx, w: &World, rng: &mut Rng) -> Option<DepositPlan> {
    let listed = ctx.glv_markets(w);
    if listed.is_empty() {
        return None;
    }
    let market = *rng.pick(&listed);
    let user = rng.below(ctx.users.len() as u64) as usize;
    let mk = &w.markets[market];
    let have = token::token_amount(&w.svm, &token::ata(&ctx.users[user], &mk.market_token)).unwrap_or(0);
    let kind = rng.below(8);
    let mt_amount = if kind <= 3 || kind == 7 {
        match rng.below(5) {
            0 => rng.range(1, 3).min(have),
            1 => have / 2,
            2 => rng.log_u64(have),
            _ => rng.log_u64(have / 8),
        }
    } else {
        0
    };
    let (sl, ss) = (*rng.pick(&[1u64, 30, 300]), *rng.pick(&[1u64, 30, 300]));
    let long = if matches!(kind, 4 | 6 | 7) { funding_amount(rng, mk.long, sl) } else { 0 };
    let short = if matches!(kind, 5 | 6 | 7) { funding_amount(rng, mk.short, ss) } else { 0 };
    if mt_amount == 0 && long == 0 && short == 0 {
        return None;
    }
    Some(DepositPlan { user, market, mt_amount, long, short })
}

/// Outcome of a create + execute of a GLV deposit in world `w`.
enum Exec {
    NotCreated(TxError),
    Failed(TxError, Pubkey),
    Cancelled(Pubkey),
    Executed(TxMeta, Pubkey),
}

fn run_deposit(glv: &GlvInfo, user: Pubkey, w: &mut World, plan: &DepositPlan, throw: bool) -> Exec {
    let d = match w.create_glv_deposit(user, glv, plan.market, plan.mt_amount, plan.long, plan.short, 0, 0) {
        Ok(d) => d,
        Err((e, _)) => return Exec::NotCreated(e),
    };
    match w.execute_glv_deposit(d, throw) {
        Err((e, _)) => Exec::Failed(e, d),
        Ok(meta) => match w.glv_deposit_state(&d) {
            Some(ActionState::Completed) => Exec::Executed(meta, d),
            _ => Exec::Cancelled(d),
        },
    }
}

fn op_glv_deposit(ctx: &mut Ctx, rng: &mut Rng, m: &mut Monitor) {
    let Some(plan) = plan_deposit(ctx, &ctx.w, rng) else {
        return;
    };
    m.count("op_glv_deposit");
    let mi = plan.market;
    let mt = ctx.w.markets[mi].market_token;
    let glv = ctx.glv;
    let bal0 = balances_of(ctx, &ctx.w).get(&mi).copied().unwrap_or(0);
    // Boundary caps: for a market-token-only deposit the new balance (and its value) is known.
    let mut expect: Option<bool> = None; // Some(true) = cap must not bind, Some(false) = cap must bind
    if rng.chance(2, 5) {
        let new_bal = bal0.saturating_add(plan.mt_amount);
        let exact = plan.long == 0 && plan.short == 0;
        let delta = *rng.pick(&[-2i64, -1, 0, 0, 1, 5]);
        if rng.bool() {
            let cap = (new_bal as i128 + delta as i128).clamp(1, u64::MAX as i128) as u64;
            if ctx.w.update_glv_market_config(&glv, mt, Some(cap), Some(0)).is_ok() {
                m.count("boundary_max_amount_configured");
                ctx.note(format!("update_glv_market_config market={mi} max_amount={cap} max_value=0 (boundary {delta:+})"));
                if exact {
                    expect = Some(cap >= new_bal);
                }
            }
        } else if let Some(v) = {
            let mut w2 = ctx.w.clone();
            pv(ctx, &mut w2, mi, true, m).and_then(|p| p.value(new_bal))
        } {
            let cap = &v + b(delta);
            if cap > BigInt::zero() {
                if let Some(cap) = vcommon::big::to_u128(&cap) {
                    if ctx.w.update_glv_market_config(&glv, mt, Some(0), Some(cap)).is_ok() {
                        m.count("boundary_max_value_configured");
                        ctx.note(format!("update_glv_market_config market={mi} max_amount=0 max_value={cap} (boundary {delta:+})"));
                        if exact {
                            expect = Some(b(cap) >= v);
                        }
                    }
                }
            }
        }
    }
    let throw = rng.chance(3, 4);
    let pre_bal = balances_of(ctx, &ctx.w);
    let user = ctx.users[plan.user];
    let out = run_deposit(&glv, user, &mut ctx.w, &plan, throw);
    let desc = format!("glv_deposit user{} market={mi} mt={} long={} short={} throw={throw}", plan.user, plan.mt_amount, plan.long, plan.short);
    match out {
        Exec::NotCreated(e) => {
            m.count(&format!("glv_deposit_create_failed_{}", err_class(&e)));
            ctx.note(format!("{desc} -> create failed {}", err_class(&e)));
        }
        Exec::Failed(e, d) => {
            if is_core(&e, CoreError::ExceedMaxGlvMarketTokenBalanceAmount) {
                m.count("cap_hit_max_amount");
            } else if is_core(&e, CoreError::ExceedMaxGlvMarketTokenBalanceValue) {
                m.count("cap_hit_max_value");
            } else {
                m.count(&format!("glv_deposit_execute_failed_{}", err_class(&e)));
            }
            if expect == Some(true) && (is_core(&e, CoreError::ExceedMaxGlvMarketTokenBalanceAmount) || is_core(&e, CoreError::ExceedMaxGlvMarketTokenBalanceValue)) {
                m.count("boundary_cap_rejected_although_recomputation_within_cap");
            }
            if expect == Some(false) {
                m.count("boundary_cap_rejected_as_expected");
            }
            ctx.note(format!("{desc} -> execute failed {}", err_class(&e)));
            // still pending: the owner cancels
            let r = ctx.w.close_glv_deposit(user, d);
            m.count(if r.is_ok() { "glv_deposit_cancelled_by_owner" } else { "glv_deposit_cancel_failed" });
        }
        Exec::Cancelled(d) => {
            m.count("glv_deposit_cancelled_on_execution_error");
            if expect == Some(false) {
                m.count("boundary_cap_rejected_as_expected");
            }
            ctx.note(format!("{desc} -> cancelled"));
            let keeper = ctx.w.keeper;
            let _ = ctx.w.close_glv_deposit(keeper, d);
        }
        Exec::Executed(meta, d) => {
            m.count("glv_deposit_executed");
            if plan.long != 0 || plan.short != 0 {
                m.count("glv_deposit_executed_with_token_deposit");
            }
            if plan.mt_amount != 0 {
                m.count("glv_deposit_executed_with_market_tokens");
            }
            let ev = pricing_event(&meta, true);
            ctx.note(format!(
                "{desc} -> executed {}",
                ev.as_ref().map(|e| format!("in={} minted={} value={} in_value={} supply={}", e.input_amount, e.output_amount, e.value, e.input_value, e.supply)).unwrap_or_default()
            ));
            if expect == Some(true) {
                m.count("boundary_cap_accepted_as_expected");
            }
            check_composition(ctx, &ctx.w, m, "execute_glv_deposit");
            check_caps_after_deposit(ctx, m, mi, &plan, expect);
            check_deposit_valuation(ctx, m, mi, &pre_bal, ev.as_ref());
            let keeper = ctx.w.keeper;
            let closer = if rng.bool() { keeper } else { user };
            if ctx.w.close_glv_deposit(closer, d).is_err() {
                m.count("glv_deposit_close_failed");
            }
        }
    }
    // Often lift the caps again so that the history keeps moving.
    if rng.chance(1, 2) {
        let _ = ctx.w.update_glv_market_config(&glv, mt, Some(0), Some(0));
        ctx.note(format!("update_glv_market_config market={mi} max_amount=0 max_value=0"));
    }
}

/// Oracle 2.
fn check_caps_after_deposit(ctx: &mut Ctx, m: &mut Monitor, mi: usize, plan: &DepositPlan, expect: Option<bool>) {
    let mt = ctx.w.markets[mi].market_token;
    let Some(g) = ctx.w.load_glv(&ctx.glv.glv) else {
        return;
    };
    let Some(cfg) = g.market_config(&mt) else {
        m.violation("C45:execute_glv_deposit:market_not_listed_after_deposit", ctx.witness(json!({"market": mi})));
        return;
    };
    let (bal, max_amount, max_value) = (cfg.balance(), cfg.max_amount(), cfg.max_value());
    m.eval();
    let mut sig = format!("cap:{bal}:{max_amount}:{max_value}");
    if max_amount == 0 && max_value == 0 {
        m.count("caps_unset_after_deposit");
        return;
    }
    if max_amount > 0 {
        m.count("cap_max_amount_checked");
        if bal == max_amount {
            m.count("cap_max_amount_exactly_reached");
        }
        if bal > max_amount {
            m.violation(
                "C45:execute_glv_deposit:balance_exceeds_max_amount",
                ctx.witness(json!({"market": mi, "balance": bal.to_string(), "max_amount": max_amount.to_string(), "plan": format!("{plan:?}")})),
            );
        }
    }
    if max_value > 0 {
        let mut w2 = ctx.w.clone();
        match pv(ctx, &mut w2, mi, true, m) {
            None => m.count("cap_max_value_unchecked_pool_value_unavailable"),
            Some(p) => match p.value(bal) {
                None => m.count("cap_max_value_negative_pool_value_or_zero_supply"),
                Some(v) => {
                    m.count("cap_max_value_checked");
                    sig.push_str(&format!(":{v}"));
                    if v == b(max_value) {
                        m.count("cap_max_value_exactly_reached");
                    }
                    if v > b(max_value) {
                        m.violation(
                            "C45:execute_glv_deposit:balance_value_exceeds_max_value",
                            ctx.witness(json!({
                                "market": mi, "balance": bal.to_string(), "max_value": max_value.to_string(),
                                "value_maximized_max_after_deposit": v.to_string(), "pool_value": p.p.to_string(), "supply": p.s.to_string(),
                                "plan": format!("{plan:?}"),
                            })),
                        );
                    }
                }
            },
        }
    }
    if expect == Some(false) {
        // The recomputation said the cap binds, the program executed: the checks above decide.
        m.count("boundary_cap_expected_to_bind_but_executed");
    }
    m.nontrivial(sig.as_bytes());
}

/// Oracle 3a (deposit side): the vault value used equals the independently recomputed maximized value
/// (pre-deposit balances, pools as valued by the program i.e. after the market-level deposit).
fn check_deposit_valuation(ctx: &mut Ctx, m: &mut Monitor, mi: usize, pre_bal: &BTreeMap<usize, u64>, ev: Option<&GlvPricing>) {
    let Some(ev) = ev else {
        m.count("glv_deposit_executed_without_pricing_event");
        m.inconclusive("executed GLV deposit without a GlvPricing event");
        return;
    };
    m.eval();
    if !ev.is_value_maximized {
        m.violation(
            "C45:execute_glv_deposit:pricing_event_not_maximized",
            ctx.witness(json!({"market": mi, "event_value": ev.value.to_string()})),
        );
    }
    let mut w2 = ctx.w.clone();
    let vmax = glv_value(ctx, &mut w2, pre_bal, true, m);
    let vmin = glv_value(ctx, &mut w2, pre_bal, false, m);
    let Some(vmax) = vmax else {
        m.count("valuation_deposit_unchecked");
        return;
    };
    m.count("valuation_deposit_checked");
    let distinguishing = vmin.as_ref().map(|v| *v != vmax).unwrap_or(false);
    if distinguishing {
        m.count("valuation_deposit_checked_max_differs_from_min");
        m.nontrivial(format!("vdep:{}:{}", vmax, ev.supply).as_bytes());
    }
    if b(ev.value) != vmax {
        let class = if ctx.touched_by_orders.iter().any(|x| *x) { "with_positions" } else { "no_positions" };
        m.violation(
            &format!("C45:execute_glv_deposit:vault_not_valued_at_maximized_value:{class}"),
            ctx.witness(json!({
                "market": mi, "value_used": ev.value.to_string(), "recomputed_maximized": vmax.to_string(),
                "recomputed_minimized": vmin.map(|v| v.to_string()), "pre_balances": format!("{pre_bal:?}"), "glv_supply": ev.supply.to_string(),
            })),
        );
    }
}

fn op_glv_withdrawal(ctx: &mut Ctx, rng: &mut Rng, m: &mut Monitor) {
    let listed = ctx.glv_markets(&ctx.w);
    if listed.is_empty() {
        return;
    }
    let ui = rng.below(ctx.users.len() as u64) as usize;
    let user = ctx.users[ui];
    let have = token::token_amount(&ctx.w.svm, &ata22(&user, &ctx.glv.glv_token)).unwrap_or(0);
    if have == 0 {
        m.count("glv_withdrawal_skipped_no_glv_tokens");
        return;
    }
    let bals = balances_of(ctx, &ctx.w);
    let with_bal: Vec<usize> = listed.iter().copied().filter(|i| bals.get(i).copied().unwrap_or(0) > 0).collect();
    let mi = if !with_bal.is_empty() && rng.chance(9, 10) { *rng.pick(&with_bal) } else { *rng.pick(&listed) };
    let amount = match rng.below(5) {
        0 => have,
        1 => rng.range(1, 3).min(have),
        2 => have / 2,
        _ => rng.log_u64(have).max(1),
    }
    .max(1);
    m.count("op_glv_withdrawal");
    let glv = ctx.glv;
    let desc = format!("glv_withdrawal user{ui} market={mi} glv_amount={amount}");
    let wd = match ctx.w.create_glv_withdrawal(user, &glv, mi, amount, 0, 0) {
        Ok(x) => x,
        Err((e, _)) => {
            m.count(&format!("glv_withdrawal_create_failed_{}", err_class(&e)));
            ctx.note(format!("{desc} -> create failed {}", err_class(&e)));
            return;
        }
    };
    let pre = ctx.w.clone();
    let throw = rng.chance(3, 4);
    match ctx.w.execute_glv_withdrawal(wd, throw) {
        Err((e, _)) => {
            m.count(&format!("glv_withdrawal_execute_failed_{}", err_class(&e)));
            ctx.note(format!("{desc} -> execute failed {}", err_class(&e)));
            let r = ctx.w.close_glv_withdrawal(user, wd);
            m.count(if r.is_ok() { "glv_withdrawal_cancelled_by_owner" } else { "glv_withdrawal_cancel_failed" });
        }
        Ok(meta) => {
            let done = ctx.w.glv_withdrawal_state(&wd) == Some(ActionState::Completed);
            if done {
                m.count("glv_withdrawal_executed");
                let ev = pricing_event(&meta, false);
                ctx.note(format!(
                    "{desc} -> executed {}",
                    ev.as_ref().map(|e| format!("burnt_glv={} market_tokens_out={} value={} in_value={} supply={}", e.input_amount, e.output_amount, e.value, e.input_value, e.supply)).unwrap_or_default()
                ));
                check_composition(ctx, &ctx.w, m, "execute_glv_withdrawal");
                check_withdrawal_valuation(ctx, m, mi, pre, ev.as_ref());
            } else {
                m.count("glv_withdrawal_cancelled_on_execution_error");
                ctx.note(format!("{desc} -> cancelled"));
            }
            let keeper = ctx.w.keeper;
            let closer = if rng.bool() { keeper } else { user };
            if ctx.w.close_glv_withdrawal(closer, wd).is_err() {
                m.count("glv_withdrawal_close_failed");
            }
        }
    }
}

/// Oracle 3a (withdrawal side): the vault value used equals the independently recomputed minimized
/// value of the pre-state.
fn check_withdrawal_valuation(ctx: &mut Ctx, m: &mut Monitor, mi: usize, mut pre: World, ev: Option<&GlvPricing>) {
    let Some(ev) = ev else {
        m.count("glv_withdrawal_executed_without_pricing_event");
        m.inconclusive("executed GLV withdrawal without a GlvPricing event");
        return;
    };
    m.eval();
    if ev.is_value_maximized {
        m.violation(
            "C45:execute_glv_withdrawal:pricing_event_maximized",
            ctx.witness(json!({"market": mi, "event_value": ev.value.to_string()})),
        );
    }
    let pre_bal = balances_of(ctx, &pre);
    let vmin = glv_value(ctx, &mut pre, &pre_bal, false, m);
    let vmax = glv_value(ctx, &mut pre, &pre_bal, true, m);
    let Some(vmin) = vmin else {
        m.count("valuation_withdrawal_unchecked");
        return;
    };
    m.count("valuation_withdrawal_checked");
    if vmax.as_ref().map(|v| *v != vmin).unwrap_or(false) {
        m.count("valuation_withdrawal_checked_max_differs_from_min");
        m.nontrivial(format!("vwd:{}:{}", vmin, ev.supply).as_bytes());
    }
    if b(ev.value) != vmin {
        let class = if ctx.touched_by_orders.iter().any(|x| *x) { "with_positions" } else { "no_positions" };
        m.violation(
            &format!("C45:execute_glv_withdrawal:vault_not_valued_at_minimized_value:{class}"),
            ctx.witness(json!({
                "market": mi, "value_used": ev.value.to_string(), "recomputed_minimized": vmin.to_string(),
                "recomputed_maximized": vmax.map(|v| v.to_string()), "pre_balances": format!("{pre_bal:?}"), "glv_supply": ev.supply.to_string(),
            })),
        );
    }
}

/// Oracle 3b: the twin experiment on a clone of the world.
fn op_twin(ctx: &mut Ctx, rng: &mut Rng, m: &mut Monitor) {
    let mut tw = ctx.w.clone();
    let Some(plan) = plan_deposit(ctx, &tw, rng) else {
        return;
    };
    m.count("op_twin_roundtrip");
    let mi = plan.market;
    let user = ctx.users[plan.user];
    let supply0 = glv_supply(ctx, &tw);
    let bal0 = balances_of(ctx, &tw);
    let residual: u128 = bal0.values().map(|x| *x as u128).sum();
    let desc = format!("twin user{} market={mi} mt={} long={} short={}", plan.user, plan.mt_amount, plan.long, plan.short);
    // Diagnostics: is the market in a state where the pool value used to price withdrawals (maximized,
    // withdrawal PnL cap) is below the one used to price deposits (minimized, deposit PnL cap)?
    let mut inverted_pool_values = false;
    if ctx.touched_by_orders[mi] {
        let mt = tw.markets[mi].market_token;
        let d = tw.view_market_token_value(mt, 0, PNL_DEPOSIT, false).ok().map(|e| e.pool_value);
        let w = tw.view_market_token_value(mt, 0, "max_after_withdrawal", true).ok().map(|e| e.pool_value);
        if let (Some(d), Some(w)) = (d, w) {
            m.count("twin_prestate_with_positions_pool_values_read");
            if w < d {
                inverted_pool_values = true;
                m.count("twin_prestate_withdrawal_pool_value_below_deposit_pool_value");
            }
        }
    }
    let glv = ctx.glv;
    let (meta, d) = match run_deposit(&glv, user, &mut tw, &plan, true) {
        Exec::Executed(meta, d) => (meta, d),
        Exec::NotCreated(e) => {
            m.count(&format!("twin_deposit_not_created_{}", err_class(&e)));
            return;
        }
        Exec::Failed(e, _) => {
            m.count(&format!("twin_deposit_failed_{}", err_class(&e)));
            return;
        }
        Exec::Cancelled(_) => {
            m.count("twin_deposit_cancelled");
            return;
        }
    };
    let Some(dep) = pricing_event(&meta, true) else {
        m.inconclusive("twin: executed deposit without pricing event");
        return;
    };
    let glv_before = token::token_amount(&tw.svm, &ata22(&user, &ctx.glv.glv_token)).unwrap_or(0);
    if tw.close_glv_deposit(user, d).is_err() {
        m.count("twin_close_deposit_failed");
        return;
    }
    let glv_after = token::token_amount(&tw.svm, &ata22(&user, &ctx.glv.glv_token)).unwrap_or(0);
    let minted = dep.output_amount;
    if glv_after - glv_before != minted {
        m.count("twin_minted_amount_differs_from_event");
        m.inconclusive("twin: GLV tokens received differ from the pricing event's output amount");
        return;
    }
    m.eval();
    m.count("twin_deposit_executed");
    if minted == 0 {
        // Nothing to withdraw: the round trip returns nothing.
        m.count("twin_zero_glv_minted");
        return;
    }
    // State s1 = right after the deposit. Same-state comparison of the values used (3a, ordering).
    if rng.chance(1, 2) {
        same_state_values(ctx, m, &tw, mi, plan.user);
    }
    let wd = match tw.create_glv_withdrawal(user, &glv, mi, minted, 0, 0) {
        Ok(x) => x,
        Err((e, _)) => {
            m.count(&format!("twin_withdrawal_not_created_{}", err_class(&e)));
            return;
        }
    };
    let meta2 = match tw.execute_glv_withdrawal(wd, true) {
        Ok(x) => x,
        Err((e, _)) => {
            m.count(&format!("twin_withdrawal_failed_{}", err_class(&e)));
            return;
        }
    };
    let Some(wev) = pricing_event(&meta2, false) else {
        m.inconclusive("twin: executed withdrawal without pricing event");
        return;
    };
    m.count("twin_roundtrip_completed");
    let (put_in, taken_out) = (dep.input_amount, wev.output_amount);
    if taken_out > 0 {
        m.count("twin_roundtrip_nontrivial");
        m.nontrivial(format!("twin:{put_in}:{minted}:{taken_out}").as_bytes());
    }
    if taken_out == put_in {
        m.count("twin_roundtrip_returned_exactly_the_deposit");
    }
    if supply0 == 0 {
        m.count("twin_on_empty_glv_supply");
    }
    // What can never be exceeded, whatever the class: the vault's recorded balance plus the deposit.
    let vault_before = bal0.get(&mi).copied().unwrap_or(0) as u128;
    if taken_out as u128 > vault_before + put_in as u128 {
        m.violation(
            "C45:glv_roundtrip:more_market_tokens_returned_than_vault_balance_plus_deposit",
            ctx.witness(json!({"plan": format!("{plan:?}"), "deposited": put_in.to_string(), "withdrawn": taken_out.to_string(), "balances_before": format!("{bal0:?}")})),
        );
    }
    if taken_out > put_in {
        let class = if supply0 == 0 && residual > 0 {
            ":glv_supply_zero_with_residual_balance"
        } else if ctx.touched_by_orders[mi] && ctx.dep_cap_below_wd_cap[mi] && inverted_pool_values {
            ":deposit_pnl_cap_below_withdrawal_cap"
        } else {
            ""
        };
        ctx.note(format!("{desc} -> deposited {put_in} market tokens, minted {minted}, withdrawal burnt {taken_out}"));
        m.violation(
            &format!("C45:glv_roundtrip:more_market_tokens_returned{class}"),
            ctx.witness(json!({
                "plan": format!("{plan:?}"),
                "market_tokens_deposited_total": put_in.to_string(),
                "glv_minted": minted.to_string(),
                "market_tokens_withdrawn": taken_out.to_string(),
                "glv_supply_before": supply0.to_string(),
                "balances_before": format!("{bal0:?}"),
                "deposit_event": {"value": dep.value.to_string(), "input_value": dep.input_value.to_string(), "supply": dep.supply.to_string()},
                "withdrawal_event": {"value": wev.value.to_string(), "input_value": wev.input_value.to_string(), "supply": wev.supply.to_string()},
            })),
        );
    }
}

/// On one state `s`: value used by a (1-unit, market-token-only) deposit vs value used by a withdrawal.
fn same_state_values(ctx: &mut Ctx, m: &mut Monitor, s: &World, mi: usize, ui: usize) {
    let user = ctx.users[ui];
    let have_glv = token::token_amount(&s.svm, &ata22(&user, &ctx.glv.glv_token)).unwrap_or(0);
    let have_mt = token::token_amount(&s.svm, &token::ata(&user, &s.markets[mi].market_token)).unwrap_or(0);
    if have_glv == 0 || have_mt == 0 {
        m.count("same_state_skipped");
        return;
    }
    let mut a = s.clone();
    let plan = DepositPlan { user: ui, market: mi, mt_amount: 1, long: 0, short: 0 };
    // Caps must not interfere with the probe.
    let glv = ctx.glv;
    let mt = a.markets[mi].market_token;
    let _ = a.update_glv_market_config(&glv, mt, Some(0), Some(0));
    let dep = match run_deposit(&glv, user, &mut a, &plan, true) {
        Exec::Executed(meta, _) => pricing_event(&meta, true),
        _ => None,
    };
    let mut c = s.clone();
    let wdv = match c.create_glv_withdrawal(user, &glv, mi, 1.min(have_glv), 0, 0) {
        Ok(wd) => c.execute_glv_withdrawal(wd, true).ok().and_then(|meta| pricing_event(&meta, false)),
        Err(_) => None,
    };
    let (Some(dep), Some(wdv)) = (dep, wdv) else {
        m.count("same_state_probe_failed");
        return;
    };
    m.eval();
    m.count("same_state_values_compared");
    if dep.value > wdv.value {
        m.count("same_state_deposit_value_strictly_above_withdrawal_value");
        m.nontrivial(format!("same:{}:{}", dep.value, wdv.value).as_bytes());
    } else if dep.value == wdv.value {
        m.count("same_state_values_equal");
    } else {
        m.violation(
            "C45:glv_pricing:deposit_value_below_withdrawal_value_on_same_state",
            ctx.witness(json!({"market": mi, "value_used_by_deposit": dep.value.to_string(), "value_used_by_withdrawal": wdv.value.to_string()})),
        );
    }
}

fn op_shift(ctx: &mut Ctx, rng: &mut Rng, m: &mut Monitor) {
    let listed = ctx.glv_markets(&ctx.w);
    if listed.len() < 2 {
        return;
    }
    let bals = balances_of(ctx, &ctx.w);
    let with_bal: Vec<usize> = listed.iter().copied().filter(|i| bals.get(i).copied().unwrap_or(0) > 0).collect();
    if with_bal.is_empty() {
        return;
    }
    let from = *rng.pick(&with_bal);
    let to = *rng.pick(&listed);
    let bal = bals[&from];
    let amount = match rng.below(4) {
        0 => bal,
        1 => bal / 2,
        _ => rng.log_u64(bal),
    }
    .max(1);
    m.count("op_glv_shift");
    let glv = ctx.glv;
    let desc = format!("glv_shift from={from} to={to} amount={amount}");
    let sh = match ctx.w.create_glv_shift(&glv, from, to, amount, 0) {
        Ok(x) => x,
        Err((e, _)) => {
            m.count(&format!("glv_shift_create_failed_{}", err_class(&e)));
            ctx.note(format!("{desc} -> create failed {}", err_class(&e)));
            return;
        }
    };
    if rng.chance(1, 10) {
        let r = ctx.w.close_glv_shift(sh);
        m.count(if r.is_ok() { "glv_shift_cancelled_by_keeper" } else { "glv_shift_cancel_failed" });
        ctx.note(format!("{desc} -> cancelled by keeper"));
        return;
    }
    let throw = rng.chance(3, 4);
    match ctx.w.execute_glv_shift(sh, throw) {
        Err((e, _)) => {
            m.count(&format!("glv_shift_execute_failed_{}", err_class(&e)));
            ctx.note(format!("{desc} -> execute failed {}", err_class(&e)));
        }
        Ok(_) => {
            if ctx.w.glv_shift_state(&sh) == Some(ActionState::Completed) {
                m.count("glv_shift_executed");
                ctx.note(format!("{desc} -> executed"));
            } else {
                m.count("glv_shift_cancelled_on_execution_error");
                ctx.note(format!("{desc} -> cancelled"));
            }
            check_composition(ctx, &ctx.w, m, "execute_glv_shift");
        }
    }
    if ctx.w.close_glv_shift(sh).is_err() {
        m.count("glv_shift_close_failed");
    }
}

// ------------------------------------------------------------------------------------------------

fn shard(args: &Args, shard: u64, m: &mut Monitor) {
    let mut rng = Rng::derive(args.seed, shard, 45);
    let mut ctx = build(shard, &mut rng, m);
    m.count("worlds");
    let steps = args.scale(70, 110);
    // op weights: insert, remove, caps, toggle, glv config, prices, activity, deposit, withdrawal, twin, shift
    let pressure = if ctx.position_world { 8 } else { 0 };
    let weights = [7u32, 2, 5, 2, 2, 8, 6, 26, 12, 22, 8, pressure];
    for s in 0..steps {
        ctx.step = s + 1;
        match rng.weighted(&weights) {
            0 => op_insert(&mut ctx, &mut rng, m),
            1 => op_remove(&mut ctx, &mut rng, m),
            2 => op_caps(&mut ctx, &mut rng, m),
            3 => op_toggle(&mut ctx, &mut rng, m),
            4 => op_glv_config(&mut ctx, &mut rng, m),
            5 => op_prices(&mut ctx, &mut rng, m),
            6 => op_market_activity(&mut ctx, &mut rng, m),
            7 => op_glv_deposit(&mut ctx, &mut rng, m),
            8 => op_glv_withdrawal(&mut ctx, &mut rng, m),
            9 => op_twin(&mut ctx, &mut rng, m),
            10 => op_shift(&mut ctx, &mut rng, m),
            _ => op_price_pressure(&mut ctx, &mut rng, m),
        }
    }
    if m.wants_sample() {
        m.sample(json!({
            "shard": shard,
            "glv": format!("{}/{}", TOKENS[ctx.gl].0, TOKENS[ctx.gs].0),
            "markets": ctx.w.markets.iter().map(|x| x.name.clone()).collect::<Vec<_>>(),
            "final_glv_state": glv_state_json(&ctx, &ctx.w),
            "last_ops": ctx.hist.iter().rev().take(12).rev().cloned().collect::<Vec<_>>(),
        }));
    }
    m.add("transactions_ok", ctx.w.svm.tx_ok);
    m.add("transactions_failed", ctx.w.svm.tx_err);
}

pub fn run(args: &Args) -> Option<i32> {
    let mut mon = Monitor::new(
        args,
        "one shard = one random world (2-4 markets with the GLV's long/short tokens, 1-3 with other tokens, random \
         funding, prices with bid<ask spreads, optionally positions and per-market PnL caps) and a random history of \
         real GLV instructions in hostsvm; a case is one oracle-checked observation: (i) insert_glv_market / \
         initialize_glv with a market whose tokens differ, (ii) an executed GLV deposit with a max amount / max value \
         configured (value recomputed independently), (iii) the vault value used by an executed deposit / withdrawal \
         vs the independently recomputed maximized / minimized value, (iv) a twin deposit-then-withdraw-everything \
         round trip on a cloned world. Non-trivial: (i) rejected mismatching market, (ii) a cap > 0 was in force, (iii) \
         maximized != minimized value, (iv) the round trip burnt > 0 market tokens. distinct_nontrivial hashes the \
         observation's content (kind + amounts / values / caps)",
    );
    mon.assume("prices are multiples of the token's configured precision tick and fit the u32 price mantissa, so the feed conversion is exact");
    mon.assume("no swap paths and no virtual inventories in GLV actions; GLV deposits pay in the market's own long / short tokens");
    mon.assume("max-value recomputation follows the program's definition: balance * pool_value(MaxAfterDeposit, maximize=true) / supply (floor), pools after the deposit");
    let n_shards = args.scale(64, 1200);
    let quiet = hostsvm::QuietStdout::new();
    run_shards(&mut mon, args.threads, n_shards, |i, m| shard(args, i, m));
    drop(quiet);
    mon.require("worlds", n_shards / 2);
    mon.require("insert_mismatching_rejected", 20);
    mon.require("init_mixed_list_rejected", 10);
    mon.require("glv_deposit_executed", 200);
    mon.require("cap_max_amount_checked", 30);
    mon.require("cap_max_value_checked", 30);
    mon.require("valuation_deposit_checked_max_differs_from_min", 50);
    mon.require("valuation_withdrawal_checked_max_differs_from_min", 30);
    mon.require("twin_roundtrip_nontrivial", 100);
    mon.require("same_state_values_compared", 30);
    mon.set_extra(
        "not_covered",
        json!([
            "GLV actions with swap paths / virtual inventories",
            "cross-market round trips (deposit into one market, withdraw from another) are not judged: the property compares market-token counts of one market",
            "GLV shift is driven for coverage and the composition invariant only (the property states no cap / pricing rule for shifts)",
        ]),
    );
    Some(mon.finish())
}
