//! Monitor for C25 (see /verif/DESIGN.md §5 C25).
use vcommon::Args;

pub fn run(_args: &Args) -> Option<i32> {
    None
}
