//! C25 — a custom price feed never moves backwards in time or stores an invalid price.
//!
//! Two ways into the real `PriceFeed::update`:
//!  * the real instructions `update_price_feed_with_chainlink` / `..._idempotent` with generated
//!    data-streams V3 reports (mock verifier), arbitrary report timestamps / expiry / prices;
//!  * a direct call of `PriceFeed::verif_update` (hook, `--cfg gmsol_verif`) on the same real feed
//!    account from a tiny dispatcher registered under the store program id (needed because `update`
//!    reads `Clock::get()`, which only exists inside a transaction). The direct path reaches price
//!    triples the report conversion filters out (min > max, price outside [min, max]) and returns
//!    `Ok` to the runtime even when `update` returned `Err`, so "a rejected update changes nothing" is
//!    observed on the struct itself and not merely provided by transaction rollback.
//!
//! Oracle (relational, on the account bytes before / after every transaction): stored price timestamp
//! never decreases; stored min ≤ price ≤ max; rejected ⇒ bytes identical; idempotent + older ⇒ `Ok`,
//! `false`, bytes identical; strict + older is never stored (subsumed by monotonicity, counted).
use crate::world::{exchange::load, World, STORE_PID};
use anchor_lang::prelude::*;
use anchor_lang::solana_program::{
    entrypoint::ProgramResult,
    instruction::{AccountMeta, Instruction},
};
use gmsol_store::states::{PriceFeed, PriceFeedPrice};
use std::cell::RefCell;
use vcommon::{json, monitor::run_shards, num_bigint::BigInt, Args, Monitor, Rng};

const TAG: [u8; 8] = *b"\xffVRF-C25";
const EXCESS_KEY: &str = "oracle_max_future_timestamp_excess";

#[derive(Clone, Debug)]
struct DirectCall {
    decimals: u8,
    ts: i64,
    price: u128,
    min: u128,
    max: u128,
    last_update_diff: u32,
    max_future_excess: u64,
    idempotent: bool,
}

thread_local! {
    static CALL: RefCell<Option<DirectCall>> = const { RefCell::new(None) };
    static RESULT: RefCell<Option<std::result::Result<bool, String>>> = const { RefCell::new(None) };
}

fn entry<'a>(program_id: &Pubkey, accounts: &'a [AccountInfo<'a>], data: &[u8]) -> ProgramResult {
    if data.len() >= 8 && data[..8] == TAG {
        let call = CALL.with(|c| c.borrow().clone()).ok_or(ProgramError::InvalidInstructionData)?;
        let loader = AccountLoader::<PriceFeed>::try_from(&accounts[0])?;
        let price = PriceFeedPrice::new(call.decimals, call.ts, call.price, call.min, call.max, call.last_update_diff);
        let r = loader.load_mut()?.verif_update(&price, call.max_future_excess, call.idempotent);
        RESULT.with(|x| *x.borrow_mut() = Some(r.map_err(|e| e.to_string())));
        // Deliberately `Ok`: a rejected `update` must itself leave the account untouched.
        Ok(())
    } else {
        gmsol_store::entry(program_id, accounts, data)
    }
}

#[derive(Clone, Debug, PartialEq, Eq)]
struct FeedState {
    slot: u64,
    published_at: i64,
    ts: i64,
    price: u128,
    min: u128,
    max: u128,
}

fn read_feed(w: &World, feed: &Pubkey) -> Option<(FeedState, Vec<u8>)> {
    let f: PriceFeed = load(&w.svm, feed)?;
    let bytes = w.svm.get(feed)?.data.clone();
    let slot_at = u64::from_le_bytes(bytes[8 + 144..8 + 152].try_into().ok()?);
    if slot_at != f.last_published_at_slot() {
        return None;
    }
    let published_at = i64::from_le_bytes(bytes[8 + 152..8 + 160].try_into().ok()?);
    let p = f.price();
    Some((
        FeedState { slot: f.last_published_at_slot(), published_at, ts: p.ts(), price: *p.price(), min: *p.min_price(), max: *p.max_price() },
        bytes,
    ))
}

fn order_class(min: &BigInt, price: &BigInt, max: &BigInt) -> &'static str {
    let z = BigInt::from(0);
    if *min < z || *price < z || *max < z {
        "negative"
    } else if min <= price && price <= max {
        if min == max {
            "valid_flat"
        } else {
            "valid"
        }
    } else if min > max {
        "min_gt_max"
    } else if price > max {
        "price_gt_max"
    } else {
        "price_lt_min"
    }
}

fn ts_class(ts: i64, stored: i64, now: i64, excess: u64) -> &'static str {
    if ts < stored {
        "older"
    } else if ts == stored {
        "same"
    } else if ts as i128 > now as i128 + excess as i128 {
        "future_excess"
    } else if ts > now {
        "future_within"
    } else {
        "newer"
    }
}

fn gen_ts(rng: &mut Rng, stored: i64, now: i64, excess: u64) -> i64 {
    // offsets are capped so that one far-future acceptance cannot freeze a feed for the whole history
    let ex = excess.min(600) as i64;
    match rng.below(16) {
        0 => stored - 1,
        1 => stored,
        2 => stored + 1,
        3 => stored - rng.range(1, 10_000) as i64,
        4 => now,
        5 => now + ex,
        6 => now + ex + 1,
        7 => now + rng.range(0, 2 * ex as u64 + 2) as i64,
        8 => now - rng.range(0, 100) as i64,
        9 | 10 | 11 => stored.max(now - 20) + rng.range(0, 20) as i64,
        12 => rng.range_i64(stored, stored.max(now)),
        _ => rng.range_i64(stored.min(now) - 50, stored.max(now) + 50),
    }
}

pub fn run(args: &Args) -> Option<i32> {
    let mut mon = Monitor::new(
        args,
        "random histories over three custom feeds of one store: (a) real update_price_feed_with_chainlink / _idempotent \
         transactions with generated V3 reports (report ts older / equal / newer / future beyond the excess, expired, wrong \
         feed id, bid/price/ask valid, mis-ordered, negative, zero, > u128), (b) direct PriceFeed::verif_update calls on \
         the same accounts with arbitrary (min, price, max, ts), both strict and idempotent; clock warps forward, clock set \
         back (timestamp and slot guards), max-future-excess config changes through insert_amount. After every transaction \
         the feed account is re-read and compared with its bytes before. non-trivial = an update attempt against a feed \
         that already stores a price; distinct = hash of (path, mode, outcome, timestamp class, price-order class, clock class)",
    );
    mon.assume("the clause `idempotent + older ⇒ Ok` is asserted only for otherwise well-formed reports and while the clock is not behind the feed's last publication (the quantifier speaks of clock *advances*); clock-set-back cases are checked for the universal clauses only");
    mon.assume("chainlink reports are verified by the repository's mock verifier program");
    let shards = args.scale(48, 192);
    let steps = args.scale(4_000, 10_000);
    let quiet = hostsvm::QuietStdout::new();
    run_shards(&mut mon, args.threads, shards, |shard, m| {
        let mut rng = Rng::derive(args.seed, shard, 25);
        let mut w = World::bootstrap_store();
        w.bootstrap_oracle();
        let toks = [w.add_token("BTC", 8, 2, true), w.add_token("SOL", 9, 4, false), w.add_token("USDC", 6, 6, false)];
        w.svm.add_program(STORE_PID, entry);
        let keeper = w.keeper;
        let mut excess: u64 = match load::<gmsol_store::states::Store>(&w.svm, &w.store)
            .and_then(|s| s.get_amount(EXCESS_KEY).ok().copied())
        {
            Some(x) => x,
            None => {
                m.inconclusive("harness: cannot read the max-future-excess amount");
                return;
            }
        };
        for step in 0..steps {
            match rng.below(48) {
                0..=13 => {
                    w.svm.warp(rng.range(0, 40) as i64);
                    m.count("op_clock_forward");
                }
                14..=17 => {
                    // far forward: also repairs a clock that was set back
                    let (max_pub, max_slot) = toks.iter().filter_map(|t| read_feed(&w, &w.tokens[*t].feed)).fold((i64::MIN, 0u64), |a, (f, _)| (a.0.max(f.published_at), a.1.max(f.slot)));
                    if w.svm.clock.slot < max_slot {
                        w.svm.clock.slot = max_slot;
                    }
                    let t = w.svm.clock.unix_timestamp.max(max_pub) + rng.range(0, 1_000) as i64;
                    w.svm.set_time(t);
                    m.count("op_clock_repair_forward");
                }
                18 => {
                    let back = rng.range(1, 2_000) as i64;
                    let t = w.svm.clock.unix_timestamp - back;
                    if rng.bool() {
                        w.svm.clock.slot = w.svm.clock.slot.saturating_sub(rng.range(2, 500));
                    }
                    w.svm.set_time(t);
                    m.count("op_clock_set_back");
                }
                19 | 20 => {
                    let v = *rng.pick(&[0u64, 1, 5, 30, 3_600, u64::MAX, 1 << 40]);
                    if w.insert_amount(EXCESS_KEY, v).is_ok() {
                        excess = v;
                        m.count("op_set_max_future_excess");
                    }
                }
                _ => {}
            }
            let t = toks[rng.below(3) as usize];
            let feed = w.tokens[t].feed;
            let Some((pre, pre_bytes)) = read_feed(&w, &feed) else {
                m.inconclusive("harness: feed account unreadable / layout self-check failed");
                return;
            };
            let now = w.svm.clock.unix_timestamp;
            let slot = w.svm.clock.slot;
            let behind = slot < pre.slot || now < pre.published_at;
            let idempotent = rng.bool();
            let direct = rng.chance(2, 5);
            let ts = gen_ts(&mut rng, pre.ts, now, excess);
            // report timestamps are u32
            let ts = if direct { ts } else { ts.clamp(0, u32::MAX as i64) };
            // price triple
            let base: u128 = match rng.below(6) {
                0 => rng.log_u128(u128::MAX >> 2),
                1 => 0,
                _ => rng.range_u128(1, 100_000) * 10u128.pow(rng.range(10, 20) as u32),
            };
            let spread = rng.log_u128(base / 50 + 2);
            let (mut min, mut price, mut max) = (base.saturating_sub(spread), base, base.saturating_add(spread));
            match rng.below(12) {
                0 => std::mem::swap(&mut min, &mut max),
                1 => price = max.saturating_add(1 + rng.log_u128(1_000)),
                2 => price = min.saturating_sub(1 + rng.log_u128(1_000)),
                3 => {
                    min = price;
                    max = price;
                }
                4 => std::mem::swap(&mut min, &mut price),
                _ => {}
            }
            let (outcome, well_formed, path): (std::result::Result<Option<bool>, String>, bool, &str);
            let mut negative = false;
            // order class of the triple actually submitted (the chainlink branch may negate / inflate a field)
            let mut oc = order_class(&BigInt::from(min), &BigInt::from(price), &BigInt::from(max));
            let mut submitted = json!({"ts": ts, "min": min.to_string(), "price": price.to_string(), "max": max.to_string()});
            if direct {
                let call = DirectCall {
                    decimals: rng.range(0, 20) as u8,
                    ts,
                    price,
                    min,
                    max,
                    last_update_diff: rng.next_u64() as u32,
                    max_future_excess: if rng.chance(1, 4) { *rng.pick(&[0u64, 1, 60, u64::MAX]) } else { excess },
                    idempotent,
                };
                CALL.with(|c| *c.borrow_mut() = Some(call.clone()));
                RESULT.with(|r| *r.borrow_mut() = None);
                let ix = Instruction { program_id: STORE_PID, accounts: vec![AccountMeta::new(feed, false)], data: TAG.to_vec() };
                let res = w.send(&[ix], &[keeper]);
                let r = RESULT.with(|r| r.borrow_mut().take());
                match (res, r) {
                    (Ok(_), Some(r)) => outcome = r.map(Some),
                    (res, _) => {
                        m.inconclusive(&format!("harness: direct update transaction failed: {:?}", res.err().map(|e| e.0)));
                        return;
                    }
                }
                // For the direct path "well formed" is irrelevant to the skip clause: `update` skips an
                // older price in idempotent mode before looking at the prices.
                well_formed = true;
                path = "direct";
                m.count("op_direct_update");
            } else {
                // Chainlink report; prices are signed 192-bit, 18 decimals.
                let (mut b, mut p, mut a) = (BigInt::from(min), BigInt::from(price), BigInt::from(max));
                match rng.below(16) {
                    0 => {
                        b = -b - 1;
                        negative = true;
                    }
                    1 => {
                        p = -p - 1;
                        negative = true;
                    }
                    2 => {
                        a = a * BigInt::from(u64::MAX) * BigInt::from(u64::MAX);
                    }
                    _ => {}
                }
                let mut r = w.report_for(t, b.clone(), p.clone(), a.clone(), ts);
                let mut ok_shape = true;
                let expiry_class = rng.below(10);
                let exp: i64 = match expiry_class {
                    0 => now - 1 - rng.range(0, 100) as i64,
                    1 => now,
                    _ => now.max(ts) + rng.range(0, 3_600) as i64,
                };
                r.expires_at = exp.clamp(0, u32::MAX as i64) as u32;
                if exp < now {
                    ok_shape = false;
                }
                r.valid_from = ts.clamp(0, u32::MAX as i64) as u32;
                r.observations_ts = ts.clamp(0, u32::MAX as i64) as u32;
                if rng.chance(1, 25) {
                    r.feed_id = w.tokens[toks[(rng.below(2) as usize + 1 + toks.iter().position(|x| *x == t).unwrap()) % 3]].feed_id.to_bytes();
                    ok_shape = false;
                }
                let limit = BigInt::from(1u8) << 120;
                well_formed = ok_shape && !negative && b <= p && p <= a && a < limit;
                let ix = w.update_feed_ix(t, r.compressed_full_report(), idempotent, keeper);
                let res = w.send(&[ix], &[keeper]);
                outcome = match res {
                    Ok(meta) => Ok(if idempotent { meta.return_data.as_ref().and_then(|(_, d)| d.first().map(|x| *x != 0)) } else { None }),
                    Err((e, _)) => Err(format!("{e:?}")),
                };
                path = "chainlink";
                m.count("op_chainlink_update");
                oc = order_class(&b, &p, &a);
                submitted = json!({"ts": ts, "bid": b.to_string(), "price": p.to_string(), "ask": a.to_string(), "expires_at": exp, "well_formed": well_formed});
            }
            let Some((post, post_bytes)) = read_feed(&w, &feed) else {
                m.inconclusive("harness: feed account unreadable after update");
                return;
            };
            m.eval();
            let changed = post_bytes != pre_bytes;
            let tsc = ts_class(ts, pre.ts, now, excess);
            let out_class = match &outcome {
                Ok(Some(true)) => "ok_updated",
                Ok(Some(false)) => "ok_skipped",
                Ok(None) => "ok",
                Err(_) => "rejected",
            };
            m.count(&format!("{path}_{}_{out_class}", if idempotent { "idempotent" } else { "strict" }));
            m.count(&format!("ts_{tsc}_{out_class}"));
            m.count(&format!("price_{oc}{}_{out_class}", if negative { "_neg" } else { "" }));
            if behind {
                m.count(&format!("clock_behind_{out_class}"));
            }
            let wit = || {
                json!({
                    "shard": shard, "step": step, "path": path, "idempotent": idempotent,
                    "clock": {"unix_timestamp": now, "slot": slot}, "max_future_excess_config": excess,
                    "submitted": submitted,
                    "before": format!("{pre:?}"), "after": format!("{post:?}"), "outcome": format!("{outcome:?}"),
                })
            };
            if post.ts < pre.ts {
                m.violation(&format!("C25:{path}:price_timestamp_decreased"), wit());
            }
            if !(post.min <= post.price && post.price <= post.max) {
                m.violation(&format!("C25:{path}:invalid_price_stored"), wit());
            }
            if outcome.is_err() && changed {
                m.violation(&format!("C25:{path}:rejected_update_changed_account"), wit());
            }
            if matches!(outcome, Ok(Some(false))) && changed {
                m.violation(&format!("C25:{path}:skipped_update_changed_account"), wit());
            }
            let older = ts < pre.ts;
            if idempotent && older && well_formed && !behind {
                m.count("idempotent_older_checked");
                match &outcome {
                    Ok(flag) => {
                        if changed {
                            m.violation(&format!("C25:{path}:idempotent_older_update_changed_account"), wit());
                        }
                        if *flag == Some(true) {
                            m.violation(&format!("C25:{path}:idempotent_older_update_reported_updated"), wit());
                        }
                    }
                    Err(_) => m.violation(&format!("C25:{path}:idempotent_older_update_errored"), wit()),
                }
            }
            if !idempotent && older {
                if outcome.is_err() {
                    m.count("strict_older_rejected");
                } else {
                    m.count("strict_older_not_rejected");
                }
            }
            if pre.ts != 0 || pre.max != 0 {
                let sig = format!("{path}|{idempotent}|{out_class}|{tsc}|{oc}|{negative}|{behind}");
                m.nontrivial(sig.as_bytes());
                m.count("attempt_on_populated_feed");
            }
            if changed {
                m.count("feed_changed");
            }
            if m.wants_sample() && step % 173 == 11 {
                m.sample(wit());
            }
        }
    });
    drop(quiet);
    mon.require("attempt_on_populated_feed", 5_000);
    mon.require("feed_changed", 1_000);
    mon.require("idempotent_older_checked", 300);
    mon.require("strict_older_rejected", 300);
    mon.require("chainlink_strict_ok", 200);
    mon.require("chainlink_idempotent_ok_updated", 200);
    mon.require("chainlink_idempotent_ok_skipped", 100);
    mon.require("direct_strict_ok_updated", 200);
    mon.require("direct_idempotent_ok_skipped", 100);
    mon.require("price_min_gt_max_rejected", 100);
    mon.require("price_price_gt_max_rejected", 100);
    mon.require("price_price_lt_min_rejected", 100);
    mon.require("ts_future_excess_rejected", 100);
    mon.require("clock_behind_rejected", 50);
    Some(mon.finish())
}
