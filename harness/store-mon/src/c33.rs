//! Monitor for C33 (see /verif/DESIGN.md §5 C33).
use vcommon::Args;

pub fn run(_args: &Args) -> Option<i32> {
    None
}
