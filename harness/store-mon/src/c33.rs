//! Monitor for C33 — "Referral relationships are write-once and never self-referential".
//!
//! Workload: 6 users and a pool of 7 referral codes (plus the all-zero code) in one store; random
//! sequences of `prepare_user`, `initialize_referral_code`, `set_referrer`, `transfer_referral_code`,
//! `cancel_referral_code_transfer`, `accept_referral_code` through the real instructions in hostsvm,
//! in well-formed and hostile variants (self referral, referrer account not matching the code,
//! non-owner transfers / cancels, acceptance by someone who is not the proposed owner, acceptance
//! signed by the old owner, re-initialisation of an existing code).
//!
//! Oracle: a reference relation (referrer map, code -> owner / proposed owner, user -> code) and, after
//! every successful instruction, the user / referral-code accounts read back from the chain.
use crate::world::{
    user::{
        accept_referral_code_ix, cancel_referral_code_transfer_ix, initialize_referral_code_ix, prepare_user_ix, read_code, read_user,
        referral_code_address, set_referrer_ix, transfer_referral_code_ix, user_address, CodeView, UserView,
    },
    World,
};
use anchor_lang::prelude::Pubkey;
use hostsvm::TxError;
use std::collections::{BTreeMap, BTreeSet, VecDeque};
use vcommon::{json, monitor::run_shards, Args, Monitor, Rng};

const N_USERS: usize = 6;
const N_CODES: usize = 7;

#[derive(Clone, Default, PartialEq, Eq, Debug)]
struct Rel {
    prepared: BTreeSet<usize>,
    referrer: BTreeMap<usize, usize>,
    code_owner: BTreeMap<usize, usize>,
    code_next: BTreeMap<usize, usize>,
    user_code: BTreeMap<usize, usize>,
}

#[derive(Clone, Copy, PartialEq, Eq, Debug)]
enum Exp {
    Ok,
    /// The property itself requires a failure.
    MustFail(&'static str),
    /// Malformed / documented-to-fail request (not a property matter).
    ShouldFail(&'static str),
}

#[derive(Clone, Debug)]
enum Op {
    Prepare { u: usize },
    InitCode { u: usize, c: usize },
    /// `ru`: whose user account is passed as `referrer_user`.
    SetReferrer { u: usize, c: usize, ru: usize, variant: &'static str },
    /// `signer` signs; `acct`: whose user account is passed as `user`.
    Transfer { signer: usize, acct: usize, c: usize, r: usize, variant: &'static str },
    Cancel { signer: usize, acct: usize, c: usize, variant: &'static str },
    /// `signer` signs as `next_owner`; `acct`: `user` account; `recv`: `receiver_user` account.
    Accept { signer: usize, acct: usize, recv: usize, c: usize, variant: &'static str },
}

impl Op {
    fn name(&self) -> &'static str {
        match self {
            Op::Prepare { .. } => "prepare_user",
            Op::InitCode { .. } => "initialize_referral_code",
            Op::SetReferrer { .. } => "set_referrer",
            Op::Transfer { .. } => "transfer_referral_code",
            Op::Cancel { .. } => "cancel_referral_code_transfer",
            Op::Accept { .. } => "accept_referral_code",
        }
    }
    fn variant(&self) -> &'static str {
        match self {
            Op::Prepare { .. } | Op::InitCode { .. } => "plain",
            Op::SetReferrer { variant, .. } | Op::Transfer { variant, .. } | Op::Cancel { variant, .. } | Op::Accept { variant, .. } => variant,
        }
    }
}

/// Index `N_CODES` is the all-zero (invalid) code.
fn code_bytes(c: usize) -> [u8; 8] {
    if c >= N_CODES {
        return [0; 8];
    }
    let mut b = [0u8; 8];
    b[0] = 0xC0 + c as u8;
    b[7] = 1 + c as u8;
    if c % 2 == 1 {
        b[3] = 0; // interior zero bytes are legal code bytes
        b[4] = 0xff;
    }
    b
}

impl Rel {
    fn expect(&self, op: &Op) -> Exp {
        match *op {
            Op::Prepare { .. } => Exp::Ok,
            Op::InitCode { u, c } => {
                if self.code_owner.contains_key(&c) {
                    Exp::MustFail("the code already belongs to a user")
                } else if c >= N_CODES {
                    Exp::ShouldFail("all-zero code")
                } else if !self.prepared.contains(&u) {
                    Exp::ShouldFail("user account not initialised")
                } else if self.user_code.contains_key(&u) {
                    Exp::ShouldFail("user already has a code")
                } else {
                    Exp::Ok
                }
            }
            Op::SetReferrer { u, c, ru, .. } => {
                if self.referrer.contains_key(&u) {
                    Exp::MustFail("referrer already set")
                } else if ru == u {
                    Exp::MustFail("self referral")
                } else if self.referrer.get(&ru) == Some(&u) {
                    Exp::MustFail("mutual referral")
                } else if !self.prepared.contains(&u) || !self.prepared.contains(&ru) {
                    Exp::ShouldFail("user account not initialised")
                } else if self.code_owner.get(&c) != Some(&ru) {
                    Exp::ShouldFail("referrer account does not own the code")
                } else {
                    Exp::Ok
                }
            }
            Op::Transfer { signer, acct, c, r, .. } => {
                let owner = self.code_owner.get(&c).copied();
                if owner.is_none() {
                    Exp::ShouldFail("code does not exist")
                } else if owner != Some(signer) || acct != signer {
                    Exp::ShouldFail("not signed by the code owner")
                } else if r == signer {
                    Exp::ShouldFail("receiver is the owner")
                } else if !self.prepared.contains(&r) {
                    Exp::ShouldFail("receiver not initialised")
                } else if self.user_code.contains_key(&r) {
                    Exp::ShouldFail("receiver already has a code")
                } else if self.code_next.get(&c) == Some(&r) {
                    Exp::ShouldFail("already proposed to this receiver")
                } else {
                    Exp::Ok
                }
            }
            Op::Cancel { signer, acct, c, .. } => {
                let owner = self.code_owner.get(&c).copied();
                if owner.is_none() {
                    Exp::ShouldFail("code does not exist")
                } else if owner != Some(signer) || acct != signer {
                    Exp::ShouldFail("not signed by the code owner")
                } else if self.code_next.get(&c) == Some(&signer) {
                    Exp::ShouldFail("no transfer pending")
                } else {
                    Exp::Ok
                }
            }
            Op::Accept { signer, acct, recv, c, .. } => {
                let Some(owner) = self.code_owner.get(&c).copied() else {
                    return Exp::ShouldFail("code does not exist");
                };
                let next = self.code_next.get(&c).copied().unwrap_or(owner);
                if next == owner {
                    // No proposal at all: nothing to accept (an ownership change would still be caught
                    // by the post-state check).
                    Exp::ShouldFail("no transfer pending")
                } else if signer != next {
                    Exp::MustFail("the signer is not the proposed new owner")
                } else if recv != signer {
                    Exp::MustFail("the receiving account is not the proposed new owner's")
                } else if acct != owner {
                    Exp::ShouldFail("user account is not the current owner's")
                } else if !self.prepared.contains(&signer) {
                    Exp::ShouldFail("receiver not initialised")
                } else if self.user_code.contains_key(&signer) {
                    Exp::ShouldFail("receiver already has a code")
                } else {
                    Exp::Ok
                }
            }
        }
    }

    fn apply(&mut self, op: &Op) {
        match *op {
            Op::Prepare { u } => {
                self.prepared.insert(u);
            }
            Op::InitCode { u, c } => {
                self.code_owner.insert(c, u);
                self.code_next.insert(c, u);
                self.user_code.insert(u, c);
            }
            Op::SetReferrer { u, ru, .. } => {
                self.referrer.insert(u, ru);
            }
            Op::Transfer { c, r, .. } => {
                self.code_next.insert(c, r);
            }
            Op::Cancel { signer, c, .. } => {
                self.code_next.insert(c, signer);
            }
            Op::Accept { signer, c, .. } => {
                if let Some(old) = self.code_owner.insert(c, signer) {
                    self.user_code.remove(&old);
                }
                self.user_code.insert(signer, c);
                self.code_next.insert(c, signer);
            }
        }
    }
}

struct Chain {
    users: Vec<Option<UserView>>,
    codes: Vec<Option<CodeView>>,
}

fn read_chain(w: &World, users: &[Pubkey]) -> Chain {
    Chain {
        users: users.iter().map(|u| read_user(&w.svm, &w.store, u)).collect(),
        codes: (0..=N_CODES).map(|c| read_code(&w.svm, &w.store, code_bytes(c))).collect(),
    }
}

/// The relation as the chain shows it (None if an account refers to something outside the universe).
fn rel_of_chain(ch: &Chain, users: &[Pubkey], store: &Pubkey) -> Result<Rel, String> {
    let idx = |k: &Pubkey| users.iter().position(|u| u == k);
    let mut r = Rel::default();
    for (i, u) in ch.users.iter().enumerate() {
        let Some(u) = u else { continue };
        if u.owner != users[i] || u.store != *store {
            return Err(format!("user account {i} carries owner/store {} / {}", u.owner, u.store));
        }
        r.prepared.insert(i);
        if let Some(x) = u.referrer {
            r.referrer.insert(i, idx(&x).ok_or(format!("user {i} has an unknown referrer {x}"))?);
        }
        if let Some(caddr) = u.code {
            let c = (0..=N_CODES)
                .find(|c| referral_code_address(store, code_bytes(*c)) == caddr)
                .ok_or(format!("user {i} points to an unknown code account {caddr}"))?;
            r.user_code.insert(i, c);
        }
    }
    for (c, cv) in ch.codes.iter().enumerate() {
        let Some(cv) = cv else { continue };
        r.code_owner.insert(c, idx(&cv.owner).ok_or(format!("code {c} has an unknown owner {}", cv.owner))?);
        r.code_next.insert(c, idx(&cv.next_owner).ok_or(format!("code {c} has an unknown next owner {}", cv.next_owner))?);
    }
    Ok(r)
}

fn err_code(e: &TxError) -> String {
    match e.custom_code() {
        Some(c) => format!("Custom({c})"),
        None => {
            let s = format!("{e:?}");
            s.chars().take(48).collect()
        }
    }
}

fn build(w: &World, users: &[Pubkey], op: &Op) -> (anchor_lang::solana_program::instruction::Instruction, Pubkey) {
    let store = w.store;
    let ua = |i: usize| user_address(&store, &users[i]);
    match *op {
        Op::Prepare { u } => (prepare_user_ix(store, users[u]), users[u]),
        Op::InitCode { u, c } => (initialize_referral_code_ix(store, users[u], ua(u), code_bytes(c)), users[u]),
        Op::SetReferrer { u, c, ru, .. } => (
            set_referrer_ix(store, users[u], ua(u), code_bytes(c), referral_code_address(&store, code_bytes(c)), ua(ru)),
            users[u],
        ),
        Op::Transfer { signer, acct, c, r, .. } => {
            (transfer_referral_code_ix(store, users[signer], ua(acct), referral_code_address(&store, code_bytes(c)), ua(r)), users[signer])
        }
        Op::Cancel { signer, acct, c, .. } => {
            (cancel_referral_code_transfer_ix(store, users[signer], ua(acct), referral_code_address(&store, code_bytes(c))), users[signer])
        }
        Op::Accept { signer, acct, recv, c, .. } => {
            (accept_referral_code_ix(store, users[signer], ua(acct), referral_code_address(&store, code_bytes(c)), ua(recv)), users[signer])
        }
    }
}

fn gen_op(rng: &mut Rng, rel: &Rel) -> Op {
    let u = rng.below(N_USERS as u64) as usize;
    let any_user = |rng: &mut Rng| rng.below(N_USERS as u64) as usize;
    let existing_codes: Vec<usize> = rel.code_owner.keys().copied().collect();
    let pick_code = |rng: &mut Rng| -> usize {
        if !existing_codes.is_empty() && rng.chance(4, 5) {
            *rng.pick(&existing_codes)
        } else {
            rng.below(N_CODES as u64 + 1) as usize
        }
    };
    match rng.weighted(&[6, 12, 30, 18, 8, 26]) {
        0 => Op::Prepare { u },
        1 => {
            // Mostly a fresh code for a user without one; sometimes an existing code / the zero code.
            let c = if rng.chance(1, 4) { pick_code(rng) } else { rng.below(N_CODES as u64 + 1) as usize };
            Op::InitCode { u, c }
        }
        2 => {
            let c = pick_code(rng);
            let owner = rel.code_owner.get(&c).copied();
            match rng.below(10) {
                0 => {
                    // self referral through the user's own code
                    let c = rel.user_code.get(&u).copied().unwrap_or(c);
                    Op::SetReferrer { u, c, ru: u, variant: "self" }
                }
                1 => Op::SetReferrer { u, c, ru: any_user(rng), variant: "referrer_account_arbitrary" },
                2 | 3 => {
                    // try to close a 2-cycle: pick a user referred by u, use u' code
                    let referred: Vec<usize> = rel.referrer.iter().filter(|(_, r)| **r == u).map(|(x, _)| *x).collect();
                    if let Some(v) = referred.first().copied() {
                        let c = rel.user_code.get(&v).copied().unwrap_or(c);
                        Op::SetReferrer { u, c, ru: v, variant: "mutual_attempt" }
                    } else {
                        Op::SetReferrer { u, c, ru: owner.unwrap_or(u), variant: "well_formed" }
                    }
                }
                _ => Op::SetReferrer { u, c, ru: owner.unwrap_or_else(|| any_user(rng)), variant: "well_formed" },
            }
        }
        3 => {
            let c = pick_code(rng);
            let owner = rel.code_owner.get(&c).copied().unwrap_or(u);
            let r = any_user(rng);
            match rng.below(8) {
                0 => Op::Transfer { signer: u, acct: u, c, r, variant: "signed_by_arbitrary_user" },
                1 => Op::Transfer { signer: u, acct: owner, c, r, variant: "owner_account_foreign_signer" },
                _ => Op::Transfer { signer: owner, acct: owner, c, r, variant: "well_formed" },
            }
        }
        4 => {
            let c = pick_code(rng);
            let owner = rel.code_owner.get(&c).copied().unwrap_or(u);
            match rng.below(6) {
                0 => Op::Cancel { signer: u, acct: u, c, variant: "signed_by_arbitrary_user" },
                1 => Op::Cancel { signer: u, acct: owner, c, variant: "owner_account_foreign_signer" },
                _ => Op::Cancel { signer: owner, acct: owner, c, variant: "well_formed" },
            }
        }
        _ => {
            // Prefer codes with a pending transfer.
            let pending: Vec<usize> = rel.code_owner.iter().filter(|(c, o)| rel.code_next.get(*c) != Some(*o)).map(|(c, _)| *c).collect();
            let c = if !pending.is_empty() && rng.chance(4, 5) { *rng.pick(&pending) } else { pick_code(rng) };
            let owner = rel.code_owner.get(&c).copied().unwrap_or(u);
            let next = rel.code_next.get(&c).copied().unwrap_or(owner);
            match rng.below(10) {
                0 | 1 => Op::Accept { signer: u, acct: owner, recv: u, c, variant: "signed_by_arbitrary_user" },
                2 => Op::Accept { signer: owner, acct: owner, recv: next, c, variant: "old_owner_signs_for_receiver" },
                3 => Op::Accept { signer: u, acct: owner, recv: next, c, variant: "arbitrary_signer_receiver_is_proposed" },
                4 => Op::Accept { signer: next, acct: any_user(rng), recv: next, c, variant: "arbitrary_owner_account" },
                5 => Op::Accept { signer: next, acct: owner, recv: any_user(rng), c, variant: "proposed_owner_signs_arbitrary_receiver_account" },
                _ => Op::Accept { signer: next, acct: owner, recv: next, c, variant: "well_formed" },
            }
        }
    }
}

fn run_case(m: &mut Monitor, rng: &mut Rng, base: &World, users: &[Pubkey], shard: u64, case: u64, steps: u64) {
    let mut w = base.clone();
    let mut rel = Rel::default();
    let mut hist: VecDeque<String> = VecDeque::new();
    // Most users start prepared.
    for (i, u) in users.iter().enumerate() {
        if rng.chance(5, 6) {
            if w.user_prepare(*u).is_ok() {
                rel.prepared.insert(i);
            } else {
                m.inconclusive("prepare_user failed during case setup");
                return;
            }
        }
    }
    for step in 0..steps {
        let op = gen_op(rng, &rel);
        let exp = rel.expect(&op);
        let (ix, signer) = build(&w, users, &op);
        let res = w.send(&[ix], &[signer]);
        let ok = res.is_ok();
        let code = match &res {
            Ok(_) => "ok".to_string(),
            Err((e, _)) => err_code(e),
        };
        m.eval();
        let name = op.name();
        m.count(&format!("{name}_{}", if ok { "ok" } else { "err" }));
        m.count(&format!("{name}[{}]_{}", op.variant(), if ok { "ok" } else { "err" }));
        m.nontrivial(format!("{name}:{}:{exp:?}:{code}", op.variant()).as_bytes());
        let desc = format!("{op:?} expect={exp:?} -> {code}");
        if hist.len() >= 40 {
            hist.pop_front();
        }
        hist.push_back(desc.clone());
        let witness = |rel: &Rel, extra: vcommon::serde_json::Value| {
            json!({"shard": shard, "case": case, "step": step, "op": desc, "detail": extra,
                "reference_before": format!("{rel:?}"), "last_ops": hist.iter().cloned().collect::<Vec<_>>(),
                "users": users.iter().map(|u| u.to_string()).collect::<Vec<_>>()})
        };
        match (exp, ok) {
            (Exp::MustFail(why), false) => m.count(&format!("must_fail_rejected[{why}]")),
            (Exp::ShouldFail(why), false) => m.count(&format!("malformed_rejected[{why}]")),
            (Exp::Ok, true) => {}
            (Exp::Ok, false) => {
                m.count("well_formed_request_rejected");
                if m.wants_sample() {
                    m.sample(json!({"well_formed_request_rejected": desc}));
                }
            }
            (Exp::MustFail(why), true) => {
                m.violation(&format!("C33:{name}:accepted_although_property_requires_failure"), witness(&rel, json!({"why": why})));
            }
            (Exp::ShouldFail(why), true) => m.count(&format!("malformed_accepted[{why}](not a property matter)")),
        }
        if !ok {
            continue; // atomic: nothing changed
        }
        // ---- post-state checks against the pre-state relation
        let chain = read_chain(&w, users);
        let post = match rel_of_chain(&chain, users, &w.store) {
            Ok(p) => p,
            Err(e) => {
                m.violation(&format!("C33:{name}:state_outside_universe"), witness(&rel, json!({"problem": e})));
                continue;
            }
        };
        m.count("post_state_checks");
        // (1) referrer: write-once, never self, never mutual.
        for (u, r) in &post.referrer {
            if let Some(old) = rel.referrer.get(u) {
                if old != r {
                    m.violation(&format!("C33:{name}:referrer_overwritten"), witness(&rel, json!({"user": u, "old": old, "new": r})));
                }
            } else {
                let legit = matches!(op, Op::SetReferrer { u: ou, .. } if ou == *u);
                if !legit {
                    m.violation(&format!("C33:{name}:referrer_set_by_other_instruction"), witness(&rel, json!({"user": u, "new": r})));
                }
            }
            // (state invariants are reported when they first appear, not on every later instruction)
            if r == u && rel.referrer.get(u) != Some(u) {
                m.violation(&format!("C33:{name}:self_referral"), witness(&rel, json!({"user": u})));
            }
            let was_mutual = rel.referrer.get(u) == Some(r) && rel.referrer.get(r) == Some(u);
            if post.referrer.get(r) == Some(u) && !was_mutual {
                m.violation(&format!("C33:{name}:mutual_referral"), witness(&rel, json!({"user": u, "referrer": r})));
            }
        }
        for u in rel.referrer.keys() {
            if !post.referrer.contains_key(u) {
                m.violation(&format!("C33:{name}:referrer_cleared"), witness(&rel, json!({"user": u})));
            }
        }
        // (2) every code belongs to exactly one user.
        for (c, owner) in &post.code_owner {
            let holders: Vec<usize> = post.user_code.iter().filter(|(_, cc)| *cc == c).map(|(u, _)| *u).collect();
            let holders_before: Vec<usize> = rel.user_code.iter().filter(|(_, cc)| *cc == c).map(|(u, _)| *u).collect();
            let same_as_before = rel.code_owner.get(c) == Some(owner) && holders_before == holders;
            if holders != vec![*owner] && !same_as_before {
                m.violation(
                    &format!("C33:{name}:code_not_owned_by_exactly_one_user"),
                    witness(&rel, json!({"code": c, "code_account_owner": owner, "users_pointing_to_code": holders})),
                );
            }
        }
        for (u, c) in &post.user_code {
            if !post.code_owner.contains_key(c) {
                m.violation(&format!("C33:{name}:user_points_to_missing_code"), witness(&rel, json!({"user": u, "code": c})));
            }
        }
        // (3) ownership changes only on acceptance by the proposed owner.
        for (c, new_owner) in &post.code_owner {
            if let Some(old) = rel.code_owner.get(c) {
                if old != new_owner {
                    let proposed = rel.code_next.get(c).copied();
                    let legit = matches!(op, Op::Accept { signer, c: oc, .. } if oc == *c && Some(signer) == proposed && signer == *new_owner && proposed != Some(*old));
                    if legit {
                        m.count("ownership_changed_by_acceptance");
                    } else {
                        m.violation(
                            &format!("C33:{name}:ownership_changed_without_acceptance_by_proposed_owner"),
                            witness(&rel, json!({"code": c, "old_owner": old, "new_owner": new_owner, "proposed_owner_before": proposed})),
                        );
                    }
                }
            }
        }
        for c in rel.code_owner.keys() {
            if !post.code_owner.contains_key(c) {
                m.violation(&format!("C33:{name}:code_disappeared"), witness(&rel, json!({"code": c})));
            }
        }
        // (4) the reference relation after its own transition.
        let mut want = rel.clone();
        match exp {
            Exp::Ok => want.apply(&op),
            _ => {
                // Unexpected success: adopt the chain's relation (already checked above).
                want = post.clone();
            }
        }
        if want != post {
            m.violation(
                &format!("C33:{name}:state_differs_from_reference"),
                witness(&rel, json!({"reference_after": format!("{want:?}"), "chain_after": format!("{post:?}")})),
            );
        }
        rel = post;
        if let Op::SetReferrer { .. } = op {
            m.count("referrers_set");
        }
    }
    m.max("max_referrers_in_a_case", rel.referrer.len() as u64);
    m.max("max_codes_in_a_case", rel.code_owner.len() as u64);
    if m.wants_sample() {
        m.sample(json!({"steps": steps, "final_relation": format!("{rel:?}"), "last_ops": hist.iter().rev().take(4).cloned().collect::<Vec<_>>()}));
    }
}

pub fn run(args: &Args) -> Option<i32> {
    let mut mon = Monitor::new(
        args,
        "cases: random histories (60..240 instructions) of prepare_user / initialize_referral_code / set_referrer / \
         transfer / cancel / accept over 6 users and 7 codes through the real instructions, well-formed and hostile \
         variants; after every successful instruction all user and referral-code accounts are read back and compared \
         with a reference relation; non-trivial: every instruction sent; distinct = distinct (instruction, variant, \
         model expectation, result code)",
    );
    mon.assume("failed instructions change nothing (transaction atomicity of the runtime), so accounts are re-read only after successes");
    mon.assume("requests the property does not forbid but the instruction docs reject (malformed accounts, receiver already has a code, …) are counted, not judged");
    let quiet = hostsvm::QuietStdout::new();
    let shards = args.scale(512, 2048);
    let cases = args.scale(12, 40);
    let seed = args.seed;
    run_shards(&mut mon, args.threads, shards, |shard, m| {
        let mut rng = Rng::derive(seed, shard, 33);
        let base = vcommon::monitor::guard(|| {
            let mut w = World::bootstrap_store();
            let users: Vec<Pubkey> = (0..N_USERS).map(|i| w.add_user(&format!("c33-{i}"))).collect();
            (w, users)
        });
        let (base, users) = match base {
            Ok(x) => x,
            Err(e) => {
                m.inconclusive(&format!("bootstrap failed: {e}"));
                return;
            }
        };
        for case in 0..cases {
            let steps = rng.range(60, 240);
            run_case(m, &mut rng, &base, &users, shard, case, steps);
        }
    });
    drop(quiet);
    for c in [
        "prepare_user_ok", "initialize_referral_code_ok", "set_referrer_ok", "transfer_referral_code_ok", "cancel_referral_code_transfer_ok",
        "accept_referral_code_ok", "ownership_changed_by_acceptance", "post_state_checks",
    ] {
        mon.require(c, 100);
    }
    for c in [
        "must_fail_rejected[referrer already set]", "must_fail_rejected[self referral]", "must_fail_rejected[mutual referral]",
        "must_fail_rejected[the signer is not the proposed new owner]", "must_fail_rejected[the receiving account is not the proposed new owner's]",
        "must_fail_rejected[the code already belongs to a user]",
    ] {
        mon.require(c, 20);
    }
    Some(mon.finish())
}
