//! Monitor for C18 (see /verif/DESIGN.md §5 C18).
use vcommon::Args;

pub fn run(_args: &Args) -> Option<i32> {
    None
}
