//! Monitor for C18 — "Role membership behaves like a set of grants gated by enabled roles".
//!
//! Two systems under test run the same random operation machine against one reference model:
//!  (a) `direct`: a zeroed `Store` value initialised by `Store::init`, mutated through
//!      `Store::enable_role / disable_role / grant / revoke` and queried through `Store::has_role`,
//!      `Store::has_admin_role` (inside the runtime context, so the last-restart-slot sysvar is the
//!      harness-controlled one) and `RoleStore::has_role` (`store.role()`); every failing call is
//!      followed by a byte comparison of the whole `Store` value;
//!  (b) `ix`: the real instructions `enable_role / disable_role / grant_role / revoke_role /
//!      check_role / has_role / check_admin / has_admin / update_last_restarted_slot` in hostsvm, with
//!      callers drawn from {store authority, members, RESTART_ADMIN holders, strangers}.
//!
//! Reference model: `roles: name -> enabled?`, `grants: set of (address, role)`, capacities 32 / 64,
//! recorded vs current last-restart slot.
use crate::world::{self, exchange::load, six, user::in_runtime};
use anchor_lang::prelude::Pubkey;
use anchor_lang::system_program;
use gmsol_store::{accounts as sa, instruction as si, states::Store};
use gmsol_utils::role::RoleKey;
use hostsvm::{key, Svm, TxError};
use std::collections::{BTreeMap, BTreeSet, VecDeque};
use vcommon::{json, monitor::guard, monitor::run_shards, Args, Monitor, Rng};

const MAX_ROLES: usize = 32;
const MAX_MEMBERS: usize = 64;
const N_ADDRS: usize = 80;
const N_ROLE_NAMES: usize = 40;

// ------------------------------------------------------------------------------------------------
// Reference model

#[derive(Clone, Default)]
struct Model {
    /// Roles that exist (were enabled at least once) -> currently enabled.
    roles: BTreeMap<String, bool>,
    grants: BTreeSet<(usize, String)>,
    authority: usize,
    recorded_slot: u64,
    current_slot: u64,
}

#[derive(Clone, Copy, PartialEq, Eq, Debug)]
enum Exp {
    Ok,
    /// Must fail; `true`: the property text itself names this failure, `false`: documented on the
    /// function / instruction (`# Errors`) or a capacity limit.
    Err(&'static str, bool),
    /// Not specified (disable of a role that never existed): either result, no effect.
    Either,
}

impl Model {
    fn n_grants(&self, a: usize) -> usize {
        self.grants.range((a, String::new())..(a + 1, String::new())).count()
    }
    fn is_member(&self, a: usize) -> bool {
        self.n_grants(a) > 0
    }
    fn members(&self) -> usize {
        let mut s = BTreeSet::new();
        for (a, _) in &self.grants {
            s.insert(*a);
        }
        s.len()
    }
    fn holds(&self, a: usize, role: &str) -> bool {
        self.roles.get(role) == Some(&true) && self.grants.contains(&(a, role.to_string()))
    }
    fn restarted(&self) -> bool {
        self.recorded_slot != self.current_slot
    }
    /// What `has_role` / `check_role` must answer `true` for.
    fn authorised(&self, a: usize, role: &str) -> bool {
        if self.restarted() {
            self.holds(a, RoleKey::RESTART_ADMIN)
        } else {
            self.holds(a, role)
        }
    }
    fn is_admin(&self, a: usize) -> bool {
        a == self.authority || (self.restarted() && self.holds(a, RoleKey::RESTART_ADMIN))
    }
    fn exp_enable(&self, role: &str) -> Exp {
        match self.roles.get(role) {
            Some(true) => Exp::Err("role already enabled", true),
            Some(false) => Exp::Ok,
            None if role.len() > 32 => Exp::Err("name longer than MAX_ROLE_NAME_LEN", false),
            None if self.roles.len() >= MAX_ROLES => Exp::Err("role capacity (32) reached", false),
            None => Exp::Ok,
        }
    }
    fn exp_disable(&self, role: &str) -> Exp {
        match self.roles.get(role) {
            Some(true) => Exp::Ok,
            Some(false) => Exp::Err("role already disabled", false),
            None => Exp::Either,
        }
    }
    fn exp_grant(&self, a: usize, role: &str) -> Exp {
        if self.roles.get(role) != Some(&true) {
            return Exp::Err("role does not exist or is disabled", false);
        }
        if self.grants.contains(&(a, role.to_string())) {
            return Exp::Err("role already held", true);
        }
        if !self.is_member(a) && self.members() >= MAX_MEMBERS {
            return Exp::Err("member capacity (64) reached", false);
        }
        Exp::Ok
    }
    fn exp_revoke(&self, a: usize, role: &str) -> Exp {
        if !self.roles.contains_key(role) {
            return Exp::Err("role does not exist", false);
        }
        if !self.grants.contains(&(a, role.to_string())) {
            return Exp::Err("role not held (absent grant)", true);
        }
        Exp::Ok
    }
}

// ------------------------------------------------------------------------------------------------
// Systems under test

#[derive(Clone, Debug, PartialEq, Eq)]
enum Res {
    Ok,
    Err(String),
    Panic(String),
}

/// A query result: `Some(b)` = `Ok(b)`, `None` = `Err(..)` (string kept for the witness).
type Q = Result<bool, String>;

trait Sut {
    fn label(&self) -> &'static str;
    /// Whether mutating operations check the caller (instruction level) or not (direct).
    fn authenticates(&self) -> bool;
    fn enable(&mut self, caller: usize, role: &str) -> Res;
    fn disable(&mut self, caller: usize, role: &str) -> Res;
    fn grant(&mut self, caller: usize, a: usize, role: &str) -> Res;
    fn revoke(&mut self, caller: usize, a: usize, role: &str) -> Res;
    /// Restart-aware role query, all variants the SUT offers: `(variant, result)`.
    fn q_role(&mut self, a: usize, role: &str) -> Vec<(&'static str, Q)>;
    /// Role query without the restart rule (direct only).
    fn q_raw_role(&mut self, a: usize, role: &str) -> Option<Q>;
    fn q_admin(&mut self, a: usize) -> Vec<(&'static str, Q)>;
    fn set_slot(&mut self, slot: u64);
    fn update_slot(&mut self, caller: usize) -> Option<Res>;
    fn bytes(&self) -> Vec<u8>;
    fn restore(&mut self, bytes: &[u8]);
    fn store(&self) -> Option<Box<Store>>;
}

struct Direct {
    svm: Svm,
    store: Box<Store>,
    addrs: Vec<Pubkey>,
}

fn res_of<T>(r: Result<anchor_lang::Result<T>, String>) -> Res {
    match r {
        Ok(Ok(_)) => Res::Ok,
        Ok(Err(e)) => Res::Err(err_name(&e)),
        Err(p) => Res::Panic(p),
    }
}

fn err_name(e: &anchor_lang::error::Error) -> String {
    match e {
        anchor_lang::error::Error::AnchorError(a) => format!("{}({})", a.error_name, a.error_code_number),
        anchor_lang::error::Error::ProgramError(p) => format!("{:?}", p.program_error),
    }
}

impl Direct {
    fn new(addrs: Vec<Pubkey>, authority: usize, slot: u64) -> Result<Self, String> {
        let mut svm = Svm::new();
        svm.last_restart_slot = slot;
        let mut store: Box<Store> = Box::new(bytemuck::Zeroable::zeroed());
        let auth = addrs[authority];
        let r = in_runtime(&mut svm, || store.init(auth, "", 255, auth, auth).map_err(|e| err_name(&e)))?;
        r?;
        Ok(Self { svm, store, addrs })
    }
}

impl Sut for Direct {
    fn label(&self) -> &'static str {
        "direct"
    }
    fn authenticates(&self) -> bool {
        false
    }
    fn enable(&mut self, _c: usize, role: &str) -> Res {
        let s = &mut self.store;
        res_of(guard(|| s.enable_role(role)))
    }
    fn disable(&mut self, _c: usize, role: &str) -> Res {
        let s = &mut self.store;
        res_of(guard(|| s.disable_role(role)))
    }
    fn grant(&mut self, _c: usize, a: usize, role: &str) -> Res {
        let (s, k) = (&mut self.store, self.addrs[a]);
        res_of(guard(|| s.grant(&k, role)))
    }
    fn revoke(&mut self, _c: usize, a: usize, role: &str) -> Res {
        let (s, k) = (&mut self.store, self.addrs[a]);
        res_of(guard(|| s.revoke(&k, role)))
    }
    fn q_role(&mut self, a: usize, role: &str) -> Vec<(&'static str, Q)> {
        let (s, k) = (&self.store, self.addrs[a]);
        let r = in_runtime(&mut self.svm, || s.has_role(&k, role).map_err(|e| err_name(&e)));
        vec![("Store::has_role", r.unwrap_or_else(|p| Err(format!("aborted: {p}"))))]
    }
    fn q_raw_role(&mut self, a: usize, role: &str) -> Option<Q> {
        let (s, k) = (&self.store, self.addrs[a]);
        Some(match guard(|| s.role().has_role(&k, role)) {
            Ok(r) => r.map_err(|e| err_name(&e)),
            Err(p) => Err(format!("panic: {p}")),
        })
    }
    fn q_admin(&mut self, a: usize) -> Vec<(&'static str, Q)> {
        let (s, k) = (&self.store, self.addrs[a]);
        let r = in_runtime(&mut self.svm, || s.has_admin_role(&k).map_err(|e| err_name(&e)));
        vec![("Store::has_admin_role", r.unwrap_or_else(|p| Err(format!("aborted: {p}"))))]
    }
    fn set_slot(&mut self, slot: u64) {
        self.svm.last_restart_slot = slot;
    }
    fn update_slot(&mut self, _caller: usize) -> Option<Res> {
        None // `update_last_restarted_slot` is crate-private; exercised at instruction level.
    }
    fn bytes(&self) -> Vec<u8> {
        bytemuck::bytes_of(&*self.store).to_vec()
    }
    fn restore(&mut self, bytes: &[u8]) {
        bytemuck::bytes_of_mut(&mut *self.store).copy_from_slice(bytes);
    }
    fn store(&self) -> Option<Box<Store>> {
        Some(self.store.clone())
    }
}

struct Ix {
    svm: Svm,
    store: Pubkey,
    addrs: Vec<Pubkey>,
}

fn tx_res(r: world::TxResult) -> Res {
    match r {
        Ok(_) => Res::Ok,
        Err((TxError::Panic(p), _)) => Res::Panic(p),
        Err((e, _)) => Res::Err(tx_err_name(&e)),
    }
}

fn tx_err_name(e: &TxError) -> String {
    match e.custom_code() {
        Some(c) => format!("Custom({c})"),
        None => format!("{e:?}"),
    }
}

fn tx_q(r: world::TxResult) -> Q {
    match r {
        Ok(m) => match m.return_data {
            Some((pid, d)) if pid == world::STORE_PID && d.len() == 1 => Ok(d[0] != 0),
            other => Err(format!("no boolean return data: {other:?}")),
        },
        Err((e, _)) => Err(tx_err_name(&e)),
    }
}

impl Ix {
    fn new(addrs: Vec<Pubkey>, authority: usize, slot: u64) -> Result<Self, String> {
        let mut svm = world::new_svm();
        svm.last_restart_slot = slot;
        let admin = addrs[authority];
        svm.airdrop(&admin, 1_000 * world::LAMPORTS);
        let store = world::pda::find_store_address("", &world::STORE_PID).0;
        svm.process(
            &[six(
                sa::Initialize { payer: admin, authority: None, receiver: None, holding: None, store, system_program: system_program::ID },
                si::Initialize { key: String::new() },
            )],
            &[admin],
        )
        .map_err(|(e, _)| format!("initialize: {e:?}"))?;
        Ok(Self { svm, store, addrs })
    }
}

impl Sut for Ix {
    fn label(&self) -> &'static str {
        "ix"
    }
    fn authenticates(&self) -> bool {
        true
    }
    fn enable(&mut self, c: usize, role: &str) -> Res {
        let (a, store) = (self.addrs[c], self.store);
        tx_res(self.svm.process(&[six(sa::EnableRole { authority: a, store }, si::EnableRole { role: role.to_string() })], &[a]))
    }
    fn disable(&mut self, c: usize, role: &str) -> Res {
        let (a, store) = (self.addrs[c], self.store);
        tx_res(self.svm.process(&[six(sa::DisableRole { authority: a, store }, si::DisableRole { role: role.to_string() })], &[a]))
    }
    fn grant(&mut self, c: usize, u: usize, role: &str) -> Res {
        let (a, store, user) = (self.addrs[c], self.store, self.addrs[u]);
        tx_res(self.svm.process(&[six(sa::GrantRole { authority: a, store }, si::GrantRole { user, role: role.to_string() })], &[a]))
    }
    fn revoke(&mut self, c: usize, u: usize, role: &str) -> Res {
        let (a, store, user) = (self.addrs[c], self.store, self.addrs[u]);
        tx_res(self.svm.process(&[six(sa::RevokeRole { authority: a, store }, si::RevokeRole { user, role: role.to_string() })], &[a]))
    }
    fn q_role(&mut self, u: usize, role: &str) -> Vec<(&'static str, Q)> {
        let (a, store) = (self.addrs[u], self.store);
        let has = tx_q(self.svm.process(&[six(sa::HasRole { store }, si::HasRole { authority: a, role: role.to_string() })], &[]));
        let check = tx_q(self.svm.process(&[six(sa::CheckRole { authority: a, store }, si::CheckRole { role: role.to_string() })], &[a]));
        vec![("has_role", has), ("check_role", check)]
    }
    fn q_raw_role(&mut self, _a: usize, _role: &str) -> Option<Q> {
        None
    }
    fn q_admin(&mut self, u: usize) -> Vec<(&'static str, Q)> {
        let (a, store) = (self.addrs[u], self.store);
        let has = tx_q(self.svm.process(&[six(sa::HasRole { store }, si::HasAdmin { authority: a })], &[]));
        let check = tx_q(self.svm.process(&[six(sa::CheckRole { authority: a, store }, si::CheckAdmin {})], &[a]));
        vec![("has_admin", has), ("check_admin", check)]
    }
    fn set_slot(&mut self, slot: u64) {
        self.svm.last_restart_slot = slot;
    }
    fn update_slot(&mut self, c: usize) -> Option<Res> {
        let (a, store) = (self.addrs[c], self.store);
        Some(tx_res(self.svm.process(&[six(sa::UpdateLastRestartedSlot { authority: a, store }, si::UpdateLastRestartedSlot {})], &[a])))
    }
    fn bytes(&self) -> Vec<u8> {
        self.svm.get(&self.store).map(|a| a.data.clone()).unwrap_or_default()
    }
    fn restore(&mut self, _bytes: &[u8]) {}
    fn store(&self) -> Option<Box<Store>> {
        load::<Store>(&self.svm, &self.store).map(Box::new)
    }
}

// ------------------------------------------------------------------------------------------------
// Driver

fn role_names(rng: &mut Rng) -> Vec<String> {
    const A: &[u8] = b"ABCDEFGHIJKLMNOPQRSTUVWXYZ_abcdefghijklmnopqrstuvwxyz0123456789 -.";
    const MB: &[&str] = &["é", "ß", "€", "中", "😀"];
    let mut names: BTreeSet<String> = BTreeSet::new();
    names.insert(RoleKey::RESTART_ADMIN.to_string());
    for r in world::ALL_ROLES.iter().take(4) {
        names.insert(r.to_string());
    }
    while names.len() < N_ROLE_NAMES {
        let target = rng.range(1, 31) as usize;
        let mut s = String::new();
        while s.len() < target {
            if rng.chance(1, 8) {
                let c = *rng.pick(MB);
                if s.len() + c.len() <= 31 {
                    s.push_str(c);
                    continue;
                }
            }
            s.push(*rng.pick(A) as char);
        }
        names.insert(s);
    }
    let mut v: Vec<String> = names.into_iter().collect();
    rng.shuffle(&mut v);
    v
}

struct Ctx<'a> {
    m: &'a mut Monitor,
    model: Model,
    names: Vec<String>,
    history: VecDeque<String>,
    shard: u64,
    case: u64,
    step: u64,
    /// A revoke brought the member count from 64 to 63 and no new member was added since.
    freed_at_capacity: bool,
}

impl Ctx<'_> {
    fn witness(&self, sut: &dyn Sut, what: vcommon::serde_json::Value) -> vcommon::serde_json::Value {
        json!({
            "sut": sut.label(), "shard": self.shard, "case": self.case, "step": self.step,
            "restarted": self.model.restarted(), "recorded_slot": self.model.recorded_slot, "current_slot": self.model.current_slot,
            "model_roles": self.model.roles.len(), "model_members": self.model.members(),
            "detail": what, "last_ops": self.history.iter().cloned().collect::<Vec<_>>(),
        })
    }
    fn log(&mut self, s: String) {
        if self.history.len() >= 30 {
            self.history.pop_front();
        }
        self.history.push_back(s);
    }
}

fn role_state(model: &Model, role: &str) -> &'static str {
    match model.roles.get(role) {
        None => "absent",
        Some(true) => "enabled",
        Some(false) => "disabled",
    }
}

/// Apply one mutating operation to SUT and model, compare.
#[allow(clippy::too_many_arguments)]
fn mutate(cx: &mut Ctx, sut: &mut dyn Sut, op: &str, caller: usize, a: usize, role: &str) {
    let model_exp = match op {
        "enable" => cx.model.exp_enable(role),
        "disable" => cx.model.exp_disable(role),
        "grant" => cx.model.exp_grant(a, role),
        _ => cx.model.exp_revoke(a, role),
    };
    let authorised = !sut.authenticates() || cx.model.is_admin(caller);
    let exp = if authorised { model_exp } else { Exp::Err("caller is not an admin", false) };
    let members_before = cx.model.members();
    let was_member = cx.model.is_member(a);
    let before = sut.bytes();
    let res = match op {
        "enable" => sut.enable(caller, role),
        "disable" => sut.disable(caller, role),
        "grant" => sut.grant(caller, a, role),
        _ => sut.revoke(caller, a, role),
    };
    let desc = format!(
        "{op}(caller={caller}{}, addr={a}, role={role:?}[{}], granted={}) -> {res:?}",
        if caller == cx.model.authority { "=authority" } else { "" },
        role_state(&cx.model, role),
        cx.model.grants.contains(&(a, role.to_string()))
    );
    cx.log(desc.clone());
    cx.m.eval();
    cx.m.count(&format!("{}_{op}_{}", sut.label(), match &res { Res::Ok => "ok", Res::Err(_) => "err", Res::Panic(_) => "panic" }));
    let class = format!(
        "{}:{op}:{}:{}:{}:{}:{}:{}:{}",
        sut.label(),
        match &res { Res::Ok => "ok".to_string(), Res::Err(e) => e.clone(), Res::Panic(_) => "panic".into() },
        role_state(&cx.model, role),
        cx.model.grants.contains(&(a, role.to_string())),
        cx.model.roles.len() >= MAX_ROLES,
        members_before >= MAX_MEMBERS,
        cx.model.restarted(),
        authorised,
    );
    cx.m.nontrivial(class.as_bytes());
    if let Res::Panic(p) = &res {
        cx.m.count("panics");
        let _ = p;
        sut.restore(&before);
    }
    let ok = res == Res::Ok;
    match (exp, ok) {
        (Exp::Ok, true) | (Exp::Either, true) => {}
        (Exp::Err(..), false) | (Exp::Either, false) => {}
        (Exp::Ok, false) => {
            cx.m.violation(
                &format!("C18:{}:{op}:rejected_although_model_accepts", sut.label()),
                cx.witness(sut, json!({"op": desc, "model": "must succeed"})),
            );
        }
        (Exp::Err(why, by_property), true) => {
            let class = if !authorised {
                "unauthorised_caller_accepted"
            } else if by_property {
                "accepted_although_property_requires_failure"
            } else {
                "accepted_although_documented_to_fail"
            };
            cx.m.violation(
                &format!("C18:{}:{op}:{class}", sut.label()),
                cx.witness(sut, json!({"op": desc, "model": format!("must fail: {why}")})),
            );
        }
    }
    if let Exp::Err(why, _) = exp {
        if !ok {
            cx.m.count(&format!("expected_failure[{why}]"));
        }
    }
    if exp == Exp::Either {
        cx.m.count(&format!("unspecified_disable_of_never_enabled_role_{}", if ok { "ok_noop" } else { "err" }));
    }
    // Failure ⇒ no side effects (byte comparison). (`Either` + Ok must also be a no-op.)
    let after = sut.bytes();
    if !ok || exp == Exp::Either {
        cx.m.count("no_side_effect_checks");
        if after != before && !matches!(res, Res::Panic(_)) {
            cx.m.violation(
                &format!("C18:{}:{op}:failure_changed_state", sut.label()),
                cx.witness(sut, json!({"op": desc, "bytes_differ": true})),
            );
        }
    }
    // Success ⇒ model transition.
    if ok && authorised {
        match op {
            "enable" => {
                cx.model.roles.insert(role.to_string(), true);
            }
            "disable" => {
                if let Some(e) = cx.model.roles.get_mut(role) {
                    *e = false;
                }
            }
            "grant" => {
                cx.model.grants.insert((a, role.to_string()));
                if !was_member {
                    cx.m.max("max_members_reached", cx.model.members() as u64);
                    if cx.freed_at_capacity && members_before == MAX_MEMBERS - 1 {
                        cx.m.count("new_member_added_into_slot_freed_at_capacity");
                    }
                    cx.freed_at_capacity = false;
                }
            }
            _ => {
                cx.model.grants.remove(&(a, role.to_string()));
                if role_state(&cx.model, role) == "disabled" {
                    cx.m.count("revoke_on_disabled_role_ok");
                }
                if !cx.model.is_member(a) {
                    cx.m.count("membership_removed_by_last_revoke");
                    if members_before == MAX_MEMBERS {
                        cx.freed_at_capacity = true;
                    }
                }
            }
        }
        cx.m.max("max_roles_reached", cx.model.roles.len() as u64);
    } else if ok {
        // An unauthorised caller was accepted (already reported): resynchronise so that one defect
        // does not cascade — apply the effect to the model as the SUT did.
        match op {
            "enable" => {
                cx.model.roles.insert(role.to_string(), true);
            }
            "disable" => {
                if let Some(e) = cx.model.roles.get_mut(role) {
                    *e = false;
                }
            }
            "grant" => {
                cx.model.grants.insert((a, role.to_string()));
            }
            _ => {
                cx.model.grants.remove(&(a, role.to_string()));
            }
        }
    }
    structure_check(cx, sut, &[a]);
}

/// Compare the SUT's membership structure with the model for the given addresses (+ totals).
fn structure_check(cx: &mut Ctx, sut: &dyn Sut, addrs: &[usize]) {
    let Some(store) = sut.store() else {
        cx.m.inconclusive("store account unreadable");
        return;
    };
    let rs = store.role();
    cx.m.eval();
    if rs.num_roles() != cx.model.roles.len() || rs.num_members() != cx.model.members() {
        cx.m.violation(
            &format!("C18:{}:structure:counts_differ_from_model", sut.label()),
            cx.witness(sut, json!({"num_roles": rs.num_roles(), "num_members": rs.num_members()})),
        );
    }
    let keys: Vec<Pubkey> = addrs.iter().map(|a| addr_key(*a)).collect();
    for (a, k) in addrs.iter().zip(keys.iter()) {
        let bits = rs.role_value(k).map(|v| v.count_ones() as usize);
        let want = cx.model.n_grants(*a);
        let ok = match bits {
            None => want == 0,
            Some(n) => n == want && want > 0,
        };
        if !ok {
            cx.m.violation(
                &format!("C18:{}:structure:membership_differs_from_model", sut.label()),
                cx.witness(sut, json!({"addr": a, "stored_grant_bits": bits, "model_grants": want,
                    "note": "an address must be a member exactly while it has at least one grant"})),
            );
        }
    }
}

fn addr_key(i: usize) -> Pubkey {
    key(&format!("c18-addr-{i}"))
}

fn query_role(cx: &mut Ctx, sut: &mut dyn Sut, a: usize, role: &str) {
    let want = cx.model.authorised(a, role);
    let restarted = cx.model.restarted();
    for (variant, q) in sut.q_role(a, role) {
        cx.m.eval();
        let got = q == Ok(true);
        cx.m.count(&format!("{}_{variant}_{}", sut.label(), match &q { Ok(true) => "true", Ok(false) => "false", Err(_) => "err" }));
        cx.m.nontrivial(
            format!("{}:{variant}:{:?}:{}:{}:{}", sut.label(), q.as_ref().map_err(|e| e.clone()), role_state(&cx.model, role), restarted, cx.model.is_member(a)).as_bytes(),
        );
        if restarted {
            cx.m.count(if want { "restart_queries_authorised" } else { "restart_queries_denied" });
        }
        if got != want {
            let class = match (restarted, want) {
                (false, true) => "held_role_not_reported",
                (false, false) => "role_reported_although_not_held",
                (true, true) => "restart_admin_not_authorised_after_restart",
                (true, false) => "non_restart_admin_authorised_after_restart",
            };
            let w = cx.witness(sut, json!({"query": variant, "addr": a, "role": role, "role_state": role_state(&cx.model, role),
                "granted": cx.model.grants.contains(&(a, role.to_string())), "result": format!("{q:?}"), "model_says_true": want}));
            cx.m.violation(&format!("C18:{}:{variant}:{class}", sut.label()), w);
        }
    }
    if let Some(q) = sut.q_raw_role(a, role) {
        cx.m.eval();
        let want = cx.model.holds(a, role);
        cx.m.count(&format!("direct_RoleStore::has_role_{}", match &q { Ok(true) => "true", Ok(false) => "false", Err(_) => "err" }));
        if (q == Ok(true)) != want {
            let w = cx.witness(sut, json!({"query": "RoleStore::has_role", "addr": a, "role": role, "role_state": role_state(&cx.model, role),
                "granted": cx.model.grants.contains(&(a, role.to_string())), "result": format!("{q:?}"), "model_says_true": want}));
            cx.m.violation(
                &format!("C18:direct:RoleStore::has_role:{}", if want { "held_role_not_reported" } else { "role_reported_although_not_held" }),
                w,
            );
        }
    }
}

fn query_admin(cx: &mut Ctx, sut: &mut dyn Sut, a: usize) {
    let want = cx.model.is_admin(a);
    let restarted = cx.model.restarted();
    for (variant, q) in sut.q_admin(a) {
        cx.m.eval();
        cx.m.count(&format!("{}_{variant}_{}", sut.label(), match &q { Ok(true) => "true", Ok(false) => "false", Err(_) => "err" }));
        cx.m.nontrivial(format!("{}:{variant}:{:?}:{}:{}", sut.label(), q.as_ref().map_err(|e| e.clone()), restarted, a == cx.model.authority).as_bytes());
        if a == cx.model.authority && restarted {
            cx.m.count("authority_admin_checks_after_restart");
        }
        if (q == Ok(true)) != want {
            let class = if a == cx.model.authority {
                "store_authority_not_admin"
            } else if want {
                "restart_admin_not_admin_after_restart"
            } else {
                "non_admin_reported_as_admin"
            };
            let w = cx.witness(sut, json!({"query": variant, "addr": a, "is_authority": a == cx.model.authority, "result": format!("{q:?}"), "model_says_true": want}));
            cx.m.violation(&format!("C18:{}:{variant}:{class}", sut.label()), w);
        }
    }
}

fn run_case(m: &mut Monitor, rng: &mut Rng, use_ix: bool, shard: u64, case: u64, steps: u64) {
    let addrs: Vec<Pubkey> = (0..N_ADDRS).map(addr_key).collect();
    let authority = rng.below(N_ADDRS as u64) as usize;
    let slot0 = if rng.bool() { 0 } else { rng.range(1, 1_000_000) };
    let names = role_names(rng);
    let mut sut: Box<dyn Sut> = if use_ix {
        match Ix::new(addrs.clone(), authority, slot0) {
            Ok(s) => Box::new(s),
            Err(e) => {
                m.inconclusive(&format!("ix bootstrap failed: {e}"));
                return;
            }
        }
    } else {
        match Direct::new(addrs.clone(), authority, slot0) {
            Ok(s) => Box::new(s),
            Err(e) => {
                m.inconclusive(&format!("direct bootstrap failed: {e}"));
                return;
            }
        }
    };
    let model = Model { authority, recorded_slot: slot0, current_slot: slot0, ..Default::default() };
    let mut cx = Ctx { m, model, names, history: VecDeque::new(), shard, case, step: 0, freed_at_capacity: false };
    cx.m.count(&format!("cases_{}", sut.label()));
    // Case flavour: how eagerly the capacities are approached.
    let fill = rng.below(3); // 0: balanced, 1: grant-heavy (members), 2: enable-heavy (roles)
    // Make RESTART_ADMIN available in most cases.
    let restart_flavour = rng.chance(3, 4);
    for step in 0..steps {
        cx.step = step;
        let n_names = cx.names.len();
        let pick_role = |rng: &mut Rng, cx: &Ctx| -> String {
            if !cx.model.roles.is_empty() && rng.chance(7, 10) {
                let i = rng.below(cx.model.roles.len() as u64) as usize;
                cx.model.roles.keys().nth(i).cloned().unwrap()
            } else {
                cx.names[rng.below(n_names as u64) as usize].clone()
            }
        };
        let pick_caller = |rng: &mut Rng, cx: &Ctx| -> usize {
            match rng.below(10) {
                0..=5 => cx.model.authority,
                6 | 7 => {
                    // a RESTART_ADMIN holder if any, else any member
                    let ra: Vec<usize> = cx.model.grants.iter().filter(|(_, r)| r == RoleKey::RESTART_ADMIN).map(|(a, _)| *a).collect();
                    if !ra.is_empty() {
                        *rng.pick(&ra)
                    } else if let Some((a, _)) = cx.model.grants.iter().next() {
                        *a
                    } else {
                        rng.below(N_ADDRS as u64) as usize
                    }
                }
                8 => {
                    let n = cx.model.grants.len();
                    if n > 0 { cx.model.grants.iter().nth(rng.below(n as u64) as usize).unwrap().0 } else { rng.below(N_ADDRS as u64) as usize }
                }
                _ => rng.below(N_ADDRS as u64) as usize,
            }
        };
        let caller = if sut.authenticates() { pick_caller(rng, &cx) } else { cx.model.authority };
        let weights: [u32; 8] = match fill {
            0 => [10, 6, 28, 20, 22, 8, 4, 2],
            1 => [8, 3, 45, 14, 18, 6, 4, 2],
            _ => [22, 6, 26, 14, 18, 8, 4, 2],
        };
        match rng.weighted(&weights) {
            0 => {
                let role = if restart_flavour && !cx.model.roles.contains_key(RoleKey::RESTART_ADMIN) && rng.chance(1, 2) {
                    RoleKey::RESTART_ADMIN.to_string()
                } else if rng.chance(2, 3) {
                    cx.names[rng.below(n_names as u64) as usize].clone()
                } else {
                    pick_role(rng, &cx)
                };
                mutate(&mut cx, sut.as_mut(), "enable", caller, 0, &role);
            }
            1 => {
                let role = pick_role(rng, &cx);
                mutate(&mut cx, sut.as_mut(), "disable", caller, 0, &role);
            }
            2 => {
                let role = if restart_flavour && cx.model.roles.get(RoleKey::RESTART_ADMIN) == Some(&true) && rng.chance(1, 12) {
                    RoleKey::RESTART_ADMIN.to_string()
                } else {
                    pick_role(rng, &cx)
                };
                // Prefer existing members (to build multi-role members) or new addresses by flavour.
                let a = if !cx.model.grants.is_empty() && rng.chance(if fill == 1 { 3 } else { 5 }, 10) {
                    let n = cx.model.grants.len();
                    cx.model.grants.iter().nth(rng.below(n as u64) as usize).unwrap().0
                } else {
                    rng.below(N_ADDRS as u64) as usize
                };
                mutate(&mut cx, sut.as_mut(), "grant", caller, a, &role);
            }
            3 => {
                let (a, role) = if !cx.model.grants.is_empty() && rng.chance(3, 4) {
                    // Prefer members with a single grant sometimes (frees member slots).
                    let n = cx.model.grants.len();
                    let (a, r) = cx.model.grants.iter().nth(rng.below(n as u64) as usize).cloned().unwrap();
                    (a, r)
                } else {
                    (rng.below(N_ADDRS as u64) as usize, pick_role(rng, &cx))
                };
                mutate(&mut cx, sut.as_mut(), "revoke", caller, a, &role);
            }
            4 => {
                let (a, role) = if !cx.model.grants.is_empty() && rng.chance(1, 2) {
                    let n = cx.model.grants.len();
                    cx.model.grants.iter().nth(rng.below(n as u64) as usize).cloned().unwrap()
                } else if !cx.model.grants.is_empty() && rng.chance(1, 2) {
                    let n = cx.model.grants.len();
                    (cx.model.grants.iter().nth(rng.below(n as u64) as usize).unwrap().0, pick_role(rng, &cx))
                } else {
                    (rng.below(N_ADDRS as u64) as usize, pick_role(rng, &cx))
                };
                cx.log(format!("query_role(addr={a}, role={role:?})"));
                query_role(&mut cx, sut.as_mut(), a, &role);
            }
            5 => {
                let a = match rng.below(3) {
                    0 => cx.model.authority,
                    1 => pick_caller(rng, &cx),
                    _ => rng.below(N_ADDRS as u64) as usize,
                };
                cx.log(format!("query_admin(addr={a})"));
                query_admin(&mut cx, sut.as_mut(), a);
            }
            6 => {
                // Cluster restart (or back to the recorded value).
                let slot = if rng.chance(1, 3) { cx.model.recorded_slot } else { rng.range(0, 1_000_000) };
                sut.set_slot(slot);
                cx.model.current_slot = slot;
                cx.log(format!("last_restart_slot := {slot} (recorded {})", cx.model.recorded_slot));
                cx.m.count(if cx.model.restarted() { "restart_toggled_on" } else { "restart_toggled_off" });
                // Immediately probe the rule on interesting addresses.
                let auth = cx.model.authority;
                query_admin(&mut cx, sut.as_mut(), auth);
                let ra: Vec<usize> = cx.model.grants.iter().filter(|(_, r)| r == RoleKey::RESTART_ADMIN).map(|(a, _)| *a).collect();
                for a in ra.into_iter().take(2) {
                    let role = pick_role(rng, &cx);
                    query_role(&mut cx, sut.as_mut(), a, &role);
                    query_admin(&mut cx, sut.as_mut(), a);
                }
                if let Some((a, r)) = cx.model.grants.iter().next().cloned() {
                    query_role(&mut cx, sut.as_mut(), a, &r);
                }
            }
            _ => {
                let exp_ok = cx.model.is_admin(caller) && cx.model.restarted();
                let before = sut.bytes();
                if let Some(res) = sut.update_slot(caller) {
                    cx.m.eval();
                    let desc = format!("update_last_restarted_slot(caller={caller}) -> {res:?}");
                    cx.log(desc.clone());
                    cx.m.count(&format!("ix_update_slot_{}", if res == Res::Ok { "ok" } else { "err" }));
                    cx.m.nontrivial(format!("ix:update_slot:{res:?}:{}:{}", cx.model.restarted(), cx.model.is_admin(caller)).as_bytes());
                    if (res == Res::Ok) != exp_ok {
                        let class = if !cx.model.is_admin(caller) { "unauthorised_caller_accepted" } else { "result_differs_from_model" };
                        let w = cx.witness(sut.as_ref(), json!({"op": desc, "model_expects_ok": exp_ok}));
                        cx.m.violation(&format!("C18:ix:update_last_restarted_slot:{class}"), w);
                    }
                    if res == Res::Ok {
                        cx.model.recorded_slot = cx.model.current_slot;
                    } else if sut.bytes() != before {
                        let w = cx.witness(sut.as_ref(), json!({"op": desc}));
                        cx.m.violation("C18:ix:update_last_restarted_slot:failure_changed_state", w);
                    }
                }
            }
        }
        // Periodic sweep: every address' membership + a sample of role queries.
        if step % 64 == 63 || step + 1 == steps {
            let all: Vec<usize> = (0..N_ADDRS).collect();
            structure_check(&mut cx, sut.as_ref(), &all);
            cx.m.count("full_membership_sweeps");
            let pairs: Vec<(usize, String)> = if sut.authenticates() {
                (0..24).map(|_| (rng.below(N_ADDRS as u64) as usize, pick_role(rng, &cx))).collect()
            } else {
                // direct: every (address, existing role) pair through RoleStore::has_role.
                let roles: Vec<String> = cx.model.roles.keys().cloned().collect();
                let mut v = vec![];
                for a in 0..N_ADDRS {
                    for r in &roles {
                        v.push((a, r.clone()));
                    }
                }
                v
            };
            for (a, r) in pairs {
                if sut.authenticates() {
                    query_role(&mut cx, sut.as_mut(), a, &r);
                } else if let Some(q) = sut.q_raw_role(a, &r) {
                    cx.m.eval();
                    let want = cx.model.holds(a, &r);
                    if (q == Ok(true)) != want {
                        let w = cx.witness(sut.as_ref(), json!({"query": "RoleStore::has_role (sweep)", "addr": a, "role": r, "result": format!("{q:?}"), "model_says_true": want}));
                        cx.m.violation(
                            &format!("C18:direct:RoleStore::has_role:{}", if want { "held_role_not_reported" } else { "role_reported_although_not_held" }),
                            w,
                        );
                    }
                }
            }
        }
    }
    if cx.m.wants_sample() {
        let s = json!({"sut": sut.label(), "steps": steps, "final_roles": cx.model.roles.len(), "final_members": cx.model.members(),
            "final_grants": cx.model.grants.len(), "restarted_at_end": cx.model.restarted(), "last_ops": cx.history.iter().rev().take(5).cloned().collect::<Vec<_>>()});
        cx.m.sample(s);
    }
}

pub fn run(args: &Args) -> Option<i32> {
    let mut mon = Monitor::new(
        args,
        "cases: random sequences of enable/disable/grant/revoke/has_role/check_role/has_admin/check_admin/restart-slot \
         changes over 80 addresses and 40 role names (1..31 bytes, ASCII and multi-byte) on (a) a Store value \
         (Store::init + Store/RoleStore methods, queries inside the runtime context) and (b) the real instructions in \
         hostsvm with varying callers; every result is compared with a set model (roles->enabled, grants, capacities \
         32/64, recorded vs current restart slot); non-trivial: every operation; distinct = distinct (sut, operation, \
         outcome incl. error, role state, grant state, at-capacity flags, restarted, caller authorised)",
    );
    mon.assume("`disable_role` of a role that was never enabled is not specified by the property: either result is accepted provided nothing changes");
    mon.assume("for queries the model fixes only when the answer is `true`; `Ok(false)` and `Err` both count as `does not hold`");
    mon.assume("instruction-level `no side effects on failure` is given by transaction atomicity of the runtime; the byte comparison is meaningful for the direct SUT");
    let quiet = hostsvm::QuietStdout::new();
    let shards = args.scale(512, 4096);
    let seed = args.seed;
    let thorough = args.is_thorough();
    run_shards(&mut mon, args.threads, shards, |shard, m| {
        let mut rng = Rng::derive(seed, shard, 18);
        let use_ix = shard % 2 == 1;
        let cases = if use_ix { if thorough { 6 } else { 3 } } else if thorough { 24 } else { 10 };
        for case in 0..cases {
            let steps = if use_ix { rng.range(300, 900) } else { rng.range(300, 1500) };
            run_case(m, &mut rng, use_ix, shard, case, steps);
        }
    });
    drop(quiet);
    for c in [
        "direct_enable_ok", "direct_enable_err", "direct_disable_ok", "direct_disable_err", "direct_grant_ok", "direct_grant_err",
        "direct_revoke_ok", "direct_revoke_err", "ix_enable_ok", "ix_enable_err", "ix_disable_ok", "ix_grant_ok", "ix_grant_err",
        "ix_revoke_ok", "ix_revoke_err", "ix_has_role_true", "ix_check_role_true", "ix_has_role_err", "ix_has_admin_true",
        "ix_check_admin_true", "direct_Store::has_role_true", "direct_Store::has_admin_role_true",
    ] {
        mon.require(c, 50);
    }
    for c in [
        "expected_failure[role already enabled]", "expected_failure[role already held]", "expected_failure[role not held (absent grant)]",
        "expected_failure[role capacity (32) reached]", "expected_failure[member capacity (64) reached]",
        "expected_failure[caller is not an admin]", "membership_removed_by_last_revoke", "new_member_added_into_slot_freed_at_capacity",
        "restart_queries_authorised", "restart_queries_denied", "authority_admin_checks_after_restart", "revoke_on_disabled_role_ok",
        "no_side_effect_checks", "ix_update_slot_ok",
    ] {
        mon.require(c, 10);
    }
    mon.require("max_roles_reached", MAX_ROLES as u64);
    mon.require("max_members_reached", MAX_MEMBERS as u64);
    Some(mon.finish())
}
