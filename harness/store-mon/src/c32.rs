//! Monitor for C32 (see /verif/DESIGN.md §5 C32).
use vcommon::Args;

pub fn run(_args: &Args) -> Option<i32> {
    None
}
