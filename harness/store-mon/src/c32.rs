//! C32 — builder fees are bounded by what the order actually produced.
//!
//! Part 1 (direct, hooks `ops::order::verif::*`, `Order::verif_record_builder_fee`): the real private
//! helpers on generated sizes / factors / prices / increments / outputs. BigInt oracle from the
//! statement and the helpers' unit tests: fee value `V = ⌊size·factor/10^20⌋` (USD, 20 decimals — the
//! program's fixed-point product), fee amount `= ⌈V / price.min⌉` token units (unit price = USD·10^20
//! per smallest token unit; tests: $50 at $2/unit = 25, at $3/unit = 17). Increase: `fee + remaining ==
//! increment` or the call fails. Decrease: recorded `= min(fee, output)` ≤ output. Estimate:
//! `withdrawal + fee`, never below the withdrawal, monotone in size.
//!
//! Part 2 (instructions): `settle_builder_fee` on real orders (pending and executed decrease orders
//! produced by the real create / execute flows). In the pinned tree execution passes a zero builder
//! factor (`TODO(builder-fee)` in ops/order.rs) and no instruction writes `Order::builder`, so a
//! recorded fee is unreachable through instructions: the three builder fields of the real order
//! account are injected with `set_account` (state injection), everything else is real.
use crate::world::{
    exchange::{load, OrderKind, OrderReq},
    six, World, STORE_PID, UNIT,
};
use anchor_lang::prelude::*;
use anchor_spl::token::spl_token;
use gmsol_model::{action::decrease_position::DecreasePositionSwapType, price::Price};
use gmsol_store::ops::order::verif::{
    verif_charge_builder_fee_on_collateral_increment, verif_clamp_builder_fee_amount, verif_compute_builder_fee_amount,
    verif_estimate_builder_fee_for_collateral_withdrawal,
};
use gmsol_store::states::{Order, Position, UserHeader};
use gmsol_store::{accounts as sa, instruction as si};
use hostsvm::{key, token};
use vcommon::{
    big::{b, div_ceil, div_floor},
    json,
    monitor::{guard, run_shards},
    num_bigint::BigInt,
    Args, Monitor, Rng,
};

const OFF_AMOUNT: usize = 8 + 2328;
const OFF_BUILDER: usize = 8 + 2336;
const OFF_FACTOR: usize = 8 + 2368;

fn gen_size(rng: &mut Rng) -> u128 {
    match rng.below(10) {
        0 => rng.biased_u128(u128::MAX, UNIT),
        1 => rng.log_u128(u128::MAX),
        2 => rng.range_u128(0, 1_000),
        _ => rng.range_u128(1, 10_000_000) * UNIT / rng.range_u128(1, 1_000) + rng.log_u128(UNIT),
    }
}

fn gen_factor(rng: &mut Rng) -> u128 {
    match rng.below(12) {
        0 => 0,
        1 => 1,
        2 => UNIT / 2_000,
        3 => UNIT / 100,
        4 => UNIT,
        5 => UNIT + 1,
        6 => 10 * UNIT,
        7 => rng.biased_u128(u128::MAX, UNIT),
        _ => rng.log_u128(UNIT / 10),
    }
}

fn gen_unit_price(rng: &mut Rng) -> u128 {
    match rng.below(10) {
        0 => 0,
        1 => 1,
        2 => rng.biased_u128(u128::MAX, UNIT),
        3 => 2 * UNIT,
        4 => 3 * UNIT,
        // realistic: $0.0001 .. $100k per whole token, 0..9 token decimals
        _ => rng.range_u128(1, 1_000_000_000) * 10u128.pow(rng.range(7, 16) as u32),
    }
}

struct Expect {
    /// `None` = the fee is not computable for a documented reason (named).
    fee: std::result::Result<BigInt, &'static str>,
}

fn expect_fee(size: u128, factor: u128, min_price: u128) -> Expect {
    if factor == 0 {
        return Expect { fee: Ok(b(0)) };
    }
    let v = div_floor(&(b(size) * b(factor)), &b(UNIT));
    if v > b(u128::MAX) {
        return Expect { fee: Err("fee_value_exceeds_u128") };
    }
    if min_price == 0 {
        return Expect { fee: Err("zero_price") };
    }
    let fee = div_ceil(&v, &b(min_price));
    if &v + b(min_price) > b(u128::MAX) {
        // documented `(a + d) - 1` style helper: the intermediate `a + d` may overflow
        return Expect { fee: Err("round_up_intermediate_exceeds_u128") };
    }
    Expect { fee: Ok(fee) }
}

fn direct_case(rng: &mut Rng, m: &mut Monitor, shard: u64, case: u64) {
    let size = gen_size(rng);
    let factor = gen_factor(rng);
    let pmin = gen_unit_price(rng);
    let pmax = if rng.chance(1, 10) { gen_unit_price(rng) } else { pmin.saturating_add(rng.log_u128(pmin / 100 + 1)) };
    let price = Price { min: pmin, max: pmax };
    let ex = expect_fee(size, factor, pmin);
    let wit = |extra: serde_json_value| {
        json!({"shard": shard, "case": case, "size_delta_usd": size.to_string(), "factor": factor.to_string(),
               "price_min": pmin.to_string(), "price_max": pmax.to_string(), "detail": extra})
    };
    // --- compute
    m.eval();
    let got = match guard(|| verif_compute_builder_fee_amount(size, factor, &price)) {
        Ok(r) => r.map_err(|e| e.to_string()),
        Err(p) => {
            m.count("direct_panics");
            Err(format!("panic: {p}"))
        }
    };
    match (&got, &ex.fee) {
        (Ok(x), Ok(f)) => {
            if b(*x) != *f {
                m.violation("C32:compute:fee_differs_from_round_up_formula", wit(json!({"got": x.to_string(), "expected": f.to_string()})));
            }
            m.count("compute_ok");
            if factor != 0 {
                let exact_single_rounding = div_ceil(&(b(size) * b(factor)), &(b(UNIT) * b(pmin)));
                if exact_single_rounding != *f {
                    m.count("compute_two_step_rounding_below_single_ceil");
                }
                let rem = (div_floor(&(b(size) * b(factor)), &b(UNIT))) % b(pmin);
                let class = if *f == b(0) { 0 } else if rem == b(0) { 1 } else { 2 };
                let mut sig = vec![class as u8];
                sig.extend_from_slice(&size.to_le_bytes());
                sig.extend_from_slice(&factor.to_le_bytes());
                sig.extend_from_slice(&pmin.to_le_bytes());
                m.nontrivial(&sig);
                if class == 2 {
                    m.count("compute_rounded_up");
                } else if class == 1 {
                    m.count("compute_exact_division");
                }
            } else {
                m.count("compute_zero_factor");
            }
        }
        (Ok(x), Err(why)) => {
            m.violation(
                "C32:compute:fee_returned_where_not_computable",
                wit(json!({"got": x.to_string(), "why_not_computable": why})),
            );
        }
        (Err(_), Ok(_)) => {
            m.count("compute_err_unexplained");
            if m.wants_sample() {
                m.sample(wit(json!({"unexplained_error": got.clone().err()})));
            }
        }
        (Err(_), Err(why)) => m.count(&format!("compute_err_{why}")),
    }
    // --- monotone in size (same factor / price)
    if let (Ok(x), true) = (&got, rng.chance(1, 4)) {
        let size2 = size.saturating_add(rng.log_u128(size / 3 + 2));
        if let Ok(Ok(y)) = guard(|| verif_compute_builder_fee_amount(size2, factor, &price)) {
            m.eval();
            if y < *x {
                m.violation("C32:compute:fee_not_monotone_in_size", wit(json!({"size2": size2.to_string(), "fee1": x.to_string(), "fee2": y.to_string()})));
            }
            m.count("compute_monotone_pairs");
        }
    }
    // --- increase: charge on collateral increment
    let inc: u64 = match (&ex.fee, rng.below(6)) {
        (Ok(f), 0) => vcommon::big::to_u64(f).unwrap_or(u64::MAX),
        (Ok(f), 1) => vcommon::big::to_u64(&(f - 1)).unwrap_or(0),
        (Ok(f), 2) => vcommon::big::to_u64(&(f + 1)).unwrap_or(u64::MAX),
        (_, 3) => rng.biased_u64(u64::MAX, 1_000_000),
        _ => rng.log_u64(u64::MAX),
    };
    m.eval();
    match guard(|| verif_charge_builder_fee_on_collateral_increment(inc, size, factor, &price)) {
        Err(_) => m.count("direct_panics"),
        Ok(Ok((rem, fee))) => {
            m.count("increment_ok");
            if b(fee) + b(rem) != b(inc) {
                m.violation(
                    "C32:increment:fee_plus_remaining_differs_from_increment",
                    wit(json!({"increment": inc, "remaining": rem, "fee": fee})),
                );
            }
            match &ex.fee {
                Ok(f) if *f == b(fee) => {}
                other => m.violation(
                    "C32:increment:fee_differs_from_round_up_formula",
                    wit(json!({"increment": inc, "remaining": rem, "fee": fee, "expected": format!("{:?}", other.as_ref().map(|f| f.to_string()))})),
                ),
            }
            if fee == inc && fee != 0 {
                m.count("increment_fee_consumes_whole_increment");
            }
        }
        Ok(Err(_)) => {
            let explained = match &ex.fee {
                Err(_) => true,
                Ok(f) => *f > b(inc),
            };
            if explained {
                m.count("increment_failed_explained");
            } else {
                m.count("increment_failed_unexplained");
                if m.wants_sample() {
                    m.sample(wit(json!({"increment": inc, "note": "failed although fee <= increment"})));
                }
            }
        }
    }
    // --- decrease: clamp and record
    let output: u64 = match (&ex.fee, rng.below(6)) {
        (Ok(f), 0) => vcommon::big::to_u64(f).unwrap_or(u64::MAX),
        (Ok(f), 1) => vcommon::big::to_u64(&(f - 1)).unwrap_or(0),
        (Ok(f), 2) => vcommon::big::to_u64(&(f + 1)).unwrap_or(u64::MAX),
        (_, 3) => 0,
        _ => rng.log_u64(u64::MAX),
    };
    let payable: u128 = match &got {
        Ok(x) => *x,
        Err(_) => rng.biased_u128(u128::MAX, 1 << 64),
    };
    m.eval();
    if let Ok(paid) = guard(|| verif_clamp_builder_fee_amount(payable, output as u128)) {
        if paid > output as u128 {
            m.violation("C32:clamp:recorded_fee_exceeds_output", wit(json!({"payable": payable.to_string(), "output": output, "paid": paid.to_string()})));
        }
        if paid != payable.min(output as u128) {
            m.violation("C32:clamp:not_min_of_fee_and_output", wit(json!({"payable": payable.to_string(), "output": output, "paid": paid.to_string()})));
        }
        if paid < payable {
            m.count("clamp_reduced");
        } else {
            m.count("clamp_unchanged");
        }
        // record on an order
        if let Ok(amount) = u64::try_from(paid) {
            let mut order: Box<Order> = Box::new(bytemuck::Zeroable::zeroed());
            let first = if rng.chance(1, 3) { rng.biased_u64(u64::MAX, 1_000) } else { 0 };
            let _ = order.verif_record_builder_fee(first);
            let before = order.builder_fee_amount();
            let r = guard(|| order.verif_record_builder_fee(amount));
            m.eval();
            match r {
                Ok(Ok(())) => {
                    if b(order.builder_fee_amount()) != b(before) + b(amount) {
                        m.violation("C32:record:amount_not_accumulated", wit(json!({"before": before, "add": amount, "after": order.builder_fee_amount()})));
                    }
                    m.count("record_ok");
                }
                Ok(Err(_)) => {
                    if order.builder_fee_amount() != before || b(before) + b(amount) <= b(u64::MAX) {
                        m.violation("C32:record:failed_record_changed_or_unjustified", wit(json!({"before": before, "add": amount, "after": order.builder_fee_amount()})));
                    }
                    m.count("record_overflow_rejected");
                }
                Err(_) => m.count("direct_panics"),
            }
        }
    } else {
        m.count("direct_panics");
    }
    // --- estimate
    let withdrawal = match rng.below(4) {
        0 => rng.biased_u128(u128::MAX, 1 << 64),
        _ => rng.log_u128(u64::MAX as u128),
    };
    let swap = *rng.pick(&[
        DecreasePositionSwapType::NoSwap,
        DecreasePositionSwapType::PnlTokenToCollateralToken,
        DecreasePositionSwapType::CollateralToPnlToken,
    ]);
    m.eval();
    match guard(|| verif_estimate_builder_fee_for_collateral_withdrawal(withdrawal, size, factor, &price, swap)) {
        Err(_) => m.count("direct_panics"),
        Ok(Ok(r)) => {
            m.count("estimate_ok");
            if r < withdrawal {
                m.violation("C32:estimate:below_withdrawal_amount", wit(json!({"withdrawal": withdrawal.to_string(), "estimate": r.to_string()})));
            }
            if factor != 0 && matches!(swap, DecreasePositionSwapType::CollateralToPnlToken) {
                m.count("estimate_ok_with_collateral_to_pnl_swap");
            }
            match &ex.fee {
                Ok(f) if b(withdrawal) + f == b(r) => {}
                other => m.violation(
                    "C32:estimate:not_withdrawal_plus_fee",
                    wit(json!({"withdrawal": withdrawal.to_string(), "estimate": r.to_string(), "expected_fee": format!("{:?}", other.as_ref().map(|f| f.to_string()))})),
                ),
            }
            // monotone in size
            if rng.chance(1, 3) {
                let size2 = size.saturating_add(rng.log_u128(size / 3 + 2));
                if let Ok(Ok(r2)) = guard(|| verif_estimate_builder_fee_for_collateral_withdrawal(withdrawal, size2, factor, &price, swap)) {
                    m.eval();
                    if r2 < r {
                        m.violation("C32:estimate:not_monotone_in_size", wit(json!({"size2": size2.to_string(), "e1": r.to_string(), "e2": r2.to_string()})));
                    }
                    m.count("estimate_monotone_pairs");
                }
            }
        }
        Ok(Err(_)) => m.count("estimate_failed"),
    }
    if m.wants_sample() && case % 250_007 == 5 {
        m.sample(wit(json!({"compute": format!("{got:?}"), "increment": inc, "output": output})));
    }
}

#[allow(non_camel_case_types)]
type serde_json_value = vcommon::serde_json::Value;

// ------------------------------------------------------------------------------------------------
// settle_builder_fee

impl World {
    fn c32_settle_ix(&self, order: Pubkey, mint: Pubkey, builder_user: Option<Pubkey>, with_vault: bool) -> anchor_lang::solana_program::instruction::Instruction {
        six(
            sa::SettleBuilderFee {
                store: self.store,
                order,
                final_output_token: mint,
                escrow: token::ata(&order, &mint),
                builder_user,
                claim_vault: builder_user.filter(|_| with_vault).map(|u| token::ata(&u, &mint)),
                token_program: spl_token::ID,
                event_authority: self.event_authority(),
                program: STORE_PID,
            },
            si::SettleBuilderFee {},
        )
    }

    fn c32_refresh_prices(&mut self, btc: usize, sol: usize, usdc: usize) -> bool {
        let e18 = 1_000_000_000_000_000_000u128;
        self.svm.warp(1);
        self.set_price(btc, 59_990 * e18, 60_000 * e18, 60_010 * e18).is_ok()
            && self.set_price(sol, 149 * e18, 150 * e18, 151 * e18).is_ok()
            && self.set_price(usdc, e18, e18, e18).is_ok()
    }
}

fn set_token_amount(w: &mut World, account: &Pubkey, amount: u64) {
    use anchor_lang::solana_program::program_pack::Pack;
    let Some(acc) = token::token_account(&w.svm, account) else { return };
    let old = acc.amount;
    token::set_token_account(&mut w.svm, *account, acc.mint, acc.owner, amount);
    if let Some(m) = w.svm.accounts.get_mut(&acc.mint) {
        if let Ok(mut mint) = spl_token::state::Mint::unpack(&m.data) {
            mint.supply = mint.supply.saturating_sub(old).saturating_add(amount);
            mint.pack_into_slice(&mut m.data);
        }
    }
}

fn instruction_shard(args: &Args, shard: u64, m: &mut Monitor) {
    let mut rng = Rng::derive(args.seed, shard, 3232);
    let iters = args.scale(70, 240);
    let mut w = World::bootstrap_store();
    w.svm.keep_logs = true;
    w.bootstrap_oracle();
    let btc = w.add_token("BTC", 8, 2, true);
    let sol = w.add_token("SOL", 9, 4, false);
    let usdc = w.add_token("USDC", 6, 6, false);
    let m0 = w.add_market(btc, sol, usdc);
    let (sol_mint, usdc_mint) = (w.tokens[sol].mint, w.tokens[usdc].mint);
    let alice = w.add_user("alice");
    let builder = w.add_user("builder");
    let other = w.add_user("other");
    let payer = key("settle-payer");
    w.svm.airdrop(&payer, 1_000_000_000_000);
    token::fund_ata(&mut w.svm, &alice, &sol_mint, 10_000_000_000_000);
    token::fund_ata(&mut w.svm, &alice, &usdc_mint, 10_000_000_000_000);
    if !w.c32_refresh_prices(btc, sol, usdc) {
        m.inconclusive("harness: price bootstrap failed");
        return;
    }
    // liquidity
    match w.create_deposit(alice, m0, 800_000_000_000, 200_000_000_000, None, None, &[], &[], 0) {
        Ok(d) => {
            if let Err((e, meta)) = w.execute_deposit(d, true) {
                m.inconclusive(&format!("harness: bootstrap deposit execution failed: {e:?} {:?}", meta.logs.iter().rev().take(6).collect::<Vec<_>>()));
                return;
            }
            let _ = w.close_deposit(alice, d);
        }
        Err(_) => {
            m.inconclusive("harness: bootstrap deposit creation failed");
            return;
        }
    }
    // builder / other user accounts through the real instructions
    for u in [builder, other] {
        let ix = w.prepare_user_ix(u);
        if w.send(&[ix], &[u]).is_err() {
            m.inconclusive("harness: prepare_user failed");
            return;
        }
    }
    let builder_user = w.user_pda(&builder);
    let other_user = w.user_pda(&other);
    // advertised factor through the real instructions (cap, then factor)
    let cap = UNIT / 100;
    let _ = w.insert_factor("max_builder_fee_factor", cap);
    for (f, expect_ok) in [(UNIT / 2_000, true), (cap, true), (cap + 1, false), (0, true), (UNIT / 1_000, true)] {
        let ix = six(
            sa::SetBuilderFeeFactor { owner: builder, store: w.store, user: builder_user, event_authority: w.event_authority(), program: STORE_PID },
            si::SetBuilderFeeFactor { factor: f },
        );
        let r = w.send(&[ix], &[builder]);
        m.count(if r.is_ok() { "ix_set_builder_fee_factor_ok" } else { "ix_set_builder_fee_factor_rejected" });
        if r.is_ok() != expect_ok {
            m.count("ix_set_builder_fee_factor_unexpected_outcome");
        }
    }
    let advertised = load::<UserHeader>(&w.svm, &builder_user).map(|u| u.builder_fee_factor()).unwrap_or(0);
    for u in [builder_user, other_user] {
        token::set_token_account(&mut w.svm, token::ata(&u, &usdc_mint), usdc_mint, u, 0);
    }
    let position = w.position_pda(&alice, m0, true, false);
    for it in 0..iters {
        // 1. open / add to the position
        if !w.c32_refresh_prices(btc, sol, usdc) {
            m.count("ix_price_refresh_failed");
            continue;
        }
        let mut req = OrderReq::new(OrderKind::MarketIncrease, m0, true, false);
        req.initial_collateral_delta_amount = 200_000_000;
        req.size_delta_value = 1_000 * UNIT;
        let Ok(o) = w.create_order(alice, &req) else {
            m.count("ix_increase_create_failed");
            continue;
        };
        if !w.c32_refresh_prices(btc, sol, usdc) || w.execute_order(o, true).is_err() {
            m.count("ix_increase_execute_failed");
            let _ = w.close_order(alice, o);
            continue;
        }
        let _ = w.close_order(alice, o);
        // 2. decrease order (pending or executed)
        let size = load::<Position>(&w.svm, &position).map(|p| p.state.size_in_usd).unwrap_or(0);
        let mut req = OrderReq::new(OrderKind::MarketDecrease, m0, true, false);
        req.size_delta_value = if rng.chance(7, 10) { size } else { size / 2 };
        req.initial_collateral_delta_amount = rng.range(0, 50_000_000);
        let Ok(order) = w.create_order(alice, &req) else {
            m.count("ix_decrease_create_failed");
            continue;
        };
        let executed = rng.chance(3, 4);
        if executed {
            if !w.c32_refresh_prices(btc, sol, usdc) || w.execute_order(order, true).is_err() {
                m.count("ix_decrease_execute_failed");
                let _ = w.close_order(alice, order);
                continue;
            }
            m.count("ix_order_executed");
        } else {
            m.count("ix_order_left_pending");
        }
        let Some(o): Option<Order> = load(&w.svm, &order) else {
            m.count("ix_order_missing_after_flow");
            continue;
        };
        if o.builder_fee_amount() != 0 || o.builder().is_some() {
            // would contradict the stated reason for injecting
            m.count("ix_real_flow_recorded_a_builder_fee");
        }
        let escrow = token::ata(&order, &usdc_mint);
        let vault = token::ata(&builder_user, &usdc_mint);
        // 3. choose escrow / recorded amounts
        let natural = token::token_amount(&w.svm, &escrow).unwrap_or(0);
        if rng.chance(1, 4) {
            let v = match rng.below(4) {
                0 => 0,
                1 => 1,
                2 => rng.log_u64(1_000_000_000),
                _ => natural / 2,
            };
            set_token_amount(&mut w, &escrow, v);
            m.count("ix_escrow_balance_injected");
        }
        let e0 = token::token_amount(&w.svm, &escrow).unwrap_or(0);
        let recorded: u64 = match rng.below(10) {
            0 => 0,
            1 => e0,
            2 => e0.saturating_add(1),
            3 => e0.saturating_sub(1),
            4 => u64::MAX,
            5 => 1,
            6 => e0.saturating_mul(2).saturating_add(rng.log_u64(1_000)),
            _ => rng.log_u64(e0.max(2)),
        };
        {
            let acc = w.svm.accounts.get_mut(&order).unwrap();
            acc.data[OFF_AMOUNT..OFF_AMOUNT + 8].copy_from_slice(&recorded.to_le_bytes());
            if recorded != 0 || rng.bool() {
                acc.data[OFF_BUILDER..OFF_BUILDER + 32].copy_from_slice(builder_user.as_ref());
                acc.data[OFF_FACTOR..OFF_FACTOR + 16].copy_from_slice(&advertised.to_le_bytes());
            }
        }
        let Some(o): Option<Order> = load(&w.svm, &order) else {
            m.inconclusive("harness: order unreadable after injection");
            return;
        };
        if o.builder_fee_amount() != recorded || (recorded != 0 && o.builder() != Some(&builder_user)) {
            m.inconclusive("harness: builder field offsets do not match the accessors");
            return;
        }
        // optionally: close before settling must not lose the fee (counted only)
        if recorded != 0 && executed && rng.chance(1, 6) {
            match w.close_order(alice, order) {
                Ok(_) => m.count("ix_close_with_unsettled_fee_ok"),
                Err(_) => m.count("ix_close_with_unsettled_fee_rejected"),
            }
            if w.svm.get(&order).is_none() {
                continue;
            }
        }
        // 4. settle
        let variant = rng.below(12);
        let (bu, with_vault, vname) = match variant {
            0 => (None, false, "no_builder_accounts"),
            1 => (Some(other_user), true, "wrong_builder_user"),
            2 => (Some(builder_user), false, "no_claim_vault"),
            _ => (Some(builder_user), true, "proper"),
        };
        let snap = |w: &World| {
            (
                w.svm.get(&order).cloned(),
                w.svm.get(&escrow).cloned(),
                w.svm.get(&vault).cloned(),
                w.svm.get(&token::ata(&other_user, &usdc_mint)).cloned(),
                token::mint_supply(&w.svm, &usdc_mint),
            )
        };
        let pre = snap(&w);
        let v0 = token::token_amount(&w.svm, &vault).unwrap_or(0);
        let ix = w.c32_settle_ix(order, usdc_mint, bu, with_vault);
        let res = w.send(&[ix.clone()], &[payer]);
        let post = snap(&w);
        let e1 = token::token_amount(&w.svm, &escrow).unwrap_or(0);
        let v1 = token::token_amount(&w.svm, &vault).unwrap_or(0);
        let rec1 = load::<Order>(&w.svm, &order).map(|o| o.builder_fee_amount());
        m.eval();
        let wit = json!({
            "shard": shard, "iter": it, "variant": vname, "order_executed": executed,
            "recorded": recorded, "escrow_before": e0, "escrow_after": e1, "claim_vault_before": v0, "claim_vault_after": v1,
            "recorded_after": rec1, "result": format!("{:?}", res.as_ref().map(|_| ()).map_err(|e| &e.0)),
        });
        match &res {
            Err(_) => {
                m.count(&format!("ix_settle_rejected_{vname}"));
                if pre != post {
                    m.violation("C32:settle:rejected_settlement_changed_state", wit.clone());
                }
                if vname == "proper" || recorded == 0 {
                    m.count("ix_settle_rejected_unexpected");
                    if m.wants_sample() {
                        m.sample(wit.clone());
                    }
                }
            }
            Ok(_) => {
                m.count(&format!("ix_settle_ok_{vname}"));
                let moved_out = e0 as i128 - e1 as i128;
                let moved_in = v1 as i128 - v0 as i128;
                let other_changed = pre.3 != post.3;
                if recorded == 0 {
                    if pre != post {
                        m.violation("C32:settle:zero_record_settlement_not_a_noop", wit.clone());
                    }
                    m.count("ix_settle_noop_zero_record");
                } else {
                    if moved_out != moved_in || pre.4 != post.4 || other_changed && vname != "wrong_builder_user" {
                        m.violation("C32:settle:tokens_not_conserved", wit.clone());
                    }
                    if moved_out > recorded as i128 {
                        m.violation("C32:settle:transferred_more_than_recorded", wit.clone());
                    }
                    if moved_out > e0 as i128 || moved_out < 0 {
                        m.violation("C32:settle:transferred_more_than_escrow_holds", wit.clone());
                    }
                    if vname == "proper" && moved_out != recorded.min(e0) as i128 {
                        m.violation("C32:settle:transferred_differs_from_min_recorded_escrow", wit.clone());
                    }
                    if rec1 != Some(0) {
                        m.violation("C32:settle:record_not_zeroed", wit.clone());
                    }
                    // nothing else of the order changed
                    if let (Some(a), Some(p)) = (&pre.0, &post.0) {
                        let mut a2 = a.data.clone();
                        a2[OFF_AMOUNT..OFF_AMOUNT + 8].copy_from_slice(&0u64.to_le_bytes());
                        if a2 != p.data || a.lamports != p.lamports {
                            m.violation("C32:settle:order_changed_beyond_the_record", wit.clone());
                        }
                    }
                    if vname == "wrong_builder_user" {
                        m.count("ix_settle_paid_to_unrecorded_builder");
                    }
                    let class = if e0 == 0 { 0u8 } else if recorded < e0 { 1 } else if recorded == e0 { 2 } else { 3 };
                    m.count(["ix_settled_escrow_empty", "ix_settled_recorded_lt_escrow", "ix_settled_recorded_eq_escrow", "ix_settled_recorded_gt_escrow"][class as usize]);
                    let mut sig = vec![class, executed as u8];
                    sig.extend_from_slice(&recorded.to_le_bytes());
                    sig.extend_from_slice(&e0.to_le_bytes());
                    m.nontrivial(&sig);
                }
                // 5. repeat: must be a no-op
                let pre2 = snap(&w);
                let res2 = w.send(&[ix], &[payer]);
                let post2 = snap(&w);
                m.eval();
                if pre2 != post2 {
                    m.violation("C32:settle:repeated_settlement_not_a_noop", wit.clone());
                }
                m.count(if res2.is_ok() { "ix_repeat_ok_noop" } else { "ix_repeat_rejected" });
            }
        }
        if m.wants_sample() && it % 23 == 1 {
            m.sample(wit);
        }
        // 6. retire the order
        match w.close_order(alice, order) {
            Ok(_) => m.count("ix_close_after_settle_ok"),
            Err(_) => m.count("ix_close_after_settle_failed"),
        }
    }
}

pub fn run(args: &Args) -> Option<i32> {
    let mut mon = Monitor::new(
        args,
        "part 1: generated (size, factor, unit price min/max, collateral increment, output amount, withdrawal amount, swap \
         type) — realistic magnitudes, zero / unit / >100 % factors, zero / extreme prices, increments and outputs at fee-1 / \
         fee / fee+1 — into the real compute / charge-on-increment / clamp / estimate helpers and Order::record_builder_fee \
         (hooks); BigInt oracle fee = ceil(floor(size*factor/1e20)/price.min). part 2: per shard a real store with a market, \
         real increase then decrease orders (left pending or executed), the order's builder / factor / recorded amount (0, \
         <, =, > escrow, u64::MAX) injected, sometimes the escrow balance too; settle_builder_fee with proper / missing / \
         wrong builder accounts by an unrelated payer, then repeated. non-trivial = (1) a fee computed with a non-zero \
         factor, (2) a settlement of a non-zero record that executed; distinct = hash of the inputs",
    );
    mon.assume("state injection: Order::{builder, builder_fee_factor, builder_fee_amount} (and sometimes the escrow balance) are written into real order accounts because no instruction of the pinned tree can record a builder fee (execution passes factor 0; set_builder_fee does not exist yet)");
    mon.assume("fee value = the program's 20-decimal fixed-point product floor(size*factor/1e20); the amount is that value divided by the minimum unit price, rounded up");
    let direct_shards = args.scale(32, 128);
    let direct_cases = args.scale(120_000, 320_000);
    let ix_shards = args.scale(32, 96);
    let quiet = hostsvm::QuietStdout::new();
    run_shards(&mut mon, args.threads, direct_shards + ix_shards, |shard, m| {
        if shard < direct_shards {
            let mut rng = Rng::derive(args.seed, shard, 32);
            for case in 0..direct_cases {
                direct_case(&mut rng, m, shard, case);
            }
        } else {
            instruction_shard(args, shard - direct_shards, m);
        }
    });
    drop(quiet);
    mon.require("compute_rounded_up", 100_000);
    mon.require("compute_exact_division", 1_000);
    mon.require("increment_ok", 100_000);
    mon.require("increment_failed_explained", 10_000);
    mon.require("increment_fee_consumes_whole_increment", 1_000);
    mon.require("clamp_reduced", 10_000);
    mon.require("clamp_unchanged", 10_000);
    mon.require("record_ok", 10_000);
    mon.require("estimate_ok", 100_000);
    mon.require("ix_settle_ok_proper", 500);
    mon.require("ix_settled_recorded_lt_escrow", 100);
    mon.require("ix_settled_recorded_gt_escrow", 100);
    mon.require("ix_settled_recorded_eq_escrow", 30);
    mon.require("ix_settled_escrow_empty", 30);
    mon.require("ix_repeat_ok_noop", 500);
    mon.require("ix_settle_noop_zero_record", 50);
    Some(mon.finish())
}
