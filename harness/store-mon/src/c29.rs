//! C29 — an adjusted oracle price stays inside the allowed band.
//!
//! Part 1 (direct): the real private `try_adjust_price_with_max_deviation_factor` through the additive
//! hook `verif_try_adjust_price_with_max_deviation_factor` on arbitrary `Price`s (inverted, mixed decimal
//! multipliers), explicit / mid reference, factors 0 .. ≫100 %. BigInt oracle, derived from the
//! statement (not from the code): `R` = reference unit price (explicit, or ⌊(min+max)/2⌋),
//! `D = ⌊R·factor/10^20⌋` (integer bounds: `x ≤ R + R·f` ⇔ `x ≤ R + ⌊R·f⌋`, so flooring is the
//! *least* strict reading), band `[R−D, R+D]`. A produced price must either have both bounds in the
//! band with `min ≤ max`, or be inverted — and an inverted one must be refused by the acceptance step
//! (`SmallPrices::from_price`, hook `verif_from_price`). An out-of-band input that comes back
//! unclamped (`None`) is accepted only for an arithmetic reason (deviation / band edge not
//! representable); these classes are counted.
//!
//! Part 2 (instructions): tokens with `toggle_token_price_adjustment` + `set_feed_config_v2`
//! (max deviation factor), real feed updates whose bid / ask stray from the price, then
//! `set_prices_from_price_feed`; the Oracle account's stored prices must be in band and ordered
//! whenever adjustment is enabled and a factor is configured; never inverted in any case.
use crate::world::{exchange::load, six, World, STORE_PID};
use gmsol_store::states::{
    oracle::{price_map::SmallPrices, verif_try_adjust_price_with_max_deviation_factor},
    Oracle, PriceFeed,
};
use gmsol_store::{accounts as sa, instruction as si};
use gmsol_utils::price::{Decimal, Price};
use vcommon::{
    big::{b, div_ceil, div_floor, pow10},
    json,
    monitor::{guard, run_shards},
    num_bigint::BigInt,
    Args, Monitor, Rng,
};

const UNIT: u128 = crate::world::UNIT;

fn unit(d: &Decimal) -> BigInt {
    b(d.value) * pow10(d.decimal_multiplier as u32)
}

fn gen_factor(rng: &mut Rng) -> u128 {
    match rng.below(14) {
        0 => 0,
        1 => 1,
        2 => 10u128.pow(12),
        3 => UNIT / 10_000,
        4 => UNIT / 100,
        5 => UNIT / 10,
        6 => UNIT,
        7 => UNIT + UNIT / 2,
        8 => UNIT - 1,
        9 => UNIT + 1,
        10 => rng.range_u128(1, 4_294) * 10u128.pow(18),
        11 => rng.biased_u128(u128::MAX, UNIT),
        _ => rng.log_u128(2 * UNIT),
    }
}

fn gen_value(rng: &mut Rng) -> u32 {
    match rng.below(8) {
        0 => *rng.pick(&[0u32, 1, 2, 3, u32::MAX, u32::MAX - 1, u32::MAX / 2]),
        1 => u32::MAX - rng.log_u64(100_000) as u32,
        _ => rng.log_u64(u32::MAX as u64) as u32,
    }
}

/// Value (in steps of `10^mult`) closest to `target` unit price, with noise.
fn near(rng: &mut Rng, target: &BigInt, mult: u8) -> u32 {
    let step = pow10(mult as u32);
    let base = if rng.bool() { div_floor(target, &step) } else { div_ceil(target, &step) };
    let noise = match rng.below(5) {
        0 => 1,
        1 => -1,
        2 => rng.log_u64(1_000) as i64,
        3 => -(rng.log_u64(1_000) as i64),
        _ => 0,
    };
    let v = base + noise;
    if v < b(0) {
        0
    } else if v > b(u32::MAX) {
        u32::MAX
    } else {
        u32::try_from(v).unwrap_or(u32::MAX)
    }
}

struct Band {
    r: BigInt,
    d: BigInt,
    lo: BigInt,
    hi: BigInt,
}

fn band(price: &Price, ref_price: Option<&Decimal>, factor: u128) -> Band {
    let r = match ref_price {
        Some(d) => unit(d),
        None => div_floor(&(unit(&price.min) + unit(&price.max)), &b(2)),
    };
    let d = div_floor(&(&r * b(factor)), &b(UNIT));
    Band { lo: &r - &d, hi: &r + &d, r, d }
}

fn direct_case(rng: &mut Rng, m: &mut Monitor, shard: u64, case: u64) {
    let factor = gen_factor(rng);
    let same_mult = rng.chance(3, 5);
    let m0 = rng.range(0, 20) as u8;
    let (mm, mx, mr) = if same_mult {
        (m0, m0, m0)
    } else {
        (rng.range(0, 20) as u8, rng.range(0, 20) as u8, rng.range(0, 20) as u8)
    };
    let rd = Decimal { value: gen_value(rng), decimal_multiplier: mr };
    let r_unit = unit(&rd);
    let d0 = div_floor(&(&r_unit * b(factor)), &b(UNIT));
    // place the bounds relative to the band of the explicit reference
    let place = |rng: &mut Rng, mult: u8| -> u32 {
        let k = rng.below(12);
        let t: BigInt = match k {
            0 => &r_unit - &d0,
            1 => &r_unit + &d0,
            2 => &r_unit - &d0 - 1,
            3 => &r_unit + &d0 + 1,
            4 => r_unit.clone(),
            5 => &r_unit - &d0 * 2,
            6 => &r_unit + &d0 * 2,
            7 => &r_unit - div_floor(&d0, &b(2)),
            8 => &r_unit + div_floor(&d0, &b(2)),
            9 => &r_unit + &d0 * 1000,
            _ => return gen_value(rng),
        };
        near(rng, &t, mult)
    };
    let mut price = Price {
        min: Decimal { value: place(rng, mm), decimal_multiplier: mm },
        max: Decimal { value: place(rng, mx), decimal_multiplier: mx },
    };
    if rng.chance(2, 3) && unit(&price.min) > unit(&price.max) {
        // mostly ordered inputs, some inverted
        std::mem::swap(&mut price.min.value, &mut price.max.value);
    }
    let ref_price = if rng.chance(3, 4) { Some(rd) } else { None };
    let res = guard(|| verif_try_adjust_price_with_max_deviation_factor(&factor, &price, ref_price.as_ref()));
    m.eval();
    let wit = |out: &str| {
        json!({
            "shard": shard, "case": case, "factor": factor.to_string(),
            "price": {"min": [price.min.value, price.min.decimal_multiplier], "max": [price.max.value, price.max.decimal_multiplier]},
            "ref": ref_price.map(|d| vec![d.value as u64, d.decimal_multiplier as u64]),
            "result": out,
        })
    };
    let res = match res {
        Ok(r) => r,
        Err(p) => {
            m.count("direct_panics");
            if m.wants_sample() {
                m.sample(wit(&format!("panic: {p}")));
            }
            return;
        }
    };
    let bd = band(&price, ref_price.as_ref(), factor);
    let in_band = |x: &BigInt| *x >= bd.lo && *x <= bd.hi;
    let (umin, umax) = (unit(&price.min), unit(&price.max));
    let max_oob = !in_band(&umax);
    let min_oob = !in_band(&umin);
    let input_class = format!(
        "{}{}{}{}",
        if max_oob { "maxOut" } else { "maxIn" },
        if min_oob { "_minOut" } else { "_minIn" },
        if umin > umax { "_inverted" } else { "" },
        if same_mult { "" } else { "_mixedMult" }
    );
    match res {
        Some(p) => {
            let (pmin, pmax) = (unit(&p.min), unit(&p.max));
            let inverted = pmin > pmax;
            let ok_band = in_band(&pmin) && in_band(&pmax);
            let out = format!("Some(min=({},{}), max=({},{}))", p.min.value, p.min.decimal_multiplier, p.max.value, p.max.decimal_multiplier);
            m.count("direct_adjusted");
            if !inverted && !ok_band {
                m.violation("C29:adjust:produced_price_out_of_band", wit(&out));
            } else if inverted {
                m.count("direct_adjusted_inverted");
                // must be refused by the acceptance step
                match guard(|| SmallPrices::verif_from_price(&p, false, true)) {
                    Ok(Ok(_)) => m.violation("C29:adjust:inverted_price_accepted_downstream", wit(&out)),
                    Ok(Err(_)) => m.count("direct_inverted_refused_downstream"),
                    Err(_) => m.count("direct_panics"),
                }
            } else {
                m.count("direct_adjusted_in_band");
                let on_edge = pmax == div_floor(&bd.hi, &pow10(p.max.decimal_multiplier as u32)) * pow10(p.max.decimal_multiplier as u32)
                    || pmin == div_ceil(&bd.lo, &pow10(p.min.decimal_multiplier as u32)) * pow10(p.min.decimal_multiplier as u32);
                if on_edge {
                    m.count("direct_adjusted_on_grid_edge");
                }
                let accepted = matches!(guard(|| SmallPrices::verif_from_price(&p, false, true)), Ok(Ok(_)));
                if accepted {
                    m.count("direct_adjusted_in_band_accepted_downstream");
                }
                m.nontrivial(format!("adj|{input_class}|{}|{accepted}|{on_edge}|{mm},{mx},{mr}|{}", ref_price.is_some(), 128 - factor.leading_zeros()).as_bytes());
            }
        }
        None => {
            if !max_oob && !min_oob {
                m.count("direct_none_input_in_band");
                return;
            }
            // Out-of-band input left unclamped: only for an arithmetic reason.
            let u128max = b(u128::MAX);
            let mut reasons: Vec<&str> = vec![];
            if bd.d > u128max {
                reasons.push("deviation_exceeds_u128");
            }
            if max_oob {
                if bd.hi > u128max {
                    reasons.push("upper_edge_exceeds_u128");
                } else if div_floor(&bd.hi, &pow10(price.max.decimal_multiplier as u32)) > b(u32::MAX) {
                    reasons.push("upper_edge_exceeds_u32_grid");
                }
            }
            if min_oob {
                if bd.d > bd.r {
                    reasons.push("lower_edge_negative");
                } else if div_ceil(&bd.lo, &pow10(price.min.decimal_multiplier as u32)) > b(u32::MAX) {
                    reasons.push("lower_edge_exceeds_u32_grid");
                }
            }
            if reasons.is_empty() {
                m.violation("C29:adjust:out_of_band_input_left_unclamped", wit("None"));
            } else {
                for r in &reasons {
                    m.count(&format!("direct_declined_{r}"));
                }
                m.nontrivial(format!("declined|{input_class}|{}|{mm},{mx},{mr}", reasons.join("+")).as_bytes());
            }
        }
    }
    if m.wants_sample() && case % 100_003 == 17 {
        m.sample(wit(&format!("{:?}", res.map(|p| (p.min.value, p.min.decimal_multiplier, p.max.value, p.max.decimal_multiplier)))));
    }
}

// ------------------------------------------------------------------------------------------------
// Instruction level

fn provider_u8() -> u8 {
    gmsol_utils::oracle::PriceProviderKind::ChainlinkDataStreams as u8
}

impl World {
    fn c29_toggle_adjustment(&mut self, token: usize, enable: bool) -> crate::world::TxResult {
        let (keeper, store, token_map) = (self.keeper, self.store, self.token_map);
        let mint = self.tokens[token].mint;
        self.send(
            &[six(sa::ToggleTokenConfig { authority: keeper, store, token_map }, si::ToggleTokenPriceAdjustment { token: mint, enable })],
            &[keeper],
        )
    }

    fn c29_set_max_deviation(&mut self, token: usize, factor: u128) -> crate::world::TxResult {
        let (keeper, store, token_map) = (self.keeper, self.store, self.token_map);
        let mint = self.tokens[token].mint;
        self.send(
            &[six(
                sa::SetFeedConfig { authority: keeper, store, token_map },
                si::SetFeedConfigV2 { token: mint, provider: provider_u8(), feed: None, timestamp_adjustment: None, max_deviation_factor: Some(factor) },
            )],
            &[keeper],
        )
    }

    fn c29_set_prices(&mut self, token: usize) -> crate::world::TxResult {
        let (keeper, store, token_map, oracle) = (self.keeper, self.store, self.token_map, self.oracle);
        let mint = self.tokens[token].mint;
        let mut ix = six(
            sa::SetPricesFromPriceFeed { authority: keeper, store, oracle, token_map, chainlink_program: None },
            si::SetPricesFromPriceFeed { tokens: vec![mint] },
        );
        ix.accounts.extend(self.feed_metas(&[mint]));
        self.send(&[ix], &[keeper])
    }

    fn c29_clear(&mut self) -> crate::world::TxResult {
        let (keeper, store, oracle) = (self.keeper, self.store, self.oracle);
        self.send(&[six(sa::ClearAllPrices { authority: keeper, store, oracle }, si::ClearAllPrices {})], &[keeper])
    }
}

struct TokCfg {
    idx: usize,
    decimals: u8,
    precision: u8,
    adjust: bool,
    factor: Option<u128>,
}

fn instruction_shard(args: &Args, shard: u64, m: &mut Monitor) {
    let mut rng = Rng::derive(args.seed, shard, 2929);
    let iters = args.scale(900, 2_400);
    let mut w = World::bootstrap_store();
    w.bootstrap_oracle();
    let mut toks = vec![];
    for (name, dec, prec, synth) in [("BTC", 8u8, 2u8, true), ("SOL", 9, 4, false), ("USDC", 6, 6, false), ("MEME", 5, 9, true), ("COARSE", 9, 0, true)] {
        let idx = w.add_token(name, dec, prec, synth);
        toks.push(TokCfg { idx, decimals: dec, precision: prec, adjust: false, factor: None });
    }
    let factors: [u128; 12] = [
        0,
        10u128.pow(12),
        10u128.pow(15),
        UNIT / 10_000,
        UNIT / 1_000 + 7 * 10u128.pow(12),
        UNIT / 100,
        UNIT / 100 + 3 * 10u128.pow(12),
        UNIT / 10,
        UNIT / 2,
        UNIT,
        UNIT + UNIT / 2,
        4_000 * 10u128.pow(18),
    ];
    for it in 0..iters {
        w.svm.warp(rng.range(0, 3) as i64);
        let ti = rng.below(toks.len() as u64) as usize;
        if rng.chance(1, 3) {
            let en = rng.chance(4, 5);
            if w.c29_toggle_adjustment(toks[ti].idx, en).is_ok() {
                toks[ti].adjust = en;
                m.count("ix_toggle_adjustment");
            }
        }
        if rng.chance(1, 3) {
            let f = *rng.pick(&factors);
            match w.c29_set_max_deviation(toks[ti].idx, f) {
                Ok(_) => {
                    toks[ti].factor = if f == 0 { None } else { Some(f) };
                    m.count("ix_set_max_deviation_ok");
                }
                Err(_) => m.count("ix_set_max_deviation_rejected"),
            }
        }
        let t = &toks[ti];
        // price value in steps of the token's precision: mostly mid-range, sometimes near the u32 limits
        let steps: u128 = match rng.below(8) {
            0 => u32::MAX as u128 - rng.log_u64(1_000) as u128,
            1 => rng.range(1, 20) as u128,
            2 => u32::MAX as u128 / 2 + rng.range(0, 10) as u128,
            _ => rng.log_u64(u32::MAX as u64).max(1) as u128,
        };
        // 18-decimal USD price of one whole token: steps / 10^precision (+ sub-step noise)
        let e18 = |s: u128| -> u128 {
            if t.precision <= 18 {
                s * 10u128.pow(18 - t.precision as u32)
            } else {
                s / 10u128.pow(t.precision as u32 - 18)
            }
        };
        let sub = if t.precision < 18 { rng.below_u128(10u128.pow(18 - t.precision as u32)) } else { 0 };
        let price = e18(steps) + if rng.bool() { sub } else { 0 };
        let f = t.factor.unwrap_or(UNIT / 100);
        let dev = vcommon::big::to_u128(&(b(price) * b(f) / b(UNIT))).unwrap_or(u128::MAX / 4).min(u128::MAX / 4);
        let stray = |rng: &mut Rng| -> u128 {
            match rng.below(9) {
                0 => 0,
                1 => dev,
                2 => dev + 1 + rng.log_u128(e18(2)),
                3 => dev.saturating_sub(1 + rng.log_u128(e18(2))),
                4 => dev * 2,
                5 => dev / 2,
                6 => rng.log_u128(price.max(1)),
                7 => dev + e18(1),
                _ => rng.log_u128(dev.max(1) * 3),
            }
        };
        let bid = price.saturating_sub(stray(&mut rng));
        let ask = price.saturating_add(stray(&mut rng));
        if w.set_price(t.idx, bid, price, ask).is_err() {
            m.count("ix_feed_update_rejected");
            continue;
        }
        m.count("ix_feed_update_ok");
        let res = w.c29_set_prices(t.idx);
        m.eval();
        let mint = w.tokens[t.idx].mint;
        match res {
            Err((e, _)) => {
                m.count(&format!("ix_set_prices_rejected_{}", e.custom_code().map(|c| c.to_string()).unwrap_or_else(|| "other".into())));
            }
            Ok(_) => {
                m.count("ix_set_prices_ok");
                let Some(oracle) = load::<Oracle>(&w.svm, &w.oracle) else {
                    m.inconclusive("harness: oracle account unreadable");
                    return;
                };
                let Ok(stored) = oracle.get_primary_price(&mint, true) else {
                    m.inconclusive("harness: accepted price not readable from the oracle account");
                    return;
                };
                // reference from the feed account (what the program used)
                let Some(feed) = load::<PriceFeed>(&w.svm, &w.tokens[t.idx].feed) else {
                    m.inconclusive("harness: feed unreadable");
                    return;
                };
                let feed_decimals = w.svm.get(&w.tokens[t.idx].feed).map(|a| a.data[8 + 160]).unwrap_or(18);
                let fp = feed.price();
                let conv = |x: u128| Decimal::try_from_price(x, feed_decimals, t.decimals, t.precision).ok();
                let (Some(rd), Some(fmin), Some(fmax)) = (conv(*fp.price()), conv(*fp.min_price()), conv(*fp.max_price())) else {
                    m.inconclusive("harness: cannot convert the feed price like the program does");
                    return;
                };
                let wit = json!({
                    "shard": shard, "iter": it, "token": w.tokens[t.idx].name, "token_decimals": t.decimals, "precision": t.precision,
                    "adjustment_enabled": t.adjust, "max_deviation_factor": t.factor.map(|f| f.to_string()),
                    "report": {"bid": bid.to_string(), "price": price.to_string(), "ask": ask.to_string()},
                    "stored_unit_prices": {"min": stored.min.to_string(), "max": stored.max.to_string()},
                    "ref_unit_price": unit(&rd).to_string(),
                });
                if stored.min > stored.max {
                    m.violation("C29:set_prices:inverted_price_stored", wit.clone());
                }
                if let (true, Some(f)) = (t.adjust, t.factor) {
                    let r = unit(&rd);
                    let d = div_floor(&(&r * b(f)), &b(UNIT));
                    let (lo, hi) = (&r - &d, &r + &d);
                    let (smin, smax) = (b(stored.min), b(stored.max));
                    let feed_out = unit(&fmin) < lo || unit(&fmax) > hi;
                    if smin < lo || smax > hi || smin > hi || smax < lo {
                        m.violation("C29:set_prices:out_of_band_price_stored", wit.clone());
                    }
                    if feed_out {
                        m.count("ix_accepted_after_clamp");
                        let side = (unit(&fmin) < lo) as u8 + 2 * (unit(&fmax) > hi) as u8;
                        let edge = (smin == div_ceil(&lo, &pow10(rd.decimal_multiplier as u32)) * pow10(rd.decimal_multiplier as u32)) as u8
                            + 2 * (smax == div_floor(&hi, &pow10(rd.decimal_multiplier as u32)) * pow10(rd.decimal_multiplier as u32)) as u8;
                        m.nontrivial(format!("ix|{}|{f}|{side}|{edge}", t.idx).as_bytes());
                    } else {
                        m.count("ix_accepted_feed_already_in_band");
                    }
                } else if t.factor.is_some() {
                    m.count("ix_accepted_adjustment_disabled_factor_set");
                } else {
                    m.count("ix_accepted_no_factor");
                }
                if m.wants_sample() && it % 97 == 3 {
                    m.sample(wit);
                }
            }
        }
        if w.c29_clear().is_err() {
            m.inconclusive("harness: clear_all_prices failed");
            return;
        }
    }
}

pub fn run(args: &Args) -> Option<i32> {
    let mut mon = Monitor::new(
        args,
        "part 1: generated (factor, Price{min,max} with independent decimal multipliers 0..=20 and u32 values placed at / \
         just inside / just outside / far outside the band edges or random, inverted inputs, explicit reference or mid) fed to \
         the real try_adjust_price_with_max_deviation_factor (hook); BigInt band oracle; inverted results must be refused by \
         SmallPrices::from_price (hook). part 2: five tokens (decimals/precision 8/2, 9/4, 6/6, 5/9, 9/0) with price \
         adjustment toggled and max deviation factors 1e-8..4000 % set through the real instructions, real chainlink feed \
         updates with bid/ask straying 0..≫ the deviation, then set_prices_from_price_feed and a read of the Oracle \
         account. non-trivial = (1) an adjustment that produced an in-band ordered price or was declined for an arithmetic \
         reason, (2) an accepted instruction-level price whose feed bounds were out of band (i.e. clamped); distinct = hash \
         of (input class, reference kind, downstream acceptance, edge class / decline reasons, the three decimal multipliers, bit length of the factor) resp. (token, factor, side, edge)",
    );
    mon.assume("decimal multipliers are limited to 0..=20 (Decimal::MAX_DECIMAL_MULTIPLIER); larger ones cannot be produced by Decimal::try_from_price");
    mon.assume("part 2 feeds are written only through the real update instruction (so bid ≤ price ≤ ask); reference = the feed's price converted with Decimal::try_from_price like the program does");
    let direct_shards = args.scale(32, 128);
    let direct_cases = args.scale(150_000, 400_000);
    let ix_shards = args.scale(32, 128);
    let quiet = hostsvm::QuietStdout::new();
    run_shards(&mut mon, args.threads, direct_shards + ix_shards, |shard, m| {
        if shard < direct_shards {
            let mut rng = Rng::derive(args.seed, shard, 29);
            for case in 0..direct_cases {
                direct_case(&mut rng, m, shard, case);
            }
        } else {
            instruction_shard(args, shard - direct_shards, m);
        }
    });
    drop(quiet);
    let _ = STORE_PID;
    mon.require("direct_adjusted_in_band", 100_000);
    mon.require("direct_adjusted_on_grid_edge", 10_000);
    mon.require("direct_adjusted_inverted", 1_000);
    mon.require("direct_inverted_refused_downstream", 1_000);
    mon.require("direct_none_input_in_band", 10_000);
    mon.require("direct_declined_lower_edge_negative", 100);
    mon.require("direct_declined_upper_edge_exceeds_u32_grid", 100);
    mon.require("ix_set_prices_ok", 2_000);
    mon.require("ix_accepted_after_clamp", 500);
    mon.require("ix_accepted_feed_already_in_band", 200);
    Some(mon.finish())
}
