//! Monitor for C29 (see /verif/DESIGN.md §5 C29).
use vcommon::Args;

pub fn run(_args: &Args) -> Option<i32> {
    None
}
