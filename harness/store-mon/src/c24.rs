//! C24 — only fresh, well-formed, in-band oracle prices are used.
//!
//! Part A (acceptance): random feed contents / timestamps / clock moves / oracle settings, then the real
//! `set_prices_from_price_feed` instruction with random token/feed lists. Whenever it succeeds (the
//! oracle now holds prices) the acceptance conditions are recomputed independently from the inputs
//! (the `PriceFeed` accounts, the store settings we configured, the clock). Part B (clearing): the
//! exchange workload (`sim.rs`); after every successful `execute_*`/position-cut/ADL-state transaction
//! — completed or soft-failed — the oracle account must be cleared.
use crate::sim::{Op, Sim};
use crate::world::{exchange::load, *};
use anchor_lang::prelude::*;
use gmsol_store::{accounts as sa, instruction as si, states::{Oracle, PriceFeed}};
use gmsol_utils::oracle::PriceProviderKind;
use vcommon::{
    big::{b, pow10},
    json,
    monitor::run_shards,
    num_bigint::BigInt,
    Args, Monitor, Rng,
};

struct Settings {
    max_age: u64,
    max_range: u64,
    max_future: u64,
    /// per token: (timestamp adjustment, max deviation factor)
    per_token: Vec<(u32, Option<u128>)>,
}

fn set_prices_ix(w: &World, authority: Pubkey, tokens: &[Pubkey], feeds: &[Pubkey]) -> Instruction {
    let mut ix = six(
        sa::SetPricesFromPriceFeed {
            authority,
            store: w.store,
            oracle: w.oracle,
            token_map: w.token_map,
            chainlink_program: None,
        },
        si::SetPricesFromPriceFeed { tokens: tokens.to_vec() },
    );
    ix.accounts.extend(feeds.iter().map(|f| AccountMeta::new_readonly(*f, false)));
    ix
}

fn clear_ix(w: &World, authority: Pubkey) -> Instruction {
    six(sa::ClearAllPrices { authority, store: w.store, oracle: w.oracle }, si::ClearAllPrices {})
}

use anchor_lang::solana_program::instruction::{AccountMeta, Instruction};

/// Exact unit price (USD·10^20 per smallest token unit) of a feed price as a rational `num/den`.
fn unit_price_rational(value: u128, feed_decimals: u8, token_decimals: u8) -> (BigInt, BigInt) {
    // value / 10^feed_decimals USD per whole token → × 10^20 / 10^token_decimals
    let num = b(value) * pow10(20);
    let den = pow10(feed_decimals as u32 + token_decimals as u32);
    (num, den)
}

/// `PriceFeedPrice.decimals` is the first byte of the zero-copy struct (no public accessor).
fn feed_decimals(fp: &gmsol_store::states::PriceFeedPrice) -> u8 {
    bytemuck::bytes_of(fp)[0]
}

fn part_a(args: &Args, shard: u64, m: &mut Monitor) {
    let mut rng = Rng::derive(args.seed, shard, 0x24);
    let mut w = World::bootstrap_store();
    w.bootstrap_oracle();
    let toks = [
        w.add_token("BTC", 8, 2, true),
        w.add_token("SOL", 9, 4, false),
        w.add_token("USDC", 6, 6, false),
        w.add_token("ETH", 8, 3, true),
    ];
    let keeper = w.keeper;
    let mut s = Settings { max_age: 3600, max_range: 300, max_future: 0, per_token: vec![(0, None); 4] };
    let rounds = args.scale(120, 400);
    for round in 0..rounds {
        // --- settings
        if rng.chance(1, 3) {
            s.max_age = *rng.pick(&[0u64, 1, 5, 30, 60, 3600, 3600]);
            let _ = w.insert_amount("oracle_max_age", s.max_age);
        }
        if rng.chance(1, 3) {
            s.max_range = *rng.pick(&[0u64, 1, 3, 10, 300, 300]);
            let _ = w.insert_amount("oracle_max_timestamp_range", s.max_range);
        }
        if rng.chance(1, 3) {
            s.max_future = *rng.pick(&[0u64, 1, 5, 60]);
            let _ = w.insert_amount("oracle_max_future_timestamp_excess", s.max_future);
        }
        if rng.chance(1, 2) {
            let t = rng.below(4) as usize;
            let adj = *rng.pick(&[0u32, 1, 2, 10, 100]);
            let dev: Option<u128> = match rng.below(4) {
                0 => None,
                1 => Some(UNIT / 1000),
                2 => Some(UNIT / 100),
                _ => Some(UNIT / 10),
            };
            let ix = six(
                sa::SetFeedConfig { authority: keeper, store: w.store, token_map: w.token_map },
                si::SetFeedConfigV2 {
                    token: w.tokens[toks[t]].mint,
                    provider: PriceProviderKind::ChainlinkDataStreams as u8,
                    feed: None,
                    timestamp_adjustment: Some(adj),
                    max_deviation_factor: dev,
                },
            );
            if w.send(&[ix], &[keeper]).is_ok() {
                // `None` keeps the previous factor (only Some updates) — track accordingly.
                s.per_token[t].0 = adj;
                if dev.is_some() {
                    s.per_token[t].1 = dev;
                }
                m.count("feed_config_updates");
            }
        }
        // --- clock and feeds
        w.svm.warp(rng.range_i64(1, 15));
        for (i, t) in toks.iter().enumerate() {
            if rng.chance(1, 12) {
                continue; // leave this feed stale
            }
            let now = w.svm.clock.unix_timestamp;
            let ts = now - *rng.pick(&[0i64, 0, 0, 0, 1, 1, 2, 5, 8]) + if rng.chance(1, 8) { rng.range_i64(1, 6) } else { 0 };
            let base: u128 = [60_000u128, 150, 1, 3_000][i] * crate::sim::E18;
            let price = base / 1000 * rng.range(900, 1100) as u128;
            let (bid, ask) = match rng.below(4) {
                0 => (price, price),
                1 => (price - price / 10_000, price + price / 10_000),
                2 => (price - price / 100 * rng.range(0, 30) as u128, price + price / 100 * rng.range(0, 30) as u128),
                _ => (price - price / 1000 * rng.range(0, 20) as u128, price + price / 1000 * rng.range(0, 20) as u128),
            };
            let r = w.report_for(*t, b(bid), b(price), b(ask), ts);
            let ix = w.update_feed_ix(*t, r.compressed_full_report(), rng.bool(), keeper);
            if w.send(&[ix], &[keeper]).is_ok() {
                m.count("feed_updates_accepted");
            } else {
                m.count("feed_updates_rejected");
            }
        }
        w.svm.warp(*rng.pick(&[0i64, 0, 0, 1, 2, 5, 12]));
        // --- the instruction under observation
        let n = rng.range(1, 4) as usize;
        let mut order: Vec<usize> = (0..4).collect();
        rng.shuffle(&mut order);
        let sel: Vec<usize> = order[..n].to_vec();
        let tokens: Vec<Pubkey> = sel.iter().map(|i| w.tokens[toks[*i]].mint).collect();
        let mut feeds: Vec<Pubkey> = sel.iter().map(|i| w.tokens[toks[*i]].feed).collect();
        let mut swapped_feed = false;
        if rng.chance(1, 8) {
            // fault: another token's feed for the first token
            let other = (sel[0] + 1 + rng.below(3) as usize) % 4;
            feeds[0] = w.tokens[toks[other]].feed;
            swapped_feed = true;
        }
        let pre_oracle_cleared = load::<Oracle>(&w.svm, &w.oracle).map(|o| o.is_cleared()).unwrap_or(false);
        let res = w.send(&[set_prices_ix(&w, keeper, &tokens, &feeds)], &[keeper]);
        m.eval();
        let now = w.svm.clock.unix_timestamp;
        match res {
            Err(_) => {
                m.count("set_prices_rejected");
            }
            Ok(_) => {
                m.count("set_prices_accepted");
                m.nontrivial(format!("accepted:{n}:{}:{}:{}", s.max_age, s.max_range, s.max_future).as_bytes());
                let wit = |what: &str, extra: serde_json::Value| {
                    json!({"shard": shard, "round": round, "what": what, "tokens": sel, "now": now,
                           "max_age": s.max_age, "max_range": s.max_range, "max_future": s.max_future, "extra": extra})
                };
                if m.wants_sample() && round % 11 == 3 {
                    m.sample(wit("accepted set_prices re-derived from report fields", json!({"feed_swapped": swapped_feed})));
                }
                if !pre_oracle_cleared {
                    m.violation("C24:set_prices:accepted_although_prices_already_set", wit("oracle was not cleared", json!({})));
                }
                if swapped_feed {
                    m.violation("C24:set_prices:unexpected_feed_accepted", wit("feed of another token accepted", json!({})));
                }
                let Some(oracle) = load::<Oracle>(&w.svm, &w.oracle) else {
                    m.inconclusive("oracle account unreadable");
                    return;
                };
                if oracle.is_cleared() {
                    m.violation("C24:set_prices:succeeded_but_oracle_cleared", wit("", json!({})));
                }
                let mut adj_min = i64::MAX;
                let mut adj_max = i64::MIN;
                for (k, i) in sel.iter().enumerate() {
                    let info = &w.tokens[toks[*i]];
                    let Some(feed) = load::<PriceFeed>(&w.svm, &feeds[k]) else {
                        continue;
                    };
                    let fp = feed.price();
                    let ts = fp.ts();
                    let (adj, dev) = s.per_token[*i];
                    let adj_ts = ts - adj as i64;
                    adj_min = adj_min.min(adj_ts);
                    adj_max = adj_max.max(adj_ts);
                    if (adj_ts as i128) + (s.max_age as i128) < now as i128 {
                        m.violation("C24:set_prices:stale_price_accepted", wit("adjusted ts + max age < now", json!({"token": info.name, "ts": ts, "adj": adj})));
                    }
                    if (now as i128) + (s.max_future as i128) < ts as i128 {
                        m.violation("C24:set_prices:future_price_accepted", wit("ts > now + max future excess", json!({"token": info.name, "ts": ts})));
                    }
                    let Ok(stored) = oracle.get_primary_price(&info.mint, true) else {
                        m.violation("C24:set_prices:accepted_token_has_no_price", wit("", json!({"token": info.name})));
                        continue;
                    };
                    if stored.min == 0 || stored.min > stored.max {
                        m.violation("C24:set_prices:malformed_price_stored", wit("0 < min <= max violated", json!({"token": info.name, "min": stored.min.to_string(), "max": stored.max.to_string()})));
                    }
                    // stored bounds never outside the feed's own [min, max] (conversion truncates)
                    let (min_n, min_d) = unit_price_rational(*fp.min_price(), feed_decimals(fp), info.decimals);
                    let (max_n, max_d) = unit_price_rational(*fp.max_price(), feed_decimals(fp), info.decimals);
                    if b(stored.max) * &max_d > max_n {
                        m.violation("C24:set_prices:stored_max_above_feed_max", wit("", json!({"token": info.name})));
                    }
                    if b(stored.min) * &min_d > min_n {
                        m.violation("C24:set_prices:stored_min_above_feed_min", wit("", json!({"token": info.name})));
                    }
                    // deviation from the reference (the feed's own `price`)
                    if let Some(f) = dev {
                        let (ref_n, ref_d) = unit_price_rational(*fp.price(), feed_decimals(fp), info.decimals);
                        // |p - ref| <= ref*f/UNIT + ref*1e-5 (slack for the decimal rounding of the band)
                        for (name, p) in [("max", stored.max), ("min", stored.min)] {
                            let diff = (b(p) * &ref_d - &ref_n).magnitude().clone();
                            let diff = BigInt::from(diff);
                            // diff/ref_d <= ref_n/ref_d * (f/UNIT + 1e-5)  ⇔ diff*UNIT*1e5 <= ref_n*(f*1e5 + UNIT)
                            let lhs = diff * b(UNIT) * b(100_000u64);
                            let rhs = &ref_n * (b(f) * b(100_000u64) + b(UNIT));
                            if lhs > rhs {
                                m.violation(
                                    "C24:set_prices:out_of_band_price_accepted",
                                    wit("stored bound deviates from the reference by more than the configured factor", json!({"token": info.name, "bound": name, "stored": p.to_string(), "factor": f.to_string(), "feed_price": fp.price().to_string(), "feed_min": fp.min_price().to_string(), "feed_max": fp.max_price().to_string()})),
                                );
                            }
                        }
                        m.count("deviation_checked");
                    }
                }
                if adj_max >= adj_min && (adj_max - adj_min) as i128 > s.max_range as i128 {
                    m.violation("C24:set_prices:timestamp_range_exceeded", wit("spread of adjusted timestamps > max range", json!({"min": adj_min, "max": adj_max})));
                }
                if oracle.min_oracle_ts() != adj_min || oracle.max_oracle_ts() != adj_max {
                    m.count("oracle_ts_range_differs_from_model");
                }
                // second set without clearing must be refused
                if rng.chance(1, 3) {
                    if w.send(&[set_prices_ix(&w, keeper, &tokens, &feeds)], &[keeper]).is_ok() {
                        m.violation("C24:set_prices:accepted_although_prices_already_set", wit("second set_prices succeeded", json!({})));
                    } else {
                        m.count("second_set_rejected");
                    }
                }
                if w.send(&[clear_ix(&w, keeper)], &[keeper]).is_err() {
                    m.inconclusive("clear_all_prices failed");
                    return;
                }
            }
        }
    }
}


/// Part C (expected provider): every token gets a second, Pyth feed registered next to its custom
/// Chainlink-Data-Streams feed; `expected_provider` is switched at random. A fresh, fully verified Pyth
/// `PriceUpdateV2` account (owned by the Pyth receiver program id) or the token's fresh custom feed is
/// then offered to `set_prices_from_price_feed`. A price whose provider is not the expected one, or
/// whose feed id is not the configured one, must never be accepted.
fn part_c(args: &Args, shard: u64, m: &mut Monitor) {
    use anchor_lang::AccountSerialize;
    use pyth_solana_receiver_sdk::price_update::{PriceFeedMessage, PriceUpdateV2, VerificationLevel};
    let mut rng = Rng::derive(args.seed, shard, 0x24C);
    let mut w = World::bootstrap_store();
    w.bootstrap_oracle();
    let toks = [w.add_token("WBTC", 8, 2, false), w.add_token("SOL", 9, 4, false), w.add_token("USDC", 6, 6, false)];
    let keeper = w.keeper;
    let pyth_program = pyth_solana_receiver_sdk::ID;
    let pyth_feed_ids: Vec<Pubkey> = (0..3).map(|i| hostsvm::key(&format!("c24-pyth-feed-{i}"))).collect();
    let _ = w.insert_amount("oracle_max_age", 3600);
    for (i, t) in toks.iter().enumerate() {
        // a feed can only be registered for a further provider by re-pushing the token config
        let info = &w.tokens[*t];
        let builder = gmsol_store::states::UpdateTokenConfigParams::default()
            .update_price_feed(&PriceProviderKind::ChainlinkDataStreams, info.feed_id, None)
            .and_then(|b| b.update_price_feed(&PriceProviderKind::Pyth, pyth_feed_ids[i], None));
        let Ok(builder) = builder else {
            m.inconclusive("cannot build a two-provider token config");
            return;
        };
        let builder = builder.with_expected_provider(PriceProviderKind::ChainlinkDataStreams).with_precision(info.precision);
        let ix = six(
            sa::PushToTokenMap { authority: keeper, store: w.store, token_map: w.token_map, token: info.mint, system_program: anchor_lang::system_program::ID },
            si::PushToTokenMap { name: info.name.clone(), builder, enable: true, new: false },
        );
        if w.send(&[ix], &[keeper]).is_err() {
            m.inconclusive("cannot register a Pyth feed config");
            return;
        }
    }
    let mut expected = [PriceProviderKind::ChainlinkDataStreams; 3];
    let rounds = args.scale(90, 300);
    for round in 0..rounds {
        w.svm.warp(rng.range_i64(1, 10));
        let i = rng.below(3) as usize;
        let info_mint = w.tokens[toks[i]].mint;
        if rng.chance(1, 2) {
            let p = if rng.bool() { PriceProviderKind::Pyth } else { PriceProviderKind::ChainlinkDataStreams };
            let ix = six(sa::SetExpectedProvider { authority: keeper, store: w.store, token_map: w.token_map }, si::SetExpectedProvider { token: info_mint, provider: p as u8 });
            // setting the provider that is already expected is refused by the program: keep the model on failure
            if w.send(&[ix], &[keeper]).is_ok() {
                expected[i] = p;
            }
        }
        // fresh custom feed
        let now = w.svm.clock.unix_timestamp;
        let base: u128 = [60_000u128, 150, 1][i] * crate::sim::E18;
        let price = base / 1000 * rng.range(900, 1100) as u128;
        let r = w.report_for(toks[i], b(price - price / 10_000), b(price), b(price + price / 10_000), now);
        let ix = w.update_feed_ix(toks[i], r.compressed_full_report(), true, keeper);
        let _ = w.send(&[ix], &[keeper]);
        // fresh Pyth update: for the configured feed id, or (fault) for another token's feed id
        let wrong_feed_id = rng.chance(1, 6);
        let feed_id = if wrong_feed_id { pyth_feed_ids[(i + 1) % 3] } else { pyth_feed_ids[i] };
        let pyth_price = [60_000i64, 150, 1][i] * 100_000_000 / 1000 * rng.range(900, 1100) as i64;
        let update = PriceUpdateV2 {
            write_authority: keeper,
            verification_level: VerificationLevel::Full,
            price_message: PriceFeedMessage { feed_id: feed_id.to_bytes(), price: pyth_price, conf: (pyth_price / 10_000) as u64, exponent: -8, publish_time: now - 1, prev_publish_time: now - 2, ema_price: pyth_price, ema_conf: 1 },
            posted_slot: w.svm.clock.slot,
        };
        let mut data = Vec::new();
        if update.try_serialize(&mut data).is_err() {
            m.inconclusive("cannot serialize a PriceUpdateV2");
            return;
        }
        let pyth_account = hostsvm::key(&format!("c24-pyth-acc-{shard}-{round}"));
        w.svm.set_account(pyth_account, hostsvm::Account::new(10_000_000, data, pyth_program));
        let offer_pyth = rng.bool();
        let offered_provider = if offer_pyth { PriceProviderKind::Pyth } else { PriceProviderKind::ChainlinkDataStreams };
        let account = if offer_pyth { pyth_account } else { w.tokens[toks[i]].feed };
        let res = w.send(&[set_prices_ix(&w, keeper, &[info_mint], &[account])], &[keeper]);
        m.eval();
        let wit = json!({"shard": shard, "round": round, "token": w.tokens[toks[i]].name, "expected_provider": format!("{}", expected[i]), "offered_provider": format!("{offered_provider}"), "pyth_feed_id_of_another_token": wrong_feed_id && offer_pyth});
        match res {
            Ok(_) => {
                if offered_provider != expected[i] {
                    m.violation("C24:set_prices:price_from_unexpected_provider_accepted", wit.clone());
                } else if offer_pyth && wrong_feed_id {
                    m.violation("C24:set_prices:unexpected_feed_accepted", wit.clone());
                } else {
                    m.count(&format!("provider_expected_accepted_{offered_provider}"));
                    m.nontrivial(format!("provider-accepted:{offered_provider}:{i}").as_bytes());
                    if let Some(oracle) = load::<Oracle>(&w.svm, &w.oracle) {
                        match oracle.get_primary_price(&info_mint, true) {
                            Ok(p) if p.min > 0 && p.min <= p.max => {}
                            Ok(p) => m.violation("C24:set_prices:malformed_price_stored", json!({"part": "C", "min": p.min.to_string(), "max": p.max.to_string(), "case": wit})),
                            Err(_) => m.violation("C24:set_prices:accepted_token_has_no_price", json!({"part": "C", "case": wit})),
                        }
                    }
                    if m.wants_sample() && round % 17 == 2 {
                        m.sample(json!({"part": "C", "case": wit}));
                    }
                }
                if w.send(&[clear_ix(&w, keeper)], &[keeper]).is_err() {
                    m.inconclusive("clear_all_prices failed");
                    return;
                }
            }
            Err(_) => {
                if offered_provider != expected[i] {
                    m.count(&format!("provider_unexpected_rejected_{offered_provider}"));
                    m.nontrivial(format!("provider-rejected:{offered_provider}:{i}").as_bytes());
                } else if offer_pyth && wrong_feed_id {
                    m.count("pyth_update_for_another_feed_id_rejected");
                    m.nontrivial(format!("pyth-feed-id-rejected:{i}").as_bytes());
                } else {
                    m.count(&format!("provider_expected_rejected_{offered_provider}"));
                }
            }
        }
    }
}

use vcommon::serde_json;

fn part_b(args: &Args, shard: u64, m: &mut Monitor) {
    let steps = args.scale(250, 600);
    let mut sim = Sim::new(args.seed, shard);
    for step in 0..steps {
        let rec = sim.step();
        let uses_oracle = matches!(rec.op, Op::Execute { .. } | Op::Liquidate { .. } | Op::Adl { .. } | Op::UpdateAdl { .. } | Op::UpdateFees { .. });
        if !uses_oracle || rec.result.is_none() {
            continue;
        }
        m.eval();
        let cleared = load::<Oracle>(&sim.w.svm, &sim.w.oracle).map(|o| o.is_cleared());
        match cleared {
            Some(true) => {
                m.count(if rec.ok() { "oracle_cleared_after_successful_use" } else { "oracle_cleared_after_failed_use" });
                if rec.ok() {
                    m.nontrivial(format!("cleared:{}", rec.op.name()).as_bytes());
                }
            }
            Some(false) => m.violation(
                &format!("C24:{}:oracle_not_cleared_after_use", rec.op.name()),
                json!({"shard": shard, "step": step, "ok": rec.ok(), "history": sim.history}),
            ),
            None => m.inconclusive("oracle account unreadable"),
        }
    }
}

pub fn run(args: &Args) -> Option<i32> {
    let mut mon = Monitor::new(
        args,
        "A: random oracle settings (max age, timestamp range, future excess, per-token timestamp adjustment and max \
         deviation), feed reports with random timestamps / bid-price-ask spreads, clock moves, then the real \
         set_prices_from_price_feed with random token subsets (incl. another token's feed); every acceptance is \
         re-derived from the feed accounts and settings. B: exchange workload; oracle must be cleared after every \
         oracle-using transaction. C: tokens with a Pyth feed registered next to the custom Chainlink feed and a randomly \
         switched expected provider; a fresh verified Pyth PriceUpdateV2 account or the custom feed is offered: a price \
         from a provider other than the expected one (or a Pyth update for another feed id) must never be accepted. \
         non-trivial = an accepted price set (A) / a successful oracle-using transaction (B) / a decided provider case (C); \
         distinct = (number of tokens, settings) resp. operation kind resp. (outcome, provider, token)",
    );
    mon.assume("the reference price of a custom feed is the feed's own `price` field; band slack 1e-5 relative for decimal rounding");
    mon.assume("heartbeat staleness and market-open rules (other properties) may reject more; only acceptances are judged");
    let shards = args.scale(32, 128);
    let quiet = hostsvm::QuietStdout::new();
    run_shards(&mut mon, args.threads, shards, |shard, m| {
        match shard % 4 {
            0 | 2 => part_a(args, shard, m),
            1 => part_b(args, shard, m),
            _ => {
                // B at half size plus the expected-provider scenarios
                if shard % 8 == 3 {
                    part_b(args, shard, m);
                }
                part_c(args, shard, m);
            }
        }
    });
    drop(quiet);
    mon.require("set_prices_accepted", 100);
    mon.require("set_prices_rejected", 50);
    mon.require("oracle_cleared_after_successful_use", 150);
    mon.require("provider_expected_accepted_pyth", 20);
    mon.require("provider_expected_accepted_chainlink_data_streams", 20);
    mon.require("provider_unexpected_rejected_pyth", 20);
    mon.require("provider_unexpected_rejected_chainlink_data_streams", 20);
    Some(mon.finish())
}
