//! Monitor for C24 (see /verif/DESIGN.md §5 C24).
use vcommon::Args;

pub fn run(_args: &Args) -> Option<i32> {
    None
}
