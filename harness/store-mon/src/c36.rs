//! Monitor for C36 "Timelocked instructions run only as approved, after the delay"
//! (see /verif/DESIGN.md §5 C36).
//!
//! Random histories over a few instruction buffers / approvers / executors run against the real
//! `gmsol_timelock` + `gmsol_store` entrypoints in `hostsvm`. A small reference automaton per buffer
//! (`Created → Approved{at, by} → Executed | Cancelled`), a role model and the observed config delay
//! decide every operation:
//!
//! * `execute_instruction` succeeded ⇒ the buffer was approved, the approver still holds
//!   `__TLD_<executor role>`, `now ≥ approved_at + delay` (the program's comparison), the buffer had
//!   not been executed / cancelled, and the CPI the runtime saw (program id, metas with flags, data)
//!   equals what was buffered, with no signer other than the executor wallet;
//! * `approve_instruction(s)` succeeded ⇒ not approved before, approver holds the timelocked role of
//!   *the buffer's* executor;
//! * `create_instruction_buffer` succeeded ⇒ no signer flag on a non-wallet account, the address was
//!   not a live buffer, and the stored instruction reads back as submitted;
//! * the configured delay never decreases (checked after every transaction).
//!
//! Failures of the real program are accepted when the model forbids the operation too, or when an
//! explicitly classified unrelated cause applies (caller lacks TIMELOCK_KEEPER / TIMELOCK_ADMIN,
//! substituted accounts, the inner instruction itself failed after the CPI was issued). A failure
//! the model cannot explain is a coverage note (`note_unexpected_*`), never a violation: C36 is a
//! safety property.
use crate::world::{self, exchange, timelock::*, World, LAMPORTS, STORE_PID};
use anchor_lang::{
    prelude::*,
    solana_program::{instruction::Instruction, system_instruction},
    system_program,
};
use hostsvm::{key, TxError, TxMeta};
use std::collections::{BTreeMap, BTreeSet};
use vcommon::{json, serde_json::Value, Args, Monitor, Rng};

const EXEC_ROLES: [&str; 3] = ["ADMIN", "CONFIG_KEEPER", "FEATURE_KEEPER"];
const AMOUNT_KEYS: [&str; 6] = [
    "claimable_time_window", // changes are prohibited by the store: a legitimate inner failure
    "oracle_max_timestamp_range",
    "recent_time_window",
    "request_expiration",
    "oracle_max_age",
    "adl_prices_max_staleness",
];
const FACTOR_KEYS: [&str; 3] = ["oracle_ref_price_deviation", "order_fee_discount_for_referred_user", "max_builder_fee_factor"];
const DOMAINS: [&str; 6] = ["market-swap", "market-increase", "deposit", "withdrawal", "shift", "glv-deposit"];
const ACTIONS: [&str; 5] = ["default", "create", "update", "execute", "cancel"];
const MAX_LIVE: usize = 7;

const RULE: &str = "histories: per shard, independent worlds (store + timelock bootstrapped through real instructions; \
mode A = store authority is the ADMIN executor wallet, mode B = authority handed back to the admin through a real timelocked \
transfer) run ~150 random ops (create / approve / approve-many / cancel / cancel-many / execute incl. substituted accounts / \
increase_delay / role grant-revoke-disable-enable / bypass revoke / clock warps aimed at approved_at+delay-1 and exactly \
approved_at+delay) over <=7 live buffers, 3 executors, 4 approvers, instruction shapes = store instructions (insert_amount, \
insert_factor, toggle_feature, grant/revoke/enable/disable role), system transfer, garbage data, unknown program, with extra \
accounts, duplicated wallet, flipped writable flags, missing or foreign signer flags, truncated account lists. \
An op is non-trivial when the oracle decided it on a live question of the property: an execution that succeeded (CPI compared), \
an execution/approval/creation denied for a model reason (not approved, too early, approver lost role, already executed/cancelled, \
approved twice, approver without role, foreign signer flag), a cancel followed by a refused execute, a delay increase. \
distinct = hash of (op, outcome class, reason, shape label, boundary class (exact / one second early / other), regrant flag, mode).";

#[derive(Clone, Debug, PartialEq)]
enum BState {
    Created,
    Approved { at: i64, by: Pubkey },
    Executed,
    Cancelled,
}

#[derive(Clone, Debug)]
enum Effect {
    None,
    Grant(Pubkey, String),
    Revoke(Pubkey, String),
    Enable(String),
    Disable(String),
}

#[derive(Clone, Debug)]
struct Buf {
    key: Pubkey,
    exec: usize,
    creator: Pubkey,
    /// Exactly what was buffered: program, metas (signer flags from `signers`, writable flags as the
    /// create transaction's message carried them), data.
    expected: Instruction,
    state: BState,
    effect: Effect,
    shape: String,
    /// The approver did not hold the role at some point after approval.
    lost_role_since_approve: bool,
}

#[derive(Clone, Debug, Default)]
struct RoleModel {
    enabled: BTreeSet<String>,
    grants: BTreeSet<(Pubkey, String)>,
}

impl RoleModel {
    fn holds(&self, user: &Pubkey, role: &str) -> bool {
        self.enabled.contains(role) && self.grants.contains(&(*user, role.to_string()))
    }
}

#[derive(Clone, Copy, Debug, PartialEq)]
enum ExecVariant {
    Normal,
    AltConfig,
    AltStore,
    WrongExecutor,
    WrongRentReceiver,
    MissingRemaining,
}

struct Hist<'a> {
    w: World,
    t: TimelockActors,
    store: Pubkey,
    alt_store: Pubkey,
    alt: TimelockActors,
    mode_b: bool,
    roles: RoleModel,
    bufs: Vec<Buf>,
    by_addr: BTreeMap<Pubkey, usize>,
    delay_seen: u32,
    approvers: Vec<Pubkey>,
    stranger: Pubkey,
    log: Vec<String>,
    rng: Rng,
    m: &'a mut Monitor,
    ident: (u64, u64, u64),
    n_addr: u64,
    shape_hashes: BTreeSet<u64>,
    broken: bool,
}

fn hex(b: &[u8]) -> String {
    b.iter().map(|x| format!("{x:02x}")).collect()
}

fn ix_json(i: &Instruction) -> Value {
    json!({
        "program": i.program_id.to_string(),
        "accounts": i.accounts.iter().map(|m| format!("{}{}{}", m.pubkey, if m.is_signer {":s"} else {""}, if m.is_writable {":w"} else {""})).collect::<Vec<_>>(),
        "data": hex(&i.data),
    })
}

fn err_class(e: &TxError) -> String {
    match e {
        TxError::Program(p) => match e.custom_code() {
            Some(c) => format!("custom:{c}"),
            None => format!("program:{p:?}"),
        },
        TxError::Panic(_) => "panic".into(),
        TxError::Runtime(s) => format!("runtime:{}", s.split([' ', ':']).next().unwrap_or("")),
    }
}

fn is_program_key(k: &Pubkey) -> bool {
    *k == STORE_PID
        || *k == TL_PID
        || *k == gmsol_treasury::ID
        || *k == gmsol_competition::ID
        || *k == gmsol_liquidity_provider::ID
        || *k == gmsol_callback::ID
        || *k == gmsol_mock_chainlink_verifier::ID
}

/// Writable flag an account carries in a single-instruction transaction's message: writable if any
/// reference marks it writable or it is the fee payer; program accounts are demoted.
fn message_writable(ixn: &Instruction, fee_payer: &Pubkey, k: &Pubkey) -> bool {
    (k == fee_payer || ixn.accounts.iter().any(|m| m.pubkey == *k && m.is_writable)) && !is_program_key(k)
}

impl<'a> Hist<'a> {
    fn now(&self) -> i64 {
        self.w.svm.clock.unix_timestamp
    }

    fn role_of(&self, exec: usize) -> &'static str {
        EXEC_ROLES[exec]
    }

    fn tld(&self, exec: usize) -> String {
        timelocked_role(EXEC_ROLES[exec])
    }

    fn witness(&self, detail: Value) -> Value {
        let n = self.log.len();
        let from = n.saturating_sub(80);
        json!({
            "seed": self.ident.0,
            "shard": self.ident.1,
            "history": self.ident.2,
            "mode": if self.mode_b { "B(admin authority restored)" } else { "A(wallet authority)" },
            "ops_so_far": n,
            "op_log_tail": self.log[from..].to_vec(),
            "detail": detail,
            "replay": format!("VERIF_SEED={} store-mon C36 --tier {} --shard {} --history {}", self.ident.0, self.m.tier.as_str(), self.ident.1, self.ident.2),
        })
    }

    fn violation(&mut self, sig: &str, detail: Value) {
        let w = self.witness(detail);
        self.m.violation(sig, w);
    }

    fn nontrivial(&mut self, parts: &[&str]) {
        let mut s = parts.join("|");
        s.push(if self.mode_b { 'B' } else { 'A' });
        self.m.nontrivial(s.as_bytes());
    }

    /// After every transaction: the configured delay must never decrease; role model cross-check.
    fn post_tx(&mut self) {
        match read_delay(&self.w.svm, &self.t.timelock_config) {
            Some(d) => {
                if d < self.delay_seen {
                    let before = self.delay_seen;
                    self.violation("C36:delay:decreased", json!({"before": before, "after": d}));
                }
                self.delay_seen = d;
            }
            None => {
                self.m.inconclusive("timelock config unreadable");
                self.broken = true;
            }
        }
    }

    fn cross_check_roles(&mut self) {
        let Some(s) = exchange::load::<gmsol_store::states::Store>(&self.w.svm, &self.store) else {
            self.m.inconclusive("store unreadable");
            self.broken = true;
            return;
        };
        let mut users = self.approvers.clone();
        users.extend([self.t.tl_admin, self.t.tl_keeper, self.stranger]);
        let mut roles: Vec<String> = (0..EXEC_ROLES.len()).map(|e| self.tld(e)).collect();
        roles.extend([TIMELOCK_ADMIN.to_string(), TIMELOCK_KEEPER.to_string()]);
        for u in &users {
            for r in &roles {
                let real = s.role().has_role(u, r).unwrap_or(false);
                if real != self.roles.holds(u, r) {
                    self.m.inconclusive(&format!("harness: role model disagrees with the store for ({u}, {r}): store={real}"));
                    self.broken = true;
                    return;
                }
            }
        }
    }

    /// Role model changed: note approved buffers whose approver no longer holds the role.
    fn after_role_change(&mut self) {
        let mut lost = 0;
        for i in 0..self.bufs.len() {
            if let BState::Approved { by, .. } = self.bufs[i].state {
                let r = self.tld(self.bufs[i].exec);
                if !self.roles.holds(&by, &r) && !self.bufs[i].lost_role_since_approve {
                    self.bufs[i].lost_role_since_approve = true;
                    lost += 1;
                }
            }
        }
        if lost > 0 {
            self.m.add("role_revocations_between_approve_and_execute", lost);
        }
        self.cross_check_roles();
    }

    fn apply_effect(&mut self, e: &Effect) {
        match e {
            Effect::None => return,
            Effect::Grant(u, r) => {
                self.roles.grants.insert((*u, r.clone()));
            }
            Effect::Revoke(u, r) => {
                self.roles.grants.remove(&(*u, r.clone()));
            }
            Effect::Enable(r) => {
                self.roles.enabled.insert(r.clone());
            }
            Effect::Disable(r) => {
                self.roles.enabled.remove(r);
            }
        }
        self.after_role_change();
    }

    fn live(&self) -> Vec<usize> {
        (0..self.bufs.len()).filter(|i| matches!(self.bufs[*i].state, BState::Created | BState::Approved { .. })).collect()
    }

    fn pick_where(&mut self, f: impl Fn(&Buf) -> bool) -> Option<usize> {
        let c: Vec<usize> = (0..self.bufs.len()).filter(|i| f(&self.bufs[*i])).collect();
        if c.is_empty() {
            None
        } else {
            Some(c[self.rng.below(c.len() as u64) as usize])
        }
    }

    fn anyone(&mut self) -> Pubkey {
        let mut v = self.approvers.clone();
        v.extend([self.t.tl_admin, self.t.tl_keeper, self.stranger]);
        *self.rng.pick(&v)
    }

    // --------------------------------------------------------------------------------------------
    // Shapes

    fn gen_shape(&mut self, exec: usize) -> (Instruction, Effect, String) {
        let wallet = self.t.wallets[exec];
        let store = self.store;
        let kind = self.rng.weighted(&[70, 10, 8, 4, 8]);
        let (mut ixn, effect, mut label) = match kind {
            0 => match exec {
                0 => {
                    let mut e = self.rng.below(EXEC_ROLES.len() as u64) as usize;
                    let mut user = *self.rng.pick(&self.approvers.clone());
                    if !self.mode_b && self.rng.chance(2, 3) {
                        // Mode A: roles only come back through the timelock; prefer re-granting a role
                        // that no approver holds any more.
                        for k in 0..EXEC_ROLES.len() {
                            let r = self.tld(k);
                            if !self.approvers.iter().any(|a| self.roles.grants.contains(&(*a, r.clone()))) {
                                e = k;
                                break;
                            }
                        }
                        let r = self.tld(e);
                        if let Some(u) = self.approvers.iter().find(|a| !self.roles.grants.contains(&(**a, r.clone()))) {
                            user = *u;
                        }
                    }
                    let role = self.tld(e);
                    let holds = self.roles.grants.contains(&(user, role.clone()));
                    let c = self.rng.below(100);
                    if self.mode_b || c < 80 {
                        // In mode B the wallet is not the store authority (inner call refuses).
                        if holds != self.rng.chance(1, 8) {
                            (revoke_role_ix(wallet, store, user, &role), Effect::Revoke(user, role), "revoke_role".to_string())
                        } else {
                            (grant_role_ix(wallet, store, user, &role), Effect::Grant(user, role), "grant_role".to_string())
                        }
                    } else if e != 0 && self.roles.enabled.contains(&role) && c < 90 {
                        (disable_role_ix(wallet, store, &role), Effect::Disable(role), "disable_role".to_string())
                    } else {
                        (enable_role_ix(wallet, store, &role), Effect::Enable(role), "enable_role".to_string())
                    }
                }
                1 => {
                    if self.rng.chance(2, 3) {
                        let k = *self.rng.pick(&AMOUNT_KEYS);
                        let a = self.rng.biased_u64(u64::MAX, 3600);
                        (insert_amount_ix(wallet, store, k, a), Effect::None, "insert_amount".to_string())
                    } else {
                        let k = *self.rng.pick(&FACTOR_KEYS);
                        let f = self.rng.biased_u128(world::UNIT, world::UNIT / 100);
                        (insert_factor_ix(wallet, store, k, f), Effect::None, "insert_factor".to_string())
                    }
                }
                _ => {
                    let d = *self.rng.pick(&DOMAINS);
                    let a = *self.rng.pick(&ACTIONS);
                    let en = self.rng.bool();
                    (toggle_feature_ix(wallet, store, d, a, en), Effect::None, "toggle_feature".to_string())
                }
            },
            1 => {
                let dest = *self.rng.pick(&self.approvers.clone());
                let lamports = self.rng.range(1, 5000);
                (system_instruction::transfer(&wallet, &dest, lamports), Effect::None, "system_transfer".to_string())
            }
            2 => {
                let n = self.rng.below(48) as usize;
                let data = self.rng.bytes(n);
                (
                    Instruction { program_id: STORE_PID, accounts: vec![AccountMeta::new(wallet, true), AccountMeta::new(store, false)], data },
                    Effect::None,
                    "garbage_data".to_string(),
                )
            }
            3 => {
                let n = self.rng.below(16) as usize;
                let data = self.rng.bytes(n);
                (
                    Instruction { program_id: key("c36:unknown-program"), accounts: vec![AccountMeta::new(wallet, true)], data },
                    Effect::None,
                    "unknown_program".to_string(),
                )
            }
            _ => {
                // A store instruction signed by a *different* executor's wallet (foreign signer flag).
                let other = (exec + 1 + self.rng.below(2) as usize) % EXEC_ROLES.len();
                let ow = self.t.wallets[other];
                let k = *self.rng.pick(&AMOUNT_KEYS);
                (insert_amount_ix(ow, store, k, self.rng.below(1000)), Effect::None, "foreign_wallet_signer".to_string())
            }
        };
        // Modifiers.
        if self.rng.chance(1, 3) {
            let n = self.rng.range(1, 3);
            for _ in 0..n {
                let pool = [self.approvers[0], self.approvers[1], self.t.tl_keeper, self.t.tl_admin, store, key("c36:extra-a"), key("c36:extra-b"), self.t.wallets[(exec + 1) % 3]];
                let k = *self.rng.pick(&pool);
                ixn.accounts.push(AccountMeta { pubkey: k, is_signer: false, is_writable: self.rng.bool() });
            }
            label.push_str("+extra");
        }
        if self.rng.chance(1, 14) {
            ixn.accounts.push(AccountMeta { pubkey: wallet, is_signer: self.rng.bool(), is_writable: self.rng.bool() });
            label.push_str("+dupwallet");
        }
        if self.rng.chance(1, 12) {
            let i = self.rng.below(ixn.accounts.len() as u64) as usize;
            if !is_program_key(&ixn.accounts[i].pubkey) {
                ixn.accounts[i].is_writable = !ixn.accounts[i].is_writable;
                label.push_str("+flipw");
            }
        }
        if self.rng.chance(1, 12) {
            for m in ixn.accounts.iter_mut() {
                m.is_signer = false;
            }
            label.push_str("+nosign");
        }
        if self.rng.chance(1, 9) {
            // Signer flag on an account that is not this executor's wallet.
            let c: Vec<usize> = (0..ixn.accounts.len()).filter(|i| ixn.accounts[*i].pubkey != wallet).collect();
            if !c.is_empty() && self.rng.chance(2, 3) {
                let i = c[self.rng.below(c.len() as u64) as usize];
                ixn.accounts[i].is_signer = true;
            } else {
                let pool = [self.t.tl_keeper, self.t.tl_admin, self.approvers[0], self.t.wallets[(exec + 2) % 3]];
                let k = *self.rng.pick(&pool);
                ixn.accounts.push(AccountMeta { pubkey: k, is_signer: true, is_writable: self.rng.bool() });
            }
            label.push_str("+badsign");
        }
        (ixn, effect, label)
    }

    // --------------------------------------------------------------------------------------------
    // Ops

    fn op_create(&mut self) {
        let exec = self.rng.below(EXEC_ROLES.len() as u64) as usize;
        let (intended, effect, mut label) = self.gen_shape(exec);
        let mut args = CreateBufferArgs::from_instruction(&intended);
        if self.rng.chance(1, 16) && args.num_accounts > 1 {
            args.num_accounts = self.rng.range(1, args.num_accounts as u64 - 1) as u16;
            label.push_str("+trunc");
        }
        if self.rng.chance(1, 30) {
            args.num_accounts += self.rng.range(1, 3) as u16;
            label.push_str("+toomany");
        }
        if self.rng.chance(1, 30) {
            args.data_len = if self.rng.bool() { args.data_len + 1 } else { args.data_len.saturating_sub(1) };
            label.push_str("+badlen");
        }
        if self.rng.chance(1, 20) {
            // Signer index outside the buffered list (ignored by the program, harmless).
            args.signers.push(args.num_accounts + self.rng.below(3) as u16);
            label.push_str("+oobsigner");
        }
        let creator = match self.rng.below(100) {
            0..=79 => self.t.tl_keeper,
            80..=87 => self.t.tl_admin,
            88..=93 => self.stranger,
            _ => *self.rng.pick(&self.approvers.clone()),
        };
        // Address: fresh, or a previously used one (closed or live).
        let address = if !self.bufs.is_empty() && self.rng.chance(1, 7) {
            let i = self.rng.below(self.bufs.len() as u64) as usize;
            self.bufs[i].key
        } else {
            self.n_addr += 1;
            key(&format!("c36:buffer:{}:{}:{}", self.ident.1, self.ident.2, self.n_addr))
        };
        let executor = self.t.executors[exec];
        let wallet = self.t.wallets[exec];
        let ixn = tl_create_buffer_ix(creator, self.store, executor, address, intended.program_id, &args);
        // What is being buffered, as the message carries it.
        let n = (args.num_accounts as usize).min(args.remaining.len());
        let expected = Instruction {
            program_id: intended.program_id,
            accounts: args.remaining[..n]
                .iter()
                .enumerate()
                .map(|(i, m)| AccountMeta {
                    pubkey: m.pubkey,
                    is_signer: args.signers.contains(&(i as u16)),
                    is_writable: message_writable(&ixn, &creator, &m.pubkey),
                })
                .collect(),
            data: args.data.clone(),
        };
        let bad_signer = expected.accounts.iter().any(|m| m.is_signer && m.pubkey != wallet);
        let live_addr = self.w.svm.get(&address).is_some();
        let creator_ok = self.roles.holds(&creator, TIMELOCK_KEEPER);
        let args_ok = args.data_len as usize == args.data.len() && args.num_accounts as usize <= args.remaining.len();
        self.log.push(format!(
            "create buffer={address} exec={} creator={creator} shape={label} num_accounts={} data_len={} signers={:?} ix={}",
            EXEC_ROLES[exec],
            args.num_accounts,
            args.data_len,
            args.signers,
            ix_json(&intended)
        ));
        let r = self.w.send(&[ixn], &[creator, address]);
        self.m.eval();
        match r {
            Ok(_) => {
                self.log.push("  -> ok".into());
                let mut flagged = false;
                if bad_signer {
                    flagged = true;
                    self.violation("C36:create:non_wallet_signer_accepted", json!({"buffer": address.to_string(), "expected": ix_json(&expected), "wallet": wallet.to_string()}));
                }
                if live_addr {
                    flagged = true;
                    self.violation("C36:create:overwrote_existing_account", json!({"buffer": address.to_string()}));
                }
                match read_buffer(&self.w.svm, &address) {
                    Some(v) => {
                        if v.instruction != expected || v.executor != executor {
                            flagged = true;
                            self.violation(
                                "C36:create:stored_instruction_differs",
                                json!({"buffer": address.to_string(), "submitted": ix_json(&expected), "stored": ix_json(&v.instruction), "stored_executor": v.executor.to_string()}),
                            );
                        }
                        if v.approved_at.is_some() || v.approver.is_some() {
                            flagged = true;
                            self.violation("C36:create:born_approved", json!({"buffer": address.to_string()}));
                        }
                    }
                    None => {
                        self.m.inconclusive("created buffer unreadable");
                        self.broken = true;
                    }
                }
                let _ = flagged;
                self.m.count("create_ok");
                if !creator_ok {
                    self.m.count("note_create_ok_by_non_keeper(out of scope: C19)");
                }
                self.m.count(&format!("shape_created:{label}"));
                let h = vcommon::rng::fnv(format!("{}|{:?}|{}", expected.program_id, expected.accounts.iter().map(|m| (m.is_signer, m.is_writable)).collect::<Vec<_>>(), hex(&expected.data)).as_bytes());
                self.shape_hashes.insert(h);
                self.bufs.push(Buf { key: address, exec, creator, expected, state: BState::Created, effect, shape: label, lost_role_since_approve: false });
                self.by_addr.insert(address, self.bufs.len() - 1);
            }
            Err((e, _)) => {
                self.log.push(format!("  -> err {}", err_class(&e)));
                if bad_signer {
                    self.m.count("create_rejected_foreign_signer");
                    self.nontrivial(&["create_rejected_foreign_signer", &label]);
                } else if live_addr {
                    self.m.count("create_rejected_address_in_use");
                } else if !creator_ok {
                    self.m.count("create_denied_not_keeper");
                } else if !args_ok {
                    self.m.count("create_rejected_bad_lengths");
                } else {
                    self.m.count("note_unexpected_create_failure");
                    self.m.count(&format!("note_unexpected_create_failure:{}", err_class(&e)));
                    if self.m.wants_sample() {
                        let s = self.witness(json!({"unexpected_create_failure": err_class(&e), "shape": label}));
                        self.m.sample(s);
                    }
                }
            }
        }
        self.post_tx();
    }

    /// Oracle for one successfully approved buffer.
    fn approved_ok(&mut self, i: usize, approver: Pubkey, how: &str) {
        let b = self.bufs[i].clone();
        let tld = self.tld(b.exec);
        match b.state {
            BState::Created => {}
            BState::Approved { at, by } => {
                self.violation("C36:approve:approved_twice", json!({"buffer": b.key.to_string(), "first_at": at, "first_by": by.to_string(), "second_by": approver.to_string(), "via": how}));
            }
            _ => {
                self.violation("C36:approve:closed_buffer_approved", json!({"buffer": b.key.to_string(), "via": how}));
            }
        }
        if !self.roles.holds(&approver, &tld) {
            self.violation(
                "C36:approve:approver_without_role",
                json!({"buffer": b.key.to_string(), "approver": approver.to_string(), "needed_role": tld, "via": how}),
            );
        }
        let now = self.now();
        self.bufs[i].state = BState::Approved { at: now, by: approver };
        self.bufs[i].lost_role_since_approve = false;
        self.m.count("approve_ok");
        let shape = b.shape.clone();
        self.nontrivial(&["approve_ok", how, &shape]);
    }

    fn approve_deny_reason(&self, i: usize, approver: &Pubkey, role_arg: &str) -> Option<&'static str> {
        let b = &self.bufs[i];
        match b.state {
            BState::Executed | BState::Cancelled => return Some("gone"),
            BState::Approved { .. } => return Some("already_approved"),
            BState::Created => {}
        }
        if !self.roles.holds(approver, &self.tld(b.exec)) {
            return Some("approver_without_role");
        }
        if role_arg != self.role_of(b.exec) {
            return Some("role_arg_mismatch");
        }
        None
    }

    fn pick_approver(&mut self, exec: usize) -> Pubkey {
        let tld = self.tld(exec);
        let mut all = self.approvers.clone();
        all.push(self.t.tl_admin);
        let holders: Vec<Pubkey> = all.iter().copied().filter(|u| self.roles.holds(u, &tld)).collect();
        if !holders.is_empty() && self.rng.chance(17, 20) {
            *self.rng.pick(&holders)
        } else {
            self.anyone()
        }
    }

    fn op_approve(&mut self) {
        let c = self.rng.below(100);
        let pick = if c < 72 {
            self.pick_where(|b| b.state == BState::Created)
        } else if c < 88 {
            self.pick_where(|b| matches!(b.state, BState::Approved { .. }))
        } else {
            self.pick_where(|b| matches!(b.state, BState::Executed | BState::Cancelled))
        };
        let Some(mut i) = pick.or_else(|| self.pick_where(|_| true)) else { return };
        // Nobody can approve for a role without holders: mostly look for another buffer.
        for _ in 0..3 {
            let tld = self.tld(self.bufs[i].exec);
            let mut all = self.approvers.clone();
            all.push(self.t.tl_admin);
            if all.iter().any(|u| self.roles.holds(u, &tld)) || self.rng.chance(1, 4) {
                break;
            }
            if let Some(j) = self.pick_where(|b| b.state == BState::Created) {
                i = j;
            }
        }
        let exec = self.bufs[i].exec;
        let approver = self.pick_approver(exec);
        let role_arg = if self.rng.chance(9, 10) { EXEC_ROLES[exec] } else { EXEC_ROLES[(exec + 1 + self.rng.below(2) as usize) % 3] };
        let address = self.bufs[i].key;
        // A closed address may meanwhile host a newer buffer: the model entry is the latest one.
        let i = *self.by_addr.get(&address).unwrap_or(&i);
        let deny = self.approve_deny_reason(i, &approver, role_arg);
        self.log.push(format!("approve buffer={address} approver={approver} role_arg={role_arg} now={}", self.now()));
        let ixn = tl_approve_ix(approver, self.store, executor_address(&self.store, role_arg), role_arg, address);
        let r = self.w.send(&[ixn], &[approver]);
        self.m.eval();
        match r {
            Ok(_) => {
                self.log.push("  -> ok".into());
                self.approved_ok(i, approver, "single");
            }
            Err((e, _)) => {
                self.log.push(format!("  -> err {}", err_class(&e)));
                match deny {
                    Some(reason) => {
                        self.m.count(&format!("approve_denied_{reason}"));
                        let shape = self.bufs[i].shape.clone();
                        self.nontrivial(&["approve_denied", reason, &shape]);
                    }
                    None => {
                        self.m.count("note_unexpected_approve_failure");
                        self.m.count(&format!("note_unexpected_approve_failure:{}", err_class(&e)));
                    }
                }
            }
        }
        self.post_tx();
    }

    fn op_approve_many(&mut self) {
        let live = self.live();
        if live.is_empty() {
            return;
        }
        let n = self.rng.range(1, 3) as usize;
        let mut chosen: Vec<usize> = vec![];
        let first = live[self.rng.below(live.len() as u64) as usize];
        chosen.push(first);
        for _ in 1..n {
            // Prefer same executor and not yet approved, sometimes anything.
            let fe = self.bufs[first].exec;
            let c = if self.rng.chance(4, 5) {
                self.pick_where(|b| b.exec == fe && b.state == BState::Created)
            } else {
                self.pick_where(|_| true)
            };
            if let Some(c) = c {
                chosen.push(*self.by_addr.get(&self.bufs[c].key).unwrap_or(&c));
            }
        }
        let exec = self.bufs[first].exec;
        let role_arg = EXEC_ROLES[exec];
        let approver = self.pick_approver(exec);
        let keys: Vec<Pubkey> = chosen.iter().map(|i| self.bufs[*i].key).collect();
        let dup = keys.iter().collect::<BTreeSet<_>>().len() != keys.len();
        let mut deny: Option<&'static str> = if dup { Some("duplicate_in_batch") } else { None };
        for i in &chosen {
            if deny.is_none() {
                deny = self.approve_deny_reason(*i, &approver, role_arg);
            }
        }
        self.log.push(format!("approve_many buffers={keys:?} approver={approver} role_arg={role_arg} now={}", self.now()));
        let ixn = tl_approve_many_ix(approver, self.store, executor_address(&self.store, role_arg), role_arg, &keys);
        let r = self.w.send(&[ixn], &[approver]);
        self.m.eval();
        match r {
            Ok(_) => {
                self.log.push("  -> ok".into());
                for i in chosen {
                    self.approved_ok(i, approver, "batch");
                }
                self.m.count("approve_many_ok");
            }
            Err((e, _)) => {
                self.log.push(format!("  -> err {}", err_class(&e)));
                match deny {
                    Some(reason) => {
                        self.m.count(&format!("approve_many_denied_{reason}"));
                        self.nontrivial(&["approve_many_denied", reason]);
                    }
                    None => {
                        self.m.count("note_unexpected_approve_many_failure");
                        self.m.count(&format!("note_unexpected_approve_many_failure:{}", err_class(&e)));
                    }
                }
            }
        }
        self.post_tx();
    }

    fn op_cancel(&mut self) {
        let pick = if self.rng.chance(9, 10) { self.pick_where(|b| matches!(b.state, BState::Created | BState::Approved { .. })) } else { self.pick_where(|_| true) };
        let Some(i) = pick else { return };
        let address = self.bufs[i].key;
        let i = *self.by_addr.get(&address).unwrap_or(&i);
        let b = self.bufs[i].clone();
        let caller = match self.rng.below(100) {
            0..=84 => self.t.tl_admin,
            85..=92 => self.t.tl_keeper,
            _ => self.stranger,
        };
        let wrong_receiver = self.rng.chance(1, 14);
        let rent_receiver = if wrong_receiver { self.stranger } else { b.creator };
        let was_live = matches!(b.state, BState::Created | BState::Approved { .. });
        self.log.push(format!("cancel buffer={address} caller={caller} rent_receiver={rent_receiver}"));
        let ixn = tl_cancel_ix(caller, self.store, self.t.executors[b.exec], rent_receiver, address);
        let r = self.w.send(&[ixn], &[caller]);
        self.m.eval();
        match r {
            Ok(_) => {
                self.log.push("  -> ok".into());
                self.m.count("cancel_ok");
                if matches!(b.state, BState::Approved { .. }) {
                    self.m.count("cancel_ok_of_approved");
                }
                if !self.roles.holds(&caller, TIMELOCK_ADMIN) {
                    self.m.count("note_cancel_ok_by_non_admin(out of scope: C19)");
                }
                self.bufs[i].state = BState::Cancelled;
                // A cancelled buffer must not run: try right away.
                self.execute(i, self.t.tl_keeper, ExecVariant::Normal, "probe_after_cancel");
            }
            Err((e, _)) => {
                self.log.push(format!("  -> err {}", err_class(&e)));
                if !was_live {
                    self.m.count("cancel_denied_gone");
                } else if !self.roles.holds(&caller, TIMELOCK_ADMIN) {
                    self.m.count("cancel_denied_not_admin");
                } else if wrong_receiver {
                    self.m.count("cancel_denied_wrong_rent_receiver");
                } else {
                    self.m.count("note_unexpected_cancel_failure");
                    self.m.count(&format!("note_unexpected_cancel_failure:{}", err_class(&e)));
                }
            }
        }
        self.post_tx();
    }

    fn op_cancel_many(&mut self) {
        let live = self.live();
        if live.len() < 2 {
            return;
        }
        let first = live[self.rng.below(live.len() as u64) as usize];
        let (fe, fc) = (self.bufs[first].exec, self.bufs[first].creator);
        let mut chosen = vec![first];
        if let Some(c) = self.pick_where(|b| b.exec == fe && b.creator == fc && matches!(b.state, BState::Created | BState::Approved { .. })) {
            if c != first {
                chosen.push(c);
            }
        }
        if self.rng.chance(1, 4) {
            if let Some(c) = self.pick_where(|_| true) {
                let c = *self.by_addr.get(&self.bufs[c].key).unwrap_or(&c);
                if !chosen.contains(&c) {
                    chosen.push(c);
                }
            }
        }
        let caller = if self.rng.chance(9, 10) { self.t.tl_admin } else { self.t.tl_keeper };
        let keys: Vec<Pubkey> = chosen.iter().map(|i| self.bufs[*i].key).collect();
        let all_ok = chosen.iter().all(|i| {
            let b = &self.bufs[*i];
            matches!(b.state, BState::Created | BState::Approved { .. }) && b.exec == fe && b.creator == fc
        });
        self.log.push(format!("cancel_many buffers={keys:?} caller={caller}"));
        let ixn = tl_cancel_many_ix(caller, self.store, self.t.executors[fe], fc, &keys);
        let r = self.w.send(&[ixn], &[caller]);
        self.m.eval();
        match r {
            Ok(_) => {
                self.log.push("  -> ok".into());
                self.m.count("cancel_many_ok");
                for i in chosen {
                    self.m.count("cancel_ok");
                    self.bufs[i].state = BState::Cancelled;
                    self.execute(i, self.t.tl_keeper, ExecVariant::Normal, "probe_after_cancel");
                }
            }
            Err((e, _)) => {
                self.log.push(format!("  -> err {}", err_class(&e)));
                if !self.roles.holds(&caller, TIMELOCK_ADMIN) {
                    self.m.count("cancel_many_denied_not_admin");
                } else if !all_ok {
                    self.m.count("cancel_many_denied_mixed_batch");
                } else {
                    self.m.count("note_unexpected_cancel_many_failure");
                    self.m.count(&format!("note_unexpected_cancel_many_failure:{}", err_class(&e)));
                }
            }
        }
        self.post_tx();
    }

    /// The CPIs issued by the timelock program itself in this transaction, without the leading
    /// access-control `check_role` call.
    fn timelock_cpis<'m>(meta: &'m TxMeta) -> Vec<&'m hostsvm::CpiRecord> {
        let mut top: Vec<&hostsvm::CpiRecord> = meta.cpis.iter().filter(|c| c.caller == TL_PID && c.depth == 1).collect();
        if let Some(f) = top.first() {
            if f.program_id == STORE_PID && f.data == check_role_data(TIMELOCK_KEEPER) && f.accounts.len() == 2 {
                top.remove(0);
            }
        }
        top
    }

    fn check_cpi(&mut self, meta: &TxMeta, b: &Buf) {
        let wallet = self.t.wallets[b.exec];
        let top = Self::timelock_cpis(meta);
        let observed: Vec<Value> = top
            .iter()
            .map(|c| {
                let mut v = ix_json(&Instruction { program_id: c.program_id, accounts: c.accounts.clone(), data: c.data.clone() });
                v["pda_signers"] = json!(c.pda_signers.iter().map(|k| k.to_string()).collect::<Vec<_>>());
                v
            })
            .collect();
        let detail = |what: &str| json!({"buffer": b.key.to_string(), "what": what, "buffered": ix_json(&b.expected), "observed_cpis": observed, "wallet": wallet.to_string(), "shape": b.shape});
        if top.len() != 1 {
            self.violation("C36:execute:cpi_count", detail("expected exactly one CPI of the buffered instruction"));
            return;
        }
        let c = top[0];
        if c.program_id != b.expected.program_id {
            self.violation("C36:execute:cpi_program_differs", detail("program id"));
        }
        if c.data != b.expected.data {
            self.violation("C36:execute:cpi_data_differs", detail("data"));
        }
        if c.accounts.len() != b.expected.accounts.len() || c.accounts.iter().zip(b.expected.accounts.iter()).any(|(x, y)| x.pubkey != y.pubkey) {
            self.violation("C36:execute:cpi_account_list_differs", detail("account list"));
        } else if c.accounts.iter().zip(b.expected.accounts.iter()).any(|(x, y)| x.is_signer != y.is_signer || x.is_writable != y.is_writable) {
            self.violation("C36:execute:cpi_flags_differ", detail("signer/writable flags"));
        }
        if c.accounts.iter().any(|m| m.is_signer && m.pubkey != wallet) || c.pda_signers.iter().any(|k| *k != wallet) {
            self.violation("C36:execute:non_wallet_signer", detail("a signer other than the executor wallet"));
        }
    }

    fn execute(&mut self, i: usize, caller: Pubkey, variant: ExecVariant, why: &str) {
        let b = self.bufs[i].clone();
        let role = self.role_of(b.exec);
        let tld = self.tld(b.exec);
        let mut a = ExecuteAccounts {
            authority: caller,
            store: self.store,
            timelock_config: self.t.timelock_config,
            executor: self.t.executors[b.exec],
            wallet: self.t.wallets[b.exec],
            rent_receiver: b.creator,
            buffer: b.key,
        };
        let mut remaining = b.expected.accounts.clone();
        // The callee program account must be part of the transaction (the store program already is).
        if b.expected.program_id != STORE_PID && b.expected.program_id != system_program::ID {
            remaining.push(AccountMeta::new_readonly(b.expected.program_id, false));
        }
        match variant {
            ExecVariant::Normal => {}
            ExecVariant::AltConfig => a.timelock_config = self.alt.timelock_config,
            ExecVariant::AltStore => {
                a.store = self.alt_store;
                a.timelock_config = self.alt.timelock_config;
            }
            ExecVariant::WrongExecutor => {
                let o = (b.exec + 1) % EXEC_ROLES.len();
                a.executor = self.t.executors[o];
                a.wallet = self.t.wallets[o];
            }
            ExecVariant::WrongRentReceiver => a.rent_receiver = self.stranger,
            ExecVariant::MissingRemaining => {
                remaining.clear();
            }
        }
        let now = self.now();
        let delay = self.delay_seen;
        // Model verdict (program's comparison: now >= approved_at.saturating_add_unsigned(delay)).
        let (gone, not_approved, lost, early, boundary) = match b.state {
            BState::Executed => (Some("executed"), false, false, false, 0i128),
            BState::Cancelled => (Some("cancelled"), false, false, false, 0),
            BState::Created => (None, true, false, false, 0),
            BState::Approved { at, by } => {
                let executable_at = (at as i128 + delay as i128).min(i64::MAX as i128);
                (None, false, !self.roles.holds(&by, &tld), (now as i128) < executable_at, executable_at)
            }
        };
        let bclass = if matches!(b.state, BState::Approved { .. }) {
            if now as i128 == boundary {
                "exact"
            } else if now as i128 == boundary - 1 {
                "one_early"
            } else if (now as i128) < boundary {
                "early"
            } else {
                "late"
            }
        } else {
            "-"
        };
        self.log.push(format!(
            "execute[{why}] buffer={} role={role} caller={caller} variant={variant:?} now={now} delay={delay} state={:?}",
            b.key, b.state
        ));
        let ixn = tl_execute_ix(&a, &remaining);
        let r = self.w.send(&[ixn], &[caller]);
        self.m.eval();
        match r {
            Ok(meta) => {
                self.log.push("  -> ok".into());
                let d = json!({"buffer": b.key.to_string(), "state": format!("{:?}", b.state), "now": now, "delay": delay, "variant": format!("{variant:?}"), "needed_role": tld, "shape": b.shape});
                let mut bad = false;
                if let Some(g) = gone {
                    bad = true;
                    self.violation(&format!("C36:execute:{g}_buffer_ran_again"), d.clone());
                }
                if not_approved {
                    bad = true;
                    self.violation("C36:execute:not_approved", d.clone());
                }
                if lost {
                    bad = true;
                    self.violation("C36:execute:approver_lost_role", d.clone());
                }
                if early {
                    bad = true;
                    self.violation("C36:execute:before_delay", d.clone());
                }
                self.check_cpi(&meta, &b);
                if !self.roles.holds(&caller, TIMELOCK_KEEPER) {
                    self.m.count("note_execute_ok_by_non_keeper(out of scope: C19)");
                }
                if !bad {
                    self.m.count("exec_ok");
                    self.m.count(&format!("shape_executed:{}", b.shape));
                    if bclass == "exact" {
                        self.m.count("exec_ok_exactly_at_boundary");
                    }
                    if b.lost_role_since_approve {
                        self.m.count("exec_ok_after_role_lost_and_regained");
                    }
                    if variant != ExecVariant::Normal {
                        self.m.count(&format!("note_exec_ok_with_variant_{variant:?}"));
                    }
                    self.nontrivial(&["exec_ok", &b.shape, bclass, if b.lost_role_since_approve { "regrant" } else { "" }]);
                }
                self.bufs[i].state = BState::Executed;
                let eff = b.effect.clone();
                self.apply_effect(&eff);
                self.post_tx();
                // An executed buffer must not run again: retry the very same transaction.
                if why != "probe_after_execute" {
                    self.execute(i, caller, ExecVariant::Normal, "probe_after_execute");
                }
            }
            Err((e, meta)) => {
                let ec = err_class(&e);
                self.log.push(format!("  -> err {ec}"));
                let reason: Option<String> = if let Some(g) = gone {
                    Some(format!("already_{g}"))
                } else if not_approved {
                    Some("not_approved".into())
                } else if lost {
                    Some("approver_lost_role".into())
                } else if early {
                    Some("too_early".into())
                } else {
                    None
                };
                match reason {
                    Some(reason) => {
                        self.m.count(&format!("exec_denied_{reason}"));
                        if lost && early {
                            self.m.count("exec_denied_lost_role_and_too_early");
                        }
                        if reason == "too_early" && bclass == "one_early" {
                            self.m.count("exec_denied_one_second_early");
                        }
                        if variant != ExecVariant::Normal {
                            self.m.count(&format!("exec_denied_with_variant_{variant:?}"));
                        }
                        self.nontrivial(&["exec_denied", &reason, bclass, &format!("{variant:?}"), b.shape.split('+').next().unwrap_or("")]);
                    }
                    None => {
                        // The model allows this execution.
                        let issued = !Self::timelock_cpis(&meta).is_empty();
                        if !self.roles.holds(&caller, TIMELOCK_KEEPER) {
                            self.m.count("exec_denied_caller_not_keeper");
                        } else if variant != ExecVariant::Normal {
                            self.m.count(&format!("exec_denied_substituted_accounts_{variant:?}"));
                        } else if issued {
                            self.m.count("exec_failed_inner_instruction");
                            self.m.count(&format!("exec_failed_inner:{}:{}", b.shape.split('+').next().unwrap_or(""), ec));
                        } else {
                            self.m.count("note_unexpected_exec_denial");
                            self.m.count(&format!("note_unexpected_exec_denial:{ec}"));
                            if self.m.wants_sample() {
                                let s = self.witness(json!({"unexpected_exec_denial": ec, "shape": b.shape}));
                                self.m.sample(s);
                            }
                        }
                    }
                }
                self.post_tx();
            }
        }
    }

    fn op_execute(&mut self) {
        let c = self.rng.below(100);
        let pick = if c < 68 {
            self.pick_where(|b| matches!(b.state, BState::Approved { .. }))
        } else if c < 84 {
            self.pick_where(|b| b.state == BState::Created)
        } else {
            self.pick_where(|b| matches!(b.state, BState::Executed | BState::Cancelled))
        };
        let Some(i) = pick.or_else(|| self.pick_where(|_| true)) else { return };
        // If the address was re-used by a newer buffer, the old entry is shadowed: use the newest.
        let i = *self.by_addr.get(&self.bufs[i].key).unwrap_or(&i);
        let caller = match self.rng.below(100) {
            0..=83 => self.t.tl_keeper,
            84..=90 => self.t.tl_admin,
            91..=95 => self.stranger,
            _ => *self.rng.pick(&self.approvers.clone()),
        };
        let variant = match self.rng.below(100) {
            0..=77 => ExecVariant::Normal,
            78..=84 => ExecVariant::AltConfig,
            85..=89 => ExecVariant::AltStore,
            90..=93 => ExecVariant::WrongExecutor,
            94..=96 => ExecVariant::WrongRentReceiver,
            _ => ExecVariant::MissingRemaining,
        };
        self.execute(i, caller, variant, "op");
    }

    fn op_increase_delay(&mut self) {
        let caller = match self.rng.below(100) {
            0..=84 => self.t.tl_admin,
            85..=92 => self.t.tl_keeper,
            _ => self.stranger,
        };
        let delta: u32 = match self.rng.below(100) {
            0..=5 => 0,
            6..=75 => self.rng.range(1, 20) as u32,
            76..=95 => self.rng.range(21, 600) as u32,
            _ => self.rng.range(601, 100_000) as u32,
        };
        self.increase_delay(caller, delta);
    }

    fn increase_delay(&mut self, caller: Pubkey, delta: u32) {
        let before = self.delay_seen;
        self.log.push(format!("increase_delay caller={caller} delta={delta} before={before}"));
        let ixn = tl_increase_delay_ix(caller, self.store, self.t.timelock_config, delta);
        let r = self.w.send(&[ixn], &[caller]);
        self.m.eval();
        match r {
            Ok(_) => {
                self.log.push("  -> ok".into());
                self.post_tx();
                self.m.count("delay_increase_ok");
                if self.delay_seen > before {
                    self.m.count("delay_strictly_increased");
                    self.nontrivial(&["delay_increase", if delta < 21 { "small" } else if delta < 601 { "mid" } else { "big" }]);
                } else {
                    self.m.count("note_increase_delay_ok_without_increase");
                }
                if self.delay_seen as u64 != before as u64 + delta as u64 {
                    self.m.count("note_delay_not_old_plus_delta");
                }
                if !self.roles.holds(&caller, TIMELOCK_ADMIN) {
                    self.m.count("note_increase_delay_ok_by_non_admin(out of scope: C19)");
                }
            }
            Err((e, _)) => {
                self.log.push(format!("  -> err {}", err_class(&e)));
                self.post_tx();
                if delta == 0 {
                    self.m.count("delay_increase_rejected_zero");
                } else if before as u64 + delta as u64 > u32::MAX as u64 {
                    self.m.count("delay_increase_rejected_overflow");
                    self.nontrivial(&["delay_overflow_rejected"]);
                } else if !self.roles.holds(&caller, TIMELOCK_ADMIN) {
                    self.m.count("delay_increase_denied_not_admin");
                } else {
                    self.m.count("note_unexpected_increase_delay_failure");
                }
            }
        }
    }

    fn tld_roles(&self) -> Vec<String> {
        (0..EXEC_ROLES.len()).map(|e| self.tld(e)).collect()
    }

    fn op_role(&mut self) {
        let admin = self.w.admin;
        let store = self.store;
        if self.mode_b {
            // The store admin changes roles directly through the store's real instructions.
            let roles = self.tld_roles();
            let c = self.rng.below(100);
            if c < 78 {
                let mut users = self.approvers.clone();
                users.push(self.t.tl_admin);
                // Prefer touching the approver of an approved buffer.
                let approved: Vec<(Pubkey, String)> = self
                    .bufs
                    .iter()
                    .filter_map(|b| if let BState::Approved { by, .. } = b.state { Some((by, timelocked_role(EXEC_ROLES[b.exec]))) } else { None })
                    .collect();
                let (user, role) = if !approved.is_empty() && self.rng.chance(1, 2) {
                    approved[self.rng.below(approved.len() as u64) as usize].clone()
                } else {
                    (*self.rng.pick(&users), self.rng.pick(&roles).clone())
                };
                let has = self.roles.grants.contains(&(user, role.clone()));
                let do_revoke = has != self.rng.chance(1, 10);
                let (ixn, eff, name) = if do_revoke {
                    (revoke_role_ix(admin, store, user, &role), Effect::Revoke(user, role.clone()), "revoke")
                } else {
                    (grant_role_ix(admin, store, user, &role), Effect::Grant(user, role.clone()), "grant")
                };
                self.log.push(format!("role {name} user={user} role={role} (direct, by store admin)"));
                match self.w.send(&[ixn], &[admin]) {
                    Ok(_) => {
                        self.log.push("  -> ok".into());
                        self.m.count(&format!("role_{name}_ok"));
                        self.apply_effect(&eff);
                    }
                    Err((e, _)) => {
                        self.log.push(format!("  -> err {}", err_class(&e)));
                        self.m.count(&format!("role_{name}_refused"));
                    }
                }
            } else if c < 94 {
                let role = self.rng.pick(&roles).clone();
                let enabled = self.roles.enabled.contains(&role);
                let (ixn, eff, name) = if enabled {
                    (disable_role_ix(admin, store, &role), Effect::Disable(role.clone()), "disable")
                } else {
                    (enable_role_ix(admin, store, &role), Effect::Enable(role.clone()), "enable")
                };
                self.log.push(format!("role {name} role={role} (direct, by store admin)"));
                match self.w.send(&[ixn], &[admin]) {
                    Ok(_) => {
                        self.log.push("  -> ok".into());
                        self.m.count(&format!("role_{name}_ok"));
                        self.apply_effect(&eff);
                    }
                    Err((e, _)) => {
                        self.log.push(format!("  -> err {}", err_class(&e)));
                        self.m.count(&format!("role_{name}_refused"));
                    }
                }
            } else {
                // TIMELOCK_KEEPER of the keeper flips.
                let user = self.t.tl_keeper;
                let has = self.roles.grants.contains(&(user, TIMELOCK_KEEPER.to_string()));
                let (ixn, eff, name) = if has {
                    (revoke_role_ix(admin, store, user, TIMELOCK_KEEPER), Effect::Revoke(user, TIMELOCK_KEEPER.into()), "revoke_keeper")
                } else {
                    (grant_role_ix(admin, store, user, TIMELOCK_KEEPER), Effect::Grant(user, TIMELOCK_KEEPER.into()), "grant_keeper")
                };
                self.log.push(format!("role {name} user={user} (direct, by store admin)"));
                if self.w.send(&[ixn], &[admin]).is_ok() {
                    self.log.push("  -> ok".into());
                    self.m.count(&format!("role_{name}_ok"));
                    self.apply_effect(&eff);
                }
            }
        } else {
            // Mode A: only the timelock can change roles. Immediate path: the bypass `revoke_role`.
            let admin_tld = timelocked_role(ADMIN_EXECUTOR_ROLE);
            // `__TLD_ADMIN` cannot be revoked through the bypass: try it only rarely.
            let allow_admin_tld = self.rng.chance(1, 12);
            let mut held: Vec<(Pubkey, String)> = self
                .roles
                .grants
                .iter()
                .filter(|(u, r)| r.starts_with(TIMELOCKED_PREFIX) && *u != self.t.tl_admin && (allow_admin_tld || *r != admin_tld))
                .cloned()
                .collect();
            let approved: Vec<(Pubkey, String)> = self
                .bufs
                .iter()
                .filter_map(|b| if let BState::Approved { by, .. } = b.state { Some((by, timelocked_role(EXEC_ROLES[b.exec]))) } else { None })
                .filter(|(u, r)| *u != self.t.tl_admin && *r != admin_tld && self.roles.grants.contains(&(*u, r.clone())))
                .collect();
            if !approved.is_empty() && self.rng.chance(1, 2) {
                held = approved;
            }
            if held.is_empty() {
                return;
            }
            let (user, role) = held[self.rng.below(held.len() as u64) as usize].clone();
            let caller = if self.rng.chance(9, 10) { self.t.tl_admin } else { self.anyone() };
            self.log.push(format!("bypass_revoke_role caller={caller} user={user} role={role}"));
            let ixn = tl_bypass_revoke_role_ix(caller, store, user, &role);
            match self.w.send(&[ixn], &[caller]) {
                Ok(_) => {
                    self.log.push("  -> ok".into());
                    self.m.count("role_bypass_revoke_ok");
                    self.apply_effect(&Effect::Revoke(user, role));
                }
                Err((e, _)) => {
                    self.log.push(format!("  -> err {}", err_class(&e)));
                    self.m.count("role_bypass_revoke_refused");
                }
            }
        }
        self.post_tx();
    }

    fn op_warp(&mut self) {
        let now = self.now();
        let delay = self.delay_seen as i64;
        let targets: Vec<i64> = self.bufs.iter().filter_map(|b| if let BState::Approved { at, .. } = b.state { Some(at.saturating_add(delay)) } else { None }).filter(|t| *t > now).collect();
        let secs = match self.rng.below(100) {
            0..=29 if !targets.is_empty() => {
                let t = *self.rng.pick(&targets);
                (t - 1 - now).max(0)
            }
            30..=59 if !targets.is_empty() => *self.rng.pick(&targets) - now,
            60..=79 => self.rng.range(1, (delay as u64 / 2).max(2)) as i64,
            80..=89 => 1,
            _ => delay + self.rng.range(0, 30) as i64,
        };
        if secs <= 0 {
            return;
        }
        self.w.svm.warp(secs);
        self.m.count("clock_warps");
        self.log.push(format!("warp +{secs} -> now={}", self.now()));
    }

    fn step(&mut self) {
        let live = self.live().len();
        let n_created = self.bufs.iter().filter(|b| b.state == BState::Created).count() as u32;
        let n_approved = self.bufs.iter().filter(|b| matches!(b.state, BState::Approved { .. })).count() as u32;
        let w_create = if live >= MAX_LIVE { 0 } else if live < 3 { 30 } else { 12 };
        let w_approve = (6 + 8 * n_created).min(30);
        let w_execute = (8 + 8 * n_approved).min(36);
        let w_role = if self.mode_b { 9 } else { 4 };
        match self.rng.weighted(&[w_create, w_approve, 4, 4, 2, w_execute, 4, w_role, 13]) {
            0 => self.op_create(),
            1 => self.op_approve(),
            2 => self.op_approve_many(),
            3 => self.op_cancel(),
            4 => self.op_cancel_many(),
            5 => self.op_execute(),
            6 => self.op_increase_delay(),
            7 => self.op_role(),
            _ => self.op_warp(),
        }
    }

    /// End of history: every live buffer is tried now and after the delay; then the delay setters are
    /// probed at the u32 boundary and the config is re-initialised (must be refused).
    fn finale(&mut self) {
        for i in self.live() {
            self.execute(i, self.t.tl_keeper, ExecVariant::Normal, "finale");
        }
        self.w.svm.warp(self.delay_seen as i64);
        self.log.push(format!("warp +delay -> now={}", self.now()));
        for i in self.live() {
            let caller = if self.roles.holds(&self.t.tl_keeper, TIMELOCK_KEEPER) { self.t.tl_keeper } else { self.t.tl_admin };
            self.execute(i, caller, ExecVariant::Normal, "finale_after_delay");
        }
        if self.rng.chance(1, 2) {
            // Overflowing increase must be refused (a wrapped delay would be smaller).
            let d = self.delay_seen;
            if d > 0 {
                self.increase_delay(self.t.tl_admin, u32::MAX - d + 1);
            }
            if self.rng.chance(1, 2) {
                self.increase_delay(self.t.tl_admin, u32::MAX - self.delay_seen);
                self.increase_delay(self.t.tl_admin, 1);
            }
        }
        // Re-initialising the config with a smaller delay must be refused.
        let ixn = tl_initialize_config_ix(self.t.tl_admin, self.store, 0);
        self.log.push("re-initialize_config delay=0".into());
        self.m.eval();
        match self.w.send(&[ixn], &[self.t.tl_admin]) {
            Ok(_) => {
                self.log.push("  -> ok".into());
                self.m.count("note_reinitialize_config_ok");
            }
            Err(_) => {
                self.m.count("reinitialize_config_refused");
            }
        }
        self.post_tx();
    }
}

fn run_history(seed: u64, shard: u64, hist: u64, n_ops: u64, m: &mut Monitor) {
    let mut rng = Rng::derive(seed, shard, hist);
    let mode_b = rng.chance(1, 2);
    // short delays dominate (they let buffers mature inside a history); day / week / month / year / near-limit
    // initial delays exercise `increase_delay` far from zero ("the delay can only increase")
    let delay0: u32 = *rng.pick(&[0u32, 0, 1, 2, 5, 10, 30, 60, 300, 3600, 5, 60, 86_400, 604_800, 2_592_000, 31_536_000, u32::MAX / 2, u32::MAX - 7]);
    let mut w = World::bootstrap_store();
    let store = w.store;
    let approvers: Vec<Pubkey> = (0..3).map(|i| key(&format!("c36:approver:{i}"))).collect();
    let stranger = key("c36:stranger");
    for u in approvers.iter().chain([&stranger]) {
        w.svm.airdrop(u, 1_000 * LAMPORTS);
    }
    // Initial approver roles.
    let mut pre: Vec<(Pubkey, String)> = vec![];
    for (e, role) in EXEC_ROLES.iter().enumerate() {
        let tld = timelocked_role(role);
        let mut any = false;
        for a in &approvers {
            if rng.chance(1, 2) {
                pre.push((*a, tld.clone()));
                any = true;
            }
        }
        if !any && e != 0 {
            pre.push((approvers[e % approvers.len()], tld.clone()));
        }
    }
    // A second store with its own timelock (delay 0): material for substituted-account attacks. The
    // program is built without `multi-store`, so the second store account is injected: a copy of the
    // freshly bootstrapped store (admin is its authority) at another address; everything after that
    // (roles, executor, authority hand-over, timelock config) goes through real instructions.
    let alt_store = key("c36:alt-store");
    let admin = w.admin;
    let snapshot = w.svm.get(&store).cloned().expect("store account");
    w.svm.set_account(alt_store, snapshot);
    let t = w.bootstrap_timelock(store, &EXEC_ROLES, delay0, "main", &pre);
    let alt = w.bootstrap_timelock(alt_store, &["ADMIN"], 0, "main", &[]);
    if mode_b {
        w.tl_restore_admin_authority(store, &t, delay0, "main");
    }
    let mut roles = RoleModel::default();
    for r in [TIMELOCK_ADMIN, TIMELOCK_KEEPER] {
        roles.enabled.insert(r.to_string());
    }
    for r in EXEC_ROLES {
        roles.enabled.insert(timelocked_role(r));
    }
    roles.grants.insert((t.tl_admin, TIMELOCK_ADMIN.into()));
    roles.grants.insert((t.tl_admin, TIMELOCK_KEEPER.into()));
    roles.grants.insert((t.tl_admin, timelocked_role("ADMIN")));
    roles.grants.insert((t.tl_keeper, TIMELOCK_KEEPER.into()));
    for (u, r) in &pre {
        roles.grants.insert((*u, r.clone()));
    }
    let mut h = Hist {
        w,
        t,
        store,
        alt_store,
        alt,
        mode_b,
        roles,
        bufs: vec![],
        by_addr: BTreeMap::new(),
        delay_seen: delay0,
        approvers,
        stranger,
        log: vec![format!("bootstrap mode={} delay0={delay0} pre_grants={}", if mode_b { "B" } else { "A" }, pre.len())],
        rng,
        m,
        ident: (seed, shard, hist),
        n_addr: 0,
        shape_hashes: BTreeSet::new(),
        broken: false,
    };
    h.post_tx();
    h.cross_check_roles();
    if mode_b {
        match store_is_authority(&h.w.svm, &store, &admin) {
            Some(true) => {}
            _ => {
                h.m.inconclusive("harness: mode B bootstrap did not restore the admin authority");
                return;
            }
        }
    }
    for _ in 0..n_ops {
        if h.broken {
            break;
        }
        h.step();
    }
    if !h.broken {
        h.finale();
    }
    h.m.count("histories");
    h.m.count(if mode_b { "histories_mode_B" } else { "histories_mode_A" });
    let n = h.shape_hashes.len() as u64;
    h.m.add("distinct_instruction_shapes(sum over histories)", n);
    h.m.max("max_distinct_instruction_shapes_in_one_history", n);
    h.m.max("max_delay_reached", h.delay_seen as u64);
    if h.m.wants_sample() && hist == 0 && shard < 3 {
        let tail = h.log.len().saturating_sub(40);
        let s = json!({"shard": shard, "history": hist, "mode": if mode_b {"B"} else {"A"}, "delay0": delay0, "ops": h.log.len(), "log_tail": h.log[tail..].to_vec()});
        h.m.sample(s);
    }
}

extern "C" {
    /// glibc `mallopt` (harness-side performance knob only).
    fn mallopt(param: i32, value: i32) -> i32;
}

pub fn run(args: &Args) -> Option<i32> {
    // Every transaction allocates and frees ~20 KiB account blocks; in worker threads glibc answers
    // each free at the top of an arena with `madvise(MADV_DONTNEED)` (≈2 ms under load), which made
    // the kernel the bottleneck. Keep freed memory in the arenas instead (M_TRIM_THRESHOLD = -1,
    // M_TOP_PAD = -2). No influence on what is executed or decided.
    unsafe {
        mallopt(-1, i32::MAX);
        mallopt(-2, 64 << 20);
    }
    let mut mon = Monitor::new(args, RULE);
    let q = hostsvm::QuietStdout::new();
    let only_shard: Option<u64> = args.extra.get("shard").and_then(|s| s.parse().ok());
    let only_hist: Option<u64> = args.extra.get("history").and_then(|s| s.parse().ok());
    let n_shards = args.scale(128, 256);
    let per_shard = args.scale(160, 1000);
    let n_ops = args.scale(140, 180);
    let seed = args.seed;
    vcommon::monitor::run_shards(&mut mon, args.threads, n_shards, |shard, m| {
        if only_shard.is_some_and(|s| s != shard) {
            return;
        }
        for hist in 0..per_shard {
            if only_hist.is_some_and(|h| h != hist) {
                continue;
            }
            if let Err(p) = vcommon::monitor::guard(|| run_history(seed, shard, hist, n_ops, m)) {
                m.count("harness_panics");
                m.inconclusive(&format!("harness: history (shard {shard}, #{hist}) aborted: {p}"));
            }
        }
    });
    drop(q);
    if only_shard.is_none() && only_hist.is_none() {
        mon.require("histories", n_shards * per_shard);
        mon.require("exec_ok", 10_000);
        mon.require("exec_ok_exactly_at_boundary", 2_500);
        mon.require("exec_denied_one_second_early", 6_000);
        mon.require("exec_denied_too_early", 30_000);
        mon.require("exec_denied_not_approved", 40_000);
        mon.require("exec_denied_approver_lost_role", 40_000);
        mon.require("exec_denied_already_executed", 15_000);
        mon.require("exec_denied_already_cancelled", 50_000);
        mon.require("exec_ok_after_role_lost_and_regained", 700);
        mon.require("exec_failed_inner_instruction", 20_000);
        mon.require("approve_ok", 40_000);
        mon.require("approve_many_ok", 1_500);
        mon.require("approve_denied_already_approved", 15_000);
        mon.require("approve_denied_approver_without_role", 50_000);
        mon.require("create_ok", 60_000);
        mon.require("create_rejected_foreign_signer", 20_000);
        mon.require("cancel_ok", 30_000);
        mon.require("role_revocations_between_approve_and_execute", 12_000);
        mon.require("delay_strictly_increased", 25_000);
        mon.require("delay_increase_rejected_overflow", 3_000);
        mon.require("reinitialize_config_refused", n_shards * per_shard);
        mon.require("exec_denied_with_variant_AltConfig", 8_000);
        mon.require("exec_denied_with_variant_AltStore", 6_000);
        mon.require("exec_denied_with_variant_WrongExecutor", 4_000);
    }
    mon.assume("no cluster restart: LastRestartSlot stays at the store's recorded value (under a restart the store defines RESTART_ADMIN holders as holding every role)");
    mon.assume("\"holds the role\" = the role is enabled in the store and granted to the address (gmsol_store RoleStore::has_role); the harness role model is cross-checked against the store account after every role change");
    mon.assume("\"what was buffered\" = program id, data and account list submitted to create_instruction_buffer, with writable flags as the create transaction's message carries them (an account writable anywhere in that transaction, e.g. the fee payer, is writable)");
    mon.assume("the clock only moves forward (svm.warp); timestamps stay far from i64 saturation");
    mon.assume("hostsvm models CPI privilege rules; compute/heap limits are not modelled");
    Some(mon.finish())
}
