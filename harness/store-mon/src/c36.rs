//! Monitor for C36 (see /verif/DESIGN.md §5 C36).
use vcommon::Args;

pub fn run(_args: &Args) -> Option<i32> {
    None
}
