//! Monitor for C38 (see /verif/DESIGN.md §5 C38).
use vcommon::Args;

pub fn run(_args: &Args) -> Option<i32> {
    None
}
