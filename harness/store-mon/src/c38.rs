//! Monitor for C38 (see /verif/DESIGN.md §5 C38): LP staking rewards follow the APY schedule and
//! unstaking is fair.
//!
//! Part (a): the pure reward functions of the liquidity-provider program (through hook H2,
//! `gmsol_liquidity_provider::verif`) against a BigInt per-second definition.
//! Part (b): instruction-level histories in `hostsvm` (initialize / controllers / stake / clock /
//! claim / partial unstake / full exit / claims enabled-disabled / dust in the vault).
use crate::world::{lp::*, World, UNIT};
use anchor_lang::prelude::Pubkey;
use anchor_spl::token::spl_token;
use gmsol_liquidity_provider as lp;
use hostsvm::{key, token, TxError};
use vcommon::{
    big::{b, to_u128},
    json,
    num_bigint::BigInt,
    num_traits::Zero,
    Args, Monitor, Rng,
};

const WEEK: u64 = 7 * 24 * 3600;
const YEAR: u128 = 31_557_600;
const APY_MAX: u128 = lp::APY_MAX;
const NB: usize = 53;

// ------------------------------------------------------------------------------------------------
// Oracles (BigInt)

/// Σ over the elapsed seconds `s ∈ [0, total)` of `gradient[min(s / WEEK, 52)]`, by counting the seconds
/// that fall into each weekly bucket.
fn apy_sum_exact(total: u128, g: &[u128; NB]) -> BigInt {
    let mut acc = BigInt::zero();
    let w = WEEK as u128;
    for (k, gk) in g.iter().enumerate() {
        let lo = (k as u128) * w;
        if total <= lo {
            break;
        }
        let secs = if k == NB - 1 { total - lo } else { (total - lo).min(w) };
        acc += b(*gk) * b(secs);
    }
    acc
}

/// The same sum, literally second by second (used on short durations to validate the oracle above).
fn apy_sum_literal(total: u64, g: &[u128; NB]) -> BigInt {
    let mut acc = BigInt::zero();
    let mut chunk: u128 = 0;
    for s in 0..total {
        let k = ((s / WEEK) as usize).min(NB - 1);
        chunk += g[k];
        if s % 4096 == 4095 {
            acc += b(chunk);
            chunk = 0;
        }
    }
    acc + b(chunk)
}

/// Time-weighted APY, `None` when no second has elapsed (the average is undefined there).
fn twapy_exact(start: i64, now: i64, g: &[u128; NB]) -> Option<(BigInt, BigInt)> {
    if now <= start {
        return None;
    }
    let total = (now as i128 - start as i128) as u128;
    let sum = apy_sum_exact(total, g);
    Some((&sum / b(total), sum))
}

#[derive(Debug, PartialEq, Eq, Clone)]
enum RewardExp {
    /// Exact reward in GT base units (after the documented saturation to `u64::MAX`).
    Amount(u64),
    /// An intermediate does not fit `u128`: the program reports `MathOverflow`.
    Overflow,
}

/// `min(u64::MAX, ⌊⌊value·apy_per_sec / 10^20⌋ · integral / 10^20⌋)` — the rounding the code documents
/// (two `apply_factor` floors, then saturation).
fn reward_exact(value: u128, apy_per_sec: u128, integral: u128) -> RewardExp {
    let unit = b(UNIT);
    let a = b(value) * b(apy_per_sec) / &unit;
    if to_u128(&a).is_none() {
        return RewardExp::Overflow;
    }
    let r = a * b(integral) / &unit;
    match to_u128(&r) {
        None => RewardExp::Overflow,
        Some(x) if x > u64::MAX as u128 => RewardExp::Amount(u64::MAX),
        Some(x) => RewardExp::Amount(x as u64),
    }
}

/// Reward of a position as the instructions compute it: per-second APY = ⌊time-weighted APY / seconds per year⌋.
fn position_reward_exact(value: u128, start: i64, end: i64, g: &[u128; NB], integral: u128) -> RewardExp {
    let avg = match twapy_exact(start, end, g) {
        Some((avg, _)) => to_u128(&avg).unwrap_or(u128::MAX),
        // No elapsed second: the integral is zero as well, any APY gives the same reward.
        None => g[0],
    };
    reward_exact(value, avg / YEAR, integral)
}

// ------------------------------------------------------------------------------------------------
// Part (a): pure functions

fn gen_gradient(rng: &mut Rng) -> [u128; NB] {
    let mut g = [0u128; NB];
    match rng.below(8) {
        0 => g = [rng.biased_u128(APY_MAX, UNIT); NB],
        1 => g = [APY_MAX; NB],
        2 => {
            // increasing ramp
            let step = rng.range_u128(0, APY_MAX / NB as u128);
            for (k, x) in g.iter_mut().enumerate() {
                *x = step * k as u128;
            }
        }
        3 => {
            // decreasing ramp
            let step = rng.range_u128(0, APY_MAX / NB as u128);
            for (k, x) in g.iter_mut().enumerate() {
                *x = APY_MAX - step * k as u128;
            }
        }
        4 => {
            // sparse
            for _ in 0..rng.range(1, 6) {
                let k = rng.below(NB as u64) as usize;
                g[k] = rng.biased_u128(APY_MAX, UNIT);
            }
        }
        5 => {
            // only the last bucket differs
            let base = rng.biased_u128(APY_MAX, UNIT);
            g = [base; NB];
            g[NB - 1] = rng.biased_u128(APY_MAX, UNIT);
        }
        _ => {
            for x in g.iter_mut() {
                *x = rng.biased_u128(APY_MAX, UNIT);
            }
        }
    }
    g
}

fn gen_times(rng: &mut Rng) -> (i64, i64, &'static str) {
    let max = i64::MAX as u64;
    let start: u64 = match rng.below(6) {
        0 => 0,
        1 => rng.range(1_600_000_000, 2_000_000_000),
        2 => rng.log_u64(max),
        3 => max - rng.log_u64(1 << 40),
        _ => rng.range(0, 4_000_000_000),
    };
    let room = max - start;
    let (dur, class): (u64, &'static str) = match rng.below(12) {
        0 => (0, "zero"),
        1 => (rng.range(1, 3), "tiny"),
        2 => (rng.range(1, WEEK - 1), "lt_week"),
        3 | 4 => {
            // around a week boundary
            let k = rng.range(1, 60);
            let d = rng.range(0, 2);
            (if rng.bool() { k * WEEK + d } else { k * WEEK - d }, "week_edge")
        }
        5 => {
            // around the last bucket boundary
            let d = rng.range(0, 3);
            let base = *rng.pick(&[51 * WEEK, 52 * WEEK, 53 * WEEK]);
            (if rng.bool() { base + d } else { base - d }, "last_bucket_edge")
        }
        6 => (rng.range(52 * WEEK, 400 * WEEK), "beyond_last"),
        7 => (rng.range(1, 52 * WEEK), "within_year"),
        8 => (rng.log_u64(max), "log"),
        9 => (max - rng.log_u64(1 << 50), "huge"),
        _ => (rng.range(1, 10 * 365 * 86400), "years"),
    };
    let dur = dur.min(room);
    (start as i64, (start + dur) as i64, if dur == 0 { "zero" } else { class })
}

fn hash_case(parts: &[u128]) -> Vec<u8> {
    let mut v = Vec::with_capacity(parts.len() * 16);
    for p in parts {
        v.extend_from_slice(&p.to_le_bytes());
    }
    v
}

fn pure_apy_case(m: &mut Monitor, rng: &mut Rng) {
    let g = gen_gradient(rng);
    let (start, now, class) = gen_times(rng);
    m.eval();
    m.count("apy_cases");
    m.count(&format!("apy_class_{class}"));
    let got = match vcommon::monitor::guard(|| lp::verif::compute_time_weighted_apy(start, now, &g)) {
        Ok(x) => x,
        Err(p) => {
            m.count("panics");
            m.count("apy_panics");
            let _ = p;
            return;
        }
    };
    let Some((exact, sum)) = twapy_exact(start, now, &g) else {
        // No elapsed second: the average over an empty set is undefined; nothing asserted.
        m.count("apy_zero_duration");
        return;
    };
    let total = (now as i128 - start as i128) as u128;
    let witness = || {
        json!({
            "start": start.to_string(), "now": now.to_string(),
            "gradient": g.iter().map(|x| x.to_string()).collect::<Vec<_>>(),
            "got": got.to_string(), "exact": exact.to_string(), "sum": sum.to_string(),
        })
    };
    // Oracle self-check on short durations: literal per-second sum.
    if total <= 3 * WEEK as u128 && rng.chance(1, 40) {
        let lit = apy_sum_literal(total as u64, &g);
        m.count("apy_literal_per_second_checks");
        if lit != sum {
            m.inconclusive("oracle self-check failed: closed-form bucket sum != literal per-second sum");
            return;
        }
    }
    if b(got) == exact {
        m.count("apy_equal");
        let mut h = vec![start as u128, now as u128];
        h.extend_from_slice(&g);
        m.nontrivial(&hash_case(&h));
        let full = total / WEEK as u128;
        m.max("max_full_weeks_seen", full.min(u64::MAX as u128) as u64);
        if m.wants_sample() && rng.chance(1, 2000) {
            m.sample(json!({"kind": "time_weighted_apy", "start": start.to_string(), "now": now.to_string(), "g0": g[0].to_string(), "g52": g[52].to_string(), "apy": got.to_string()}));
        }
        return;
    }
    if to_u128(&sum).is_none() {
        // The exact per-second sum exceeds u128: the code's saturating accumulator cannot hold it.
        m.count("apy_accumulator_saturated");
        m.violation("C38:compute_time_weighted_apy:accumulator_saturated", witness());
        // Tight residual bound for this class: the accumulator sticks at u128::MAX.
        if got != u128::MAX / total {
            m.violation("C38:compute_time_weighted_apy:saturated_residual_mismatch", witness());
        }
        return;
    }
    m.violation("C38:compute_time_weighted_apy:not_per_second_average", witness());
}

fn call_reward(value: u128, dur: i64, apy_ps: u128, integral: u128) -> Result<Option<u64>, String> {
    vcommon::monitor::guard(|| lp::verif::calculate_gt_reward_amount(value, dur, apy_ps, integral).ok())
}

fn gen_value(rng: &mut Rng) -> u128 {
    match rng.below(6) {
        0 => rng.biased_u128(u128::MAX, UNIT),
        1 => rng.range_u128(0, 1000) * UNIT,
        2 => rng.log_u128(10u128.pow(30)),
        _ => rng.range_u128(UNIT, 10_000_000 * UNIT),
    }
}

fn gen_integral(rng: &mut Rng) -> u128 {
    match rng.below(6) {
        0 => rng.biased_u128(u128::MAX, UNIT),
        1 => 0,
        2 => rng.log_u128(u128::MAX),
        // seconds × (10^20 / minting cost) for plausible costs
        _ => rng.range_u128(0, 400 * WEEK as u128) * rng.log_u128(10u128.pow(14)),
    }
}

fn pure_reward_case(m: &mut Monitor, rng: &mut Rng) {
    let apy = rng.biased_u128(APY_MAX, UNIT);
    let apy_ps = apy / YEAR;
    let dur = rng.biased_i64(WEEK).unsigned_abs().min(i64::MAX as u64) as i64;
    let v1 = gen_value(rng);
    let i1 = gen_integral(rng);
    // A second point with a larger-or-equal stake value and a longer-or-equal cost integral.
    let v2 = match rng.below(4) {
        0 => v1,
        1 => v1.saturating_add(rng.range_u128(0, 3)),
        2 => v1.saturating_add(rng.log_u128(u128::MAX - v1)),
        _ => v1.saturating_add(rng.range_u128(0, UNIT)),
    };
    let i2 = match rng.below(4) {
        0 => i1,
        1 => i1.saturating_add(rng.range_u128(0, 3)),
        2 => i1.saturating_add(rng.log_u128(u128::MAX - i1)),
        _ => i1.saturating_add(rng.range_u128(0, UNIT)),
    };
    m.eval();
    m.count("reward_cases");
    let mut res = [None, None];
    for (slot, (v, i)) in [(v1, i1), (v2, i2)].into_iter().enumerate() {
        let got = match call_reward(v, dur, apy_ps, i) {
            Ok(x) => x,
            Err(_) => {
                m.count("panics");
                m.count("reward_panics");
                return;
            }
        };
        let exp = reward_exact(v, apy_ps, i);
        let w = || json!({"staked_value": v.to_string(), "duration": dur.to_string(), "apy_per_sec": apy_ps.to_string(), "inv_cost_integral": i.to_string(), "got": format!("{got:?}"), "expected": format!("{exp:?}")});
        match (&exp, got) {
            (RewardExp::Amount(e), Some(x)) if *e == x => {
                m.count(if x == 0 {
                    "reward_zero"
                } else if x == u64::MAX {
                    "reward_saturated_u64"
                } else {
                    "reward_positive"
                });
            }
            (RewardExp::Overflow, None) => m.count("reward_overflow_reported"),
            (RewardExp::Amount(_), None) => {
                // The program reports failure although the documented formula is representable.
                m.count("reward_unexpected_failure");
                m.violation("C38:calculate_gt_reward_amount:fails_on_representable", w());
            }
            _ => m.violation("C38:calculate_gt_reward_amount:value_mismatch", w()),
        }
        res[slot] = got;
    }
    if let [Some(r1), Some(r2)] = res {
        m.count("reward_monotone_pairs");
        if r1 > r2 {
            m.violation(
                "C38:calculate_gt_reward_amount:not_monotone",
                json!({"duration": dur.to_string(), "apy_per_sec": apy_ps.to_string(),
                    "value_1": v1.to_string(), "integral_1": i1.to_string(), "reward_1": r1.to_string(),
                    "value_2": v2.to_string(), "integral_2": i2.to_string(), "reward_2": r2.to_string()}),
            );
        } else if r2 > 0 && (v1, i1) != (v2, i2) {
            m.nontrivial(&hash_case(&[v1, i1, v2, i2, apy_ps]));
            if r2 > r1 {
                m.count("reward_strictly_larger");
            }
        }
    } else {
        m.count("reward_pair_with_failure");
    }
}


// ------------------------------------------------------------------------------------------------
// Part (b): instruction-level histories

#[derive(Clone, Debug)]
struct Pos {
    owner: usize,
    market: usize,
    ctrl: u64,
    id: u64,
}

/// What the accounts say about a position before an instruction.
#[derive(Clone, Debug)]
struct PosView {
    amount: u64,
    value: u128,
    start: i64,
    cum: u128,
    vault: u64,
}

struct Hist {
    w: World,
    admin: Pubkey,
    users: Vec<Pubkey>,
    positions: Vec<Pos>,
    ctrls: Vec<(usize, u64)>,
    next_id: u64,
    prices_at: i64,
    prices: Vec<(usize, u128)>,
    log: Vec<String>,
    tag: String,
    samples: u32,
}

const E18: u128 = 1_000_000_000_000_000_000;
/// Chainlink report timestamps are `u32`: keep the simulated clock below this.
const MAX_CLOCK: i64 = 4_000_000_000;

fn err_class(e: &TxError) -> String {
    match e {
        TxError::Program(anchor_lang::solana_program::program_error::ProgramError::Custom(c)) => format!("custom_{c}"),
        TxError::Program(p) => format!("program_{p:?}").chars().filter(|c| c.is_alphanumeric() || *c == '_').take(40).collect(),
        TxError::Panic(_) => "panic".into(),
        TxError::Runtime(s) => format!("runtime_{}", s.split_whitespace().next().unwrap_or("")).chars().filter(|c| c.is_alphanumeric() || *c == '_').collect(),
    }
}

impl Hist {
    fn new(rng: &mut Rng, tag: String) -> Hist {
        let mut w = World::bootstrap_store();
        w.bootstrap_oracle();
        let btc = w.add_token("BTC", 8, 2, true);
        let sol = w.add_token("SOL", 9, 4, false);
        let usdc = w.add_token("USDC", 6, 6, false);
        let m0 = w.add_market(sol, sol, usdc);
        let m1 = w.add_market(btc, sol, usdc);
        let prices = vec![(btc, rng.range_u128(20_000, 90_000) * E18), (sol, rng.range_u128(20, 300) * E18), (usdc, E18)];
        let admin = key("lp-admin");
        let mut h = Hist {
            w,
            admin,
            users: vec![],
            positions: vec![],
            ctrls: vec![],
            next_id: rng.range(0, 1000),
            prices_at: 0,
            prices,
            log: vec![],
            tag,
            samples: 0,
        };
        h.refresh_prices();
        let (sol_mint, usdc_mint) = (h.w.tokens[sol].mint, h.w.tokens[usdc].mint);
        for i in 0..3 {
            let u = h.w.add_user(&format!("lp{i}"));
            token::fund_ata(&mut h.w.svm, &u, &sol_mint, 1_000_000_000_000_000);
            token::fund_ata(&mut h.w.svm, &u, &usdc_mint, 1_000_000_000_000_000);
            h.users.push(u);
            for m in [m0, m1] {
                // Default market caps: 900 SOL / 900 000 USDC pool amount, $750 000 pool value per side.
                let long = rng.range(1, 250) * 1_000_000_000;
                let short = rng.range(100, 200_000) * 1_000_000;
                let d = h.w.create_deposit(u, m, long, short, None, None, &[], &[], 0).unwrap_or_else(|(e, _)| panic!("bootstrap create_deposit: {e:?}"));
                h.w.svm.keep_logs = true;
                h.w.execute_deposit(d, true).unwrap_or_else(|(e, meta)| panic!("bootstrap execute_deposit: {e:?} long={long} short={short} logs={:?}", meta.logs));
                h.w.svm.keep_logs = false;
                h.w.close_deposit(u, d).unwrap_or_else(|(e, _)| panic!("bootstrap close_deposit: {e:?}"));
            }
            let pu = h.w.prepare_user_ix(u);
            h.w.must("prepare_user", &[pu], &[u]);
        }
        // GT: the deployment parameters of the repository's tests with a varied minting cost.
        let mut gt = GtParams::like_tests();
        gt.initial_minting_cost = *rng.pick(&[gt.initial_minting_cost, gt.initial_minting_cost / 100, gt.initial_minting_cost * 100, gt.initial_minting_cost / 7 + 1]);
        gt.grow_step = *rng.pick(&[gt.grow_step, gt.grow_step / 10, gt.grow_step * 1000]);
        let min_stake = match rng.below(4) {
            0 => 0,
            1 => rng.range_u128(1, 50) * UNIT,
            2 => rng.range_u128(50, 5_000) * UNIT,
            _ => 1_000 * UNIT / 100,
        };
        let apy = rng.biased_u128(APY_MAX, UNIT);
        h.w.lp_bootstrap(admin, &gt, min_stake, apy);
        for (m, c) in [(m0, 0u64), (m1, 0), (m0, 1)] {
            let i = h.w.lp_create_controller_ix(admin, h.w.markets[m].market_token, c);
            h.w.must("create_lp_token_controller", &[i], &[admin]);
            h.ctrls.push((m, c));
        }
        h
    }

    fn now(&self) -> i64 {
        self.w.svm.clock.unix_timestamp
    }

    fn note(&mut self, s: String) {
        if self.log.len() >= 400 {
            self.log.remove(0);
        }
        self.log.push(format!("t={} {s}", self.now()));
    }

    fn refresh_prices(&mut self) {
        for (t, p) in self.prices.clone() {
            let spread = p / 2000;
            if let Err((e, _)) = self.w.set_price(t, p - spread, p, p + spread) {
                panic!("bootstrap step `set_price` failed: {e:?}");
            }
        }
        self.prices_at = self.now();
    }

    fn gs(&self) -> lp::GlobalState {
        lp_load::<lp::GlobalState>(&self.w.svm, &lp_global_state()).expect("global state")
    }

    fn controller(&self, market: usize, ctrl: u64) -> lp::LpTokenController {
        lp_load::<lp::LpTokenController>(&self.w.svm, &lp_controller(&self.w.markets[market].market_token, ctrl)).expect("controller")
    }

    fn pos_key(&self, p: &Pos) -> Pubkey {
        lp_position(&lp_controller(&self.w.markets[p.market].market_token, p.ctrl), &self.users[p.owner], p.id)
    }

    fn view(&self, p: &Pos) -> Option<PosView> {
        let k = self.pos_key(p);
        let a: lp::Position = lp_load(&self.w.svm, &k)?;
        let vault = token::token_amount(&self.w.svm, &lp_position_vault(&k))?;
        Some(PosView { amount: a.staked_amount, value: a.staked_value_usd, start: a.stake_start_time, cum: a.cum_inv_cost, vault })
    }

    fn gm_balance(&self, user: usize, market: usize) -> u64 {
        token::token_amount(&self.w.svm, &token::ata(&self.users[user], &self.w.markets[market].market_token)).unwrap_or(0)
    }

    fn witness(&self, extra: vcommon::serde_json::Value) -> vcommon::serde_json::Value {
        json!({"history": self.tag, "detail": extra, "ops": self.log})
    }

    /// `(effective end time, C(end))` the reward computation uses for a position of this controller.
    fn reward_window(&mut self, market: usize, ctrl: u64) -> Option<(i64, u128)> {
        let c = self.controller(market, ctrl);
        if c.is_enabled {
            Some((self.now(), self.w.lp_peek_cum_inv_cost()?))
        } else {
            Some((c.disabled_at, c.disabled_cum_inv_cost))
        }
    }

    fn op_warp(&mut self, rng: &mut Rng, m: &mut Monitor) {
        let room = MAX_CLOCK - self.now();
        if room <= 1 {
            m.count("warp_skipped_clock_limit");
            return;
        }
        let dt = match rng.below(10) {
            0 => rng.range(1, 5),
            1 => rng.range(1, 300),
            2 => rng.range(300, 86_400),
            3 => rng.range(86_400, WEEK),
            4 | 5 => {
                let k = rng.range(1, 8);
                let d = rng.range(0, 2);
                if rng.bool() {
                    k * WEEK + d
                } else {
                    k * WEEK - d
                }
            }
            6 => rng.range(WEEK, 30 * WEEK),
            7 => rng.range(30 * WEEK, 60 * WEEK),
            8 => rng.range(52 * WEEK, 200 * WEEK),
            _ => rng.range(1, 3600),
        } as i64;
        let dt = dt.min(room - 1).max(1);
        self.w.svm.warp(dt);
        m.count("op_warp");
        if dt >= 52 * WEEK as i64 {
            m.count("warp_beyond_last_bucket");
        }
        self.note(format!("warp {dt}"));
    }

    fn op_stake(&mut self, rng: &mut Rng, m: &mut Monitor) {
        let user = rng.below(self.users.len() as u64) as usize;
        let (market, ctrl) = *rng.pick(&self.ctrls);
        let bal = self.gm_balance(user, market);
        let amount = match rng.below(10) {
            0 => 0,
            1 => bal,
            2 => bal.saturating_add(1),
            3 => rng.range(1, 1000),
            4 => rng.log_u64(bal.max(1)).max(1),
            _ => rng.range(1, (bal / 4).max(1)),
        };
        let stale = self.now() - self.prices_at > 250;
        if stale && !rng.chance(1, 12) {
            self.refresh_prices();
        }
        let id = if rng.chance(1, 10) { rng.next_u64() } else { self.next_id };
        self.next_id += 1;
        let gs = self.gs();
        let c_now = self.w.lp_peek_cum_inv_cost();
        let owner = self.users[user];
        let i = self.w.lp_stake_gm_ix(owner, market, ctrl, id, amount);
        let r = self.w.send(&[i], &[owner]);
        m.eval();
        m.count("op_stake");
        let p = Pos { owner: user, market, ctrl, id };
        match r {
            Ok(_) => {
                m.count("stake_ok");
                let v = self.view(&p);
                self.note(format!("stake u={user} m={market} c={ctrl} id={id} amount={amount} -> ok {v:?}"));
                let consistent = match (&v, c_now) {
                    (Some(v), Some(c)) => {
                        v.amount == amount
                            && v.vault == amount
                            && v.start == self.now()
                            && v.cum == c
                            && v.value >= gs.min_stake_value
                            && self.gm_balance(user, market) == bal - amount
                            && amount > 0
                    }
                    _ => false,
                };
                if !consistent {
                    // Not part of C38's statement, but every later oracle relies on it.
                    m.count("stake_record_mismatch");
                    m.inconclusive("a successful stake_gm left a position / vault that does not match the request (later oracles rely on it)");
                }
                if let Some(v) = &v {
                    m.max("max_staked_value_usd_e20_log2", 128 - v.value.leading_zeros() as u64);
                }
                self.positions.push(p);
            }
            Err((e, _)) => {
                let class = if amount == 0 {
                    "zero_amount".to_string()
                } else if amount > bal {
                    "above_balance".to_string()
                } else if stale && self.now() - self.prices_at > 250 {
                    "stale_prices".to_string()
                } else {
                    err_class(&e)
                };
                m.count(&format!("stake_rejected_{class}"));
                self.note(format!("stake u={user} m={market} c={ctrl} id={id} amount={amount} -> {e:?}"));
            }
        }
    }

    fn pick_position(&self, rng: &mut Rng) -> Option<usize> {
        if self.positions.is_empty() {
            None
        } else {
            Some(rng.below(self.positions.len() as u64) as usize)
        }
    }


    fn drop_position(&mut self, p: &Pos) {
        self.positions.retain(|q| !(q.owner == p.owner && q.market == p.market && q.ctrl == p.ctrl && q.id == p.id));
    }

    /// Compare the GT minted by an instruction with the BigInt reward of the documented formula.
    fn check_reward(&self, m: &mut Monitor, site: &str, v: &PosView, window: Option<(i64, u128)>, g: &[u128; NB], minted: u64, x: u64) {
        let Some((end, c_end)) = window else {
            m.count("reward_window_unavailable");
            return;
        };
        let Some(integral) = c_end.checked_sub(v.cum) else {
            m.count("reward_window_unavailable");
            return;
        };
        let exp = position_reward_exact(v.value, v.start, end, g, integral);
        if exp == RewardExp::Amount(minted) {
            m.count(&format!("{site}_reward_exact"));
            if minted > 0 {
                m.count(&format!("{site}_reward_positive"));
                let weeks = ((end - v.start).max(0) as u64) / WEEK;
                m.max("max_weeks_staked_at_reward", weeks);
                if weeks >= 52 {
                    m.count("reward_paid_beyond_last_bucket");
                }
            }
        } else {
            m.violation(
                &format!("C38:{site}:reward_mismatch"),
                self.witness(json!({
                    "staked_value_usd": v.value.to_string(), "stake_start_time": v.start, "effective_end_time": end,
                    "cum_inv_cost_prev": v.cum.to_string(), "cum_inv_cost_end": c_end.to_string(),
                    "gradient": g.iter().map(|x| x.to_string()).collect::<Vec<_>>(),
                    "gt_minted": minted.to_string(), "expected": format!("{exp:?}"), "unstake_amount": x.to_string(),
                })),
            );
        }
    }

    fn op_claim(&mut self, rng: &mut Rng, m: &mut Monitor) {
        let Some(pi) = self.pick_position(rng) else {
            m.count("claim_skipped_no_position");
            return;
        };
        let p = self.positions[pi].clone();
        let Some(v) = self.view(&p) else {
            self.drop_position(&p);
            return;
        };
        let gs = self.gs();
        let window = self.reward_window(p.market, p.ctrl);
        let owner = self.users[p.owner];
        let gt0 = self.w.lp_gt_amount(&owner);
        let mint = self.w.markets[p.market].market_token;
        let i = self.w.lp_claim_gt_ix(owner, mint, p.ctrl, p.id);
        let r = self.w.send(&[i], &[owner]);
        m.eval();
        m.count("op_claim");
        match r {
            Ok(_) => {
                let minted = self.w.lp_gt_amount(&owner).wrapping_sub(gt0);
                self.note(format!("claim u={} m={} c={} id={} enabled={} -> ok minted={minted}", p.owner, p.market, p.ctrl, p.id, gs.claim_enabled));
                if !gs.claim_enabled {
                    m.violation("C38:claim_gt:allowed_while_claims_disabled", self.witness(json!({"position": format!("{p:?}"), "pre": format!("{v:?}")})));
                    return;
                }
                m.count("claim_ok");
                self.check_reward(m, "claim_gt", &v, window, &gs.apy_gradient, minted, 0);
                if minted > 0 {
                    m.nontrivial(&hash_case(&[1, v.value, v.start as u128, self.now() as u128, minted as u128]));
                }
                match self.view(&p) {
                    Some(a) if a.amount == v.amount && a.value == v.value && a.vault == v.vault && a.start == v.start => {}
                    _ => {
                        m.count("claim_changed_stake");
                        m.inconclusive("a successful claim_gt changed the staked amount / value / vault (later oracles rely on it being untouched)");
                    }
                }
            }
            Err((e, _)) => {
                self.note(format!("claim u={} m={} c={} id={} enabled={} -> {e:?}", p.owner, p.market, p.ctrl, p.id, gs.claim_enabled));
                if !gs.claim_enabled {
                    m.count("claim_rejected_claims_disabled");
                } else {
                    m.count(&format!("claim_failed_{}", err_class(&e)));
                }
            }
        }
    }

    fn op_unstake(&mut self, rng: &mut Rng, m: &mut Monitor) {
        let Some(pi) = self.pick_position(rng) else {
            m.count("unstake_skipped_no_position");
            return;
        };
        let p = self.positions[pi].clone();
        let Some(v) = self.view(&p) else {
            self.drop_position(&p);
            return;
        };
        let gs = self.gs();
        let a = v.amount;
        let x: u64 = match rng.below(16) {
            0 => 0,
            1 => a.saturating_add(1),
            2 => u64::MAX,
            3 => 1,
            4 => a.saturating_sub(1),
            5 | 6 | 7 | 8 => a,
            9 => a / 2,
            10 => a - a / rng.range(2, 1000),
            11 => (a / rng.range(2, 1000)).max(1),
            _ => rng.range(1, a.max(1)),
        };
        let window = self.reward_window(p.market, p.ctrl);
        let owner = self.users[p.owner];
        let gt0 = self.w.lp_gt_amount(&owner);
        let bal0 = self.gm_balance(p.owner, p.market);
        let mint = self.w.markets[p.market].market_token;
        let i = self.w.lp_unstake_ix(owner, mint, p.ctrl, p.id, x);
        let r = self.w.send(&[i], &[owner]);
        m.eval();
        m.count("op_unstake");
        let after = self.view(&p);
        let pos_key = self.pos_key(&p);
        let detail = |h: &Hist, what: &str| {
            h.witness(json!({
                "what": what, "position": format!("{p:?}"), "pre": format!("{v:?}"), "post": format!("{after:?}"),
                "unstake_amount": x.to_string(), "claim_enabled": gs.claim_enabled, "min_stake_value": gs.min_stake_value.to_string(),
                "user_balance_before": bal0.to_string(), "user_balance_after": h.gm_balance(p.owner, p.market).to_string(),
            }))
        };
        match r {
            Ok(_) => {
                let minted = self.w.lp_gt_amount(&owner).wrapping_sub(gt0);
                self.note(format!("unstake u={} m={} c={} id={} x={x} of {a} enabled={} -> ok minted={minted} post={after:?}", p.owner, p.market, p.ctrl, p.id, gs.claim_enabled));
                if after.is_none() {
                    self.drop_position(&p);
                }
                if x == 0 || x > a {
                    m.violation("C38:unstake_lp:accepted_amount_outside_position", detail(self, "x = 0 or x > staked amount accepted"));
                    return;
                }
                if !gs.claim_enabled && x != a {
                    m.violation("C38:unstake_lp:partial_while_claims_disabled", detail(self, "partial unstake accepted while claims are disabled"));
                    return;
                }
                let remaining = a - x;
                let keep = to_u128(&(b(v.value) * b(remaining) / b(a))).expect("keep fits");
                let got = self.gm_balance(p.owner, p.market) as i128 - bal0 as i128;
                let sig = hash_case(&[2, a as u128, v.value, x as u128, v.vault as u128, gs.min_stake_value]);
                match &after {
                    None => {
                        // The position is gone: a full exit.
                        let vault_left = token::token_amount(&self.w.svm, &lp_position_vault(&pos_key)).unwrap_or(0);
                        if remaining != 0 && keep >= gs.min_stake_value {
                            m.violation("C38:unstake_lp:partial_request_closed_position", detail(self, "a partial request whose kept value is not below the minimum closed the position"));
                        } else if got != v.vault as i128 || vault_left != 0 {
                            m.violation("C38:unstake_lp:full_exit_did_not_sweep_vault", detail(self, "full exit must return the whole vault balance"));
                        } else {
                            m.count("unstake_full_ok");
                            m.nontrivial(&sig);
                            if v.vault > a {
                                m.count("unstake_full_ok_with_dust_in_vault");
                            }
                            if remaining != 0 {
                                m.count("unstake_full_ok_forced_by_min_stake_value");
                            }
                            if !gs.claim_enabled {
                                m.count("unstake_full_ok_while_claims_disabled");
                            }
                        }
                    }
                    Some(post) => {
                        if remaining == 0 {
                            m.violation("C38:unstake_lp:full_exit_left_position", detail(self, "x = staked amount must be a full exit"));
                        } else if got != x as i128 || post.vault != v.vault - x {
                            m.violation("C38:unstake_lp:partial_returned_wrong_amount", detail(self, "partial unstake must return exactly the requested tokens"));
                        } else if post.amount != remaining || post.value != keep {
                            m.violation("C38:unstake_lp:partial_kept_wrong_value", detail(self, &format!("partial unstake must keep floor(value*remaining/old) = {keep}")));
                        } else {
                            m.count("unstake_partial_ok");
                            m.nontrivial(&sig);
                            if m.wants_sample() && self.samples < 4 && self.tag.ends_with("history=0") {
                                self.samples += 1;
                                m.sample(json!({"kind": "partial unstake", "staked_amount": a.to_string(), "staked_value_usd": v.value.to_string(), "unstake_amount": x.to_string(),
                                    "kept_amount": post.amount.to_string(), "kept_value_usd": post.value.to_string(), "gt_minted": minted.to_string(), "claim_enabled": gs.claim_enabled}));
                            }
                            if (b(v.value) * b(remaining)) % b(a) != BigInt::zero() {
                                m.count("unstake_partial_ok_value_rounded_down");
                            }
                        }
                    }
                }
                self.check_reward(m, "unstake_lp", &v, window, &gs.apy_gradient, minted, x);
            }
            Err((e, _)) => {
                self.note(format!("unstake u={} m={} c={} id={} x={x} of {a} enabled={} -> {e:?}", p.owner, p.market, p.ctrl, p.id, gs.claim_enabled));
                if x == 0 {
                    m.count("unstake_rejected_zero");
                } else if x > a {
                    m.count("unstake_rejected_above_staked");
                } else if !gs.claim_enabled && x != a {
                    m.count("unstake_rejected_partial_while_claims_disabled");
                } else {
                    m.count(&format!("unstake_failed_{}", err_class(&e)));
                }
                if after.is_none() {
                    // A failed transaction cannot have closed it (atomicity).
                    m.inconclusive("harness: position vanished after a failed unstake");
                }
            }
        }
    }

    fn op_dust(&mut self, rng: &mut Rng, m: &mut Monitor) {
        let Some(pi) = self.pick_position(rng) else {
            return;
        };
        let p = self.positions[pi].clone();
        let donor = rng.below(self.users.len() as u64) as usize;
        let amount = rng.range(1, 5000).min(self.gm_balance(donor, p.market));
        if amount == 0 {
            return;
        }
        let mint = self.w.markets[p.market].market_token;
        let src = token::ata(&self.users[donor], &mint);
        let dst = lp_position_vault(&self.pos_key(&p));
        let Ok(i) = spl_token::instruction::transfer(&spl_token::ID, &src, &dst, &self.users[donor], &[], amount) else {
            return;
        };
        let donor_key = self.users[donor];
        match self.w.send(&[i], &[donor_key]) {
            Ok(_) => {
                m.count("op_dust_into_vault");
                self.note(format!("dust donor={donor} -> vault of u={} m={} c={} id={} amount={amount}", p.owner, p.market, p.ctrl, p.id));
            }
            Err(_) => m.count("dust_failed"),
        }
    }

    fn op_admin(&mut self, rng: &mut Rng, m: &mut Monitor) {
        let admin = self.admin;
        let (what, i, signer) = match rng.weighted(&[6, 4, 3, 3, 1]) {
            0 => {
                let en = rng.chance(2, 3);
                (format!("set_claim_enabled {en}"), self.w.lp_set_claim_enabled_ix(admin, en), admin)
            }
            1 => {
                // Around the values of existing positions so that partial unstakes cross it.
                let base = self
                    .pick_position(rng)
                    .and_then(|pi| self.view(&self.positions[pi].clone()))
                    .map(|v| v.value)
                    .unwrap_or(100 * UNIT);
                let v = match rng.below(6) {
                    0 => 0,
                    1 => base / 4,
                    2 => base / 2,
                    3 => base - base / 10,
                    4 => base.saturating_add(1),
                    _ => rng.range_u128(0, 2_000) * UNIT,
                };
                (format!("update_min_stake_value {v}"), self.w.lp_update_min_stake_value_ix(admin, v), admin)
            }
            2 => {
                let n = rng.range(1, 6) as usize;
                let idx: Vec<u8> = (0..n)
                    .map(|_| {
                        let hi = if rng.chance(1, 30) { 60 } else { 53 };
                        rng.below(hi) as u8
                    })
                    .collect();
                let vals: Vec<u128> = (0..n).map(|_| if rng.chance(1, 25) { APY_MAX + rng.range_u128(1, UNIT) } else { rng.biased_u128(APY_MAX, UNIT) }).collect();
                (format!("update_apy_gradient_sparse {idx:?} {vals:?}"), self.w.lp_update_apy_sparse_ix(admin, idx, vals), admin)
            }
            3 => {
                let s = rng.below(53) as u8;
                let e = rng.range(s as u64, 52) as u8;
                let n = (e - s + 1) as usize;
                let n = if rng.chance(1, 20) { n + 1 } else { n };
                let base = rng.biased_u128(APY_MAX, UNIT);
                let vals: Vec<u128> = (0..n)
                    .map(|k| if rng.chance(1, 60) { APY_MAX + 1 } else if rng.bool() { base } else { (base / (k as u128 + 1)).min(APY_MAX) })
                    .collect();
                (format!("update_apy_gradient_range {s}..={e} {vals:?}"), self.w.lp_update_apy_range_ix(admin, s, e, vals), admin)
            }
            _ => {
                let stranger = self.users[0];
                ("set_claim_enabled by a stranger".to_string(), self.w.lp_set_claim_enabled_ix(stranger, true), stranger)
            }
        };
        let r = self.w.send(&[i], &[signer]);
        m.count("op_admin");
        match r {
            Ok(_) => {
                m.count("admin_ok");
                if signer != admin {
                    m.count("admin_by_stranger_accepted");
                }
                self.note(format!("{what} -> ok"));
                let gs = self.gs();
                m.eval();
                if gs.apy_gradient.iter().any(|x| *x > APY_MAX) {
                    m.violation("C38:apy_gradient:stored_value_above_cap", self.witness(json!({"gradient": gs.apy_gradient.iter().map(|x| x.to_string()).collect::<Vec<_>>()})));
                }
            }
            Err((e, _)) => {
                m.count("admin_rejected");
                self.note(format!("{what} -> {e:?}"));
            }
        }
    }

    fn op_disable(&mut self, rng: &mut Rng, m: &mut Monitor) {
        let (market, ctrl) = *rng.pick(&self.ctrls);
        let admin = self.admin;
        let i = self.w.lp_disable_controller_ix(admin, lp_controller(&self.w.markets[market].market_token, ctrl));
        match self.w.send(&[i], &[admin]) {
            Ok(_) => {
                m.count("op_disable_controller_ok");
                self.note(format!("disable controller m={market} c={ctrl} -> ok"));
            }
            Err((e, _)) => {
                m.count("disable_controller_rejected");
                self.note(format!("disable controller m={market} c={ctrl} -> {e:?}"));
            }
        }
    }

    fn op_calc(&mut self, rng: &mut Rng, m: &mut Monitor) {
        let Some(pi) = self.pick_position(rng) else {
            return;
        };
        let p = self.positions[pi].clone();
        let keeper = self.w.keeper;
        let i = self.w.lp_calculate_gt_reward_ix(self.users[p.owner], self.w.markets[p.market].market_token, p.ctrl, p.id);
        match self.w.send(&[i], &[keeper]) {
            Ok(_) => m.count("op_calculate_gt_reward_ok"),
            Err((e, _)) => m.count(&format!("calculate_gt_reward_failed_{}", err_class(&e))),
        }
    }

    fn run(&mut self, rng: &mut Rng, m: &mut Monitor, ops: u64) {
        for _ in 0..ops {
            match rng.weighted(&[16, 18, 14, 26, 12, 5, 1, 2]) {
                0 => self.op_stake(rng, m),
                1 => self.op_warp(rng, m),
                2 => self.op_claim(rng, m),
                3 => self.op_unstake(rng, m),
                4 => self.op_admin(rng, m),
                5 => self.op_dust(rng, m),
                6 => {
                    if rng.chance(1, 4) {
                        self.op_disable(rng, m)
                    }
                }
                _ => self.op_calc(rng, m),
            }
        }
    }
}

pub fn run(args: &Args) -> Option<i32> {
    let quiet = hostsvm::QuietStdout::new();
    let mut mon = Monitor::new(
        args,
        "part (a): random (start, now, 53-bucket gradient) and (value, per-second APY, integral) tuples through the real \
         compute_time_weighted_apy / calculate_gt_reward_amount (hook H2); a case is non-trivial when a second elapsed and the \
         result equals the BigInt per-second average (distinct = hash of all inputs), or when a monotonicity pair with a positive \
         reward was compared (distinct = hash of both points). part (b): random instruction histories in hostsvm \
         (stake_gm / clock / claim_gt / unstake_lp / admin / dust transfers); non-trivial = a successful claim with GT minted, or a \
         successful partial / full unstake checked against the oracle (distinct = hash of (staked amount, value, request, vault balance, min stake value))",
    );
    let n_shards = args.scale(64, 256);
    let pure_cases = args.scale(12_000, 40_000);
    let histories = args.scale(4, 10);
    let ops = args.scale(90, 140);
    let seed = args.seed;
    vcommon::monitor::run_shards(&mut mon, args.threads, n_shards, |shard, m| {
        let mut rng = Rng::derive(seed, shard, 38);
        for hidx in 0..histories {
            let mut hrng = Rng::derive(seed, shard, 3800 + hidx);
            let mut h = Hist::new(&mut hrng, format!("seed={seed} shard={shard} history={hidx}"));
            m.count("histories");
            h.run(&mut hrng, m, ops);
        }
        for _ in 0..pure_cases {
            pure_apy_case(m, &mut rng);
            pure_reward_case(m, &mut rng);
        }
    });
    drop(quiet);
    mon.assume("timestamps satisfy 0 <= stake_start_time <= now (what the program can store from the clock); negative timestamps are not generated");
    mon.assume("APY gradient values are within the 200% cap (APY_MAX = 2*10^20); values above the cap are only sent to the update instructions to see them rejected");
    mon.assume("with no elapsed second (now == start) the per-second average is undefined and nothing is asserted about the returned APY");
    mon.assume("rounding documented by the code: APY = floor(sum over elapsed seconds / seconds); per-second APY = floor(APY / 31_557_600); reward = min(u64::MAX, floor(floor(value*apy_per_sec/10^20) * integral/10^20)); MathOverflow when an intermediate exceeds u128; partial unstake keeps floor(value*remaining/old)");
    mon.assume("instruction level: GM tokens come from real deposits; C(now) is read by simulating the store's update_gt_cumulative_inv_cost_factor at the same timestamp; the reward actually minted is the change of the owner's GT balance");
    mon.assume("a partial request that would leave less than min_stake_value is turned into a full exit by the program (whole vault swept); accepted as a full exit only when floor(value*remaining/old) < min_stake_value");
    mon.set_extra(
        "not_covered",
        json!([
            "stake_glv (GLV positions): no GLV flow in this monitor; claim / unstake code paths are shared with GM positions",
            "Token-2022 LP mints",
            "transfer_authority / accept_authority / set_pricing_staleness (not part of C38)",
        ]),
    );
    mon.require("apy_equal", args.scale(100_000, 1_000_000));
    mon.require("reward_monotone_pairs", args.scale(100_000, 1_000_000));
    mon.require("apy_class_week_edge", 1000);
    mon.require("apy_class_beyond_last", 1000);
    mon.require("stake_ok", args.scale(300, 3000));
    mon.require("claim_ok", args.scale(100, 1000));
    mon.require("claim_gt_reward_positive", args.scale(30, 300));
    mon.require("unstake_partial_ok", args.scale(100, 1000));
    mon.require("unstake_full_ok", args.scale(100, 1000));
    mon.require("unstake_full_ok_with_dust_in_vault", args.scale(10, 100));
    mon.require("unstake_full_ok_while_claims_disabled", args.scale(20, 200));
    mon.require("unstake_rejected_partial_while_claims_disabled", args.scale(30, 300));
    mon.require("claim_rejected_claims_disabled", args.scale(20, 200));
    Some(mon.finish())
}
