//! World builder: bootstraps a store with roles, tokens, oracle, markets in `hostsvm` through the
//! real instructions.
use anchor_lang::{prelude::*, solana_program::instruction::Instruction, InstructionData, ToAccountMetas};
use hostsvm::{key, Svm, TxError, TxMeta};

pub use gmsol_store::ID as STORE_PID;

pub fn ix(program_id: Pubkey, accounts: impl ToAccountMetas, data: impl InstructionData) -> Instruction {
    Instruction {
        program_id,
        accounts: accounts.to_account_metas(None),
        data: data.data(),
    }
}

pub fn new_svm() -> Svm {
    let mut svm = Svm::new();
    hostsvm::token::add_spl_programs(&mut svm);
    svm.add_program(gmsol_store::ID, gmsol_store::entry);
    svm.add_program(gmsol_treasury::ID, gmsol_treasury::entry);
    svm.add_program(gmsol_timelock::ID, gmsol_timelock::entry);
    svm.add_program(gmsol_competition::ID, gmsol_competition::entry);
    svm.add_program(gmsol_liquidity_provider::ID, gmsol_liquidity_provider::entry);
    svm.add_program(gmsol_callback::ID, gmsol_callback::entry);
    svm.add_program(gmsol_mock_chainlink_verifier::ID, gmsol_mock_chainlink_verifier::entry);
    svm
}

pub fn smoke() -> i32 {
    let mut svm = new_svm();
    svm.keep_logs = true;
    let admin = key("admin");
    svm.airdrop(&admin, 1_000_000_000_000);
    let store = gmsol_sdk::pda::find_store_address("", &STORE_PID).0;
    let r = svm.process(
        &[ix(
            STORE_PID,
            gmsol_store::accounts::Initialize {
                payer: admin,
                authority: None,
                receiver: None,
                holding: None,
                store,
                system_program: anchor_lang::system_program::ID,
            },
            gmsol_store::instruction::Initialize { key: String::new() },
        )],
        &[admin],
    );
    println!("{r:?}");
    println!("store len {:?}", svm.get(&store).map(|a| a.data.len()));
    let stranger = key("stranger");
    svm.airdrop(&stranger, 1_000_000_000);
    for who in [stranger, admin] {
        let r = svm.process(
            &[ix(
                STORE_PID,
                gmsol_store::accounts::EnableRole { authority: who, store },
                gmsol_store::instruction::EnableRole { role: "MARKET_KEEPER".into() },
            )],
            &[who],
        );
        println!("{:?}", r.map(|m| m.logs).map_err(|(e, m)| (e, m.logs)));
    }
    0
}

#[allow(dead_code)]
fn _unused(_: TxError, _: TxMeta) {}
