//! Monitor for C23 (see /verif/DESIGN.md §5 C23).
use vcommon::Args;

pub fn run(_args: &Args) -> Option<i32> {
    None
}
