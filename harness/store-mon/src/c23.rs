//! C23 — user actions complete or cancel exactly once and escrow always goes home.
//!
//! Observed: every deposit / withdrawal / shift / order / GLV-deposit / GLV-withdrawal / GLV-shift
//! account of the exchange workload after every transaction (state read from the account header),
//! escrow token accounts, owner ATAs, lamports, market accounts, vaults, the GLV account, the GLV
//! token supply and the GLV's market-token vaults. Oracle: the lifecycle automaton
//!   (absent) → Pending → {Completed | Cancelled} → (closed)
//! plus the closing / cancelling rules stated in the property.
//!
//! GLV shifts are keeper-owned (`instructions/glv/shift.rs`): the action's owner is the GLV account,
//! nothing is escrowed, `close_glv_shift` is ORDER_KEEPER-only, and the *funder* (the keeper that
//! created and paid for the shift; it is the recorded rent receiver) may close it in any state
//! ("Allow the funder to close the GLV shift even if it has not reached a final state"). So for a
//! GLV shift the funder plays the owner's part, "a keeper" is an ORDER_KEEPER that is not the funder,
//! and the rent + unused execution fee go home to the funder.
use crate::sim::{action_state, ActKind, ActionRec, Op, Sim, StepRec, Who};
use crate::world::{exchange::load, World};
use anchor_lang::prelude::Pubkey;
use gmsol_model::{Balance, ClockKind, PoolKind};
use gmsol_store::states::Market;
use gmsol_utils::action::ActionState;
use hostsvm::{token, Svm};
use strum::IntoEnumIterator;
use vcommon::{json, monitor::{guard, run_shards}, Args, Monitor};

/// Stored (committed) market state: all pools, clocks and the other-state block.
/// Names of the components of `market_semantic` that differ.
pub fn market_semantic_diff(a: &Svm, b: &Svm, market: &Pubkey) -> Vec<String> {
    let (Some(x), Some(y)) = (load::<Market>(a, market), load::<Market>(b, market)) else { return vec!["missing".into()] };
    let mut out = vec![];
    let f = |p: Option<gmsol_store::states::market::pool::Pool>| p.map(|p| (p.long_amount().unwrap_or(0), p.short_amount().unwrap_or(0)));
    for k in PoolKind::iter() {
        let (p, q) = (f(x.pool(k)), f(y.pool(k)));
        if p != q {
            out.push(format!("pool {k:?}: {p:?} -> {q:?}"));
        }
    }
    for k in ClockKind::iter() {
        if x.clock(k) != y.clock(k) {
            out.push(format!("clock {k:?}: {:?} -> {:?}", x.clock(k), y.clock(k)));
        }
    }
    let o = |m: &Market| (m.state().trade_count(), m.state().long_token_balance_raw(), m.state().short_token_balance_raw(), m.state().funding_factor_per_second());
    if o(&x) != o(&y) {
        out.push(format!("other: {:?} -> {:?}", x.state(), y.state()));
    }
    out
}

pub fn market_semantic(svm: &Svm, market: &Pubkey) -> Option<Vec<u8>> {
    let m = load::<Market>(svm, market)?;
    let mut out = vec![];
    for k in PoolKind::iter() {
        if let Some(p) = m.pool(k) {
            out.extend_from_slice(&p.long_amount().unwrap_or(0).to_le_bytes());
            out.extend_from_slice(&p.short_amount().unwrap_or(0).to_le_bytes());
        }
    }
    for k in ClockKind::iter() {
        out.extend_from_slice(&m.clock(k).unwrap_or(i64::MIN).to_le_bytes());
    }
    // Other state without the revision counter (`rev` counts buffer commits, including commits that
    // change nothing; it carries no balance / pool information).
    let st = m.state();
    out.extend_from_slice(&st.trade_count().to_le_bytes());
    out.extend_from_slice(&st.long_token_balance_raw().to_le_bytes());
    out.extend_from_slice(&st.short_token_balance_raw().to_le_bytes());
    out.extend_from_slice(&st.funding_factor_per_second().to_le_bytes());
    Some(out)
}

fn st(s: Option<ActionState>) -> &'static str {
    match s {
        None => "absent",
        Some(ActionState::Pending) => "pending",
        Some(ActionState::Completed) => "completed",
        Some(ActionState::Cancelled) => "cancelled",
        Some(_) => "other",
    }
}

fn tok(svm: &Svm, k: &Pubkey) -> u64 {
    token::token_amount(svm, k).unwrap_or(0)
}

struct Ctx<'a> {
    shard: u64,
    step: u64,
    sim: &'a Sim,
}

impl Ctx<'_> {
    fn wit(&self, extra: serde_json::Value) -> serde_json::Value {
        json!({"shard": self.shard, "step": self.step, "detail": extra, "history": self.sim.history})
    }
}

use vcommon::serde_json;

fn check_step(m: &mut Monitor, c: &Ctx, rec: &StepRec, last: &mut Vec<Option<ActionState>>) {
    let sim = c.sim;
    let w: &World = &sim.w;
    // (1) automaton over all known actions
    while last.len() < sim.actions.len() {
        last.push(None);
    }
    for (i, a) in sim.actions.iter().enumerate() {
        let pre = if Some(i) == rec.created { None } else { action_state(&rec.pre, a.kind, &a.addr) };
        let now = action_state(&w.svm, a.kind, &a.addr);
        if pre != now {
            m.eval();
            m.count(&format!("transition_{}_{}_to_{}", kind_name(a), st(pre), st(now)));
            m.nontrivial(format!("{}:{}:{}:{}", kind_name(a), st(pre), st(now), rec.op.name()).as_bytes());
            let legal = matches!(
                (pre, now),
                (None, Some(ActionState::Pending))
                    | (Some(ActionState::Pending), Some(ActionState::Completed))
                    | (Some(ActionState::Pending), Some(ActionState::Cancelled))
                    | (Some(_), None)
                    // position-cut orders are created and completed by the keeper in one transaction
                    | (None, Some(ActionState::Completed))
            );
            let cut_only = matches!((pre, now), (None, Some(ActionState::Completed)));
            if !legal || (cut_only && !a.is_position_cut) {
                m.violation(
                    &format!("C23:lifecycle:illegal_transition_{}_to_{}", st(pre), st(now)),
                    c.wit(json!({"action": format!("{:?}", a.addr), "kind": kind_name(a), "op": format!("{:?}", rec.op)})),
                );
            }
            if pre.is_some() && now.is_none() && !matches!(rec.op, Op::Close { .. }) {
                m.violation(
                    "C23:lifecycle:action_account_disappeared_without_close",
                    c.wit(json!({"action": format!("{:?}", a.addr), "op": format!("{:?}", rec.op)})),
                );
            }
        }
        last[i] = now;
    }
    // (2) executions
    if let Op::Execute { action, throw } = &rec.op {
        let a = &sim.actions[*action];
        let pre = action_state(&rec.pre, a.kind, &a.addr);
        let now = action_state(&w.svm, a.kind, &a.addr);
        if rec.ok() {
            m.eval();
            if pre != Some(ActionState::Pending) {
                m.violation(
                    "C23:execute:succeeded_on_non_pending_action",
                    c.wit(json!({"action": format!("{:?}", a.addr), "kind": kind_name(a), "pre": st(pre), "now": st(now)})),
                );
            }
            if now == Some(ActionState::Cancelled) {
                // soft failure: cancelled, escrow back, markets and vaults untouched
                m.count(&format!("soft_failed_execution_{}", kind_name(a)));
                m.nontrivial(format!("softfail:{}:{}", kind_name(a), throw).as_bytes());
                for mi in &w.markets {
                    if market_semantic(&rec.pre, &mi.market) != market_semantic(&w.svm, &mi.market) {
                        m.violation(
                            "C23:execute:failed_execution_changed_market_state",
                            c.wit(json!({"action": format!("{:?}", a.addr), "kind": kind_name(a), "market": mi.name, "diff": market_semantic_diff(&rec.pre, &w.svm, &mi.market)})),
                        );
                    }
                }
                for t in &w.tokens {
                    if t.synthetic {
                        continue;
                    }
                    let v = w.vault(&t.mint);
                    if tok(&rec.pre, &v) != tok(&w.svm, &v) {
                        m.violation(
                            "C23:execute:failed_execution_changed_vault_balance",
                            c.wit(json!({"action": format!("{:?}", a.addr), "token": t.name})),
                        );
                    }
                }
                for mi in &w.markets {
                    let v = w.vault(&mi.market_token);
                    if tok(&rec.pre, &v) != tok(&w.svm, &v) || token::mint_supply(&rec.pre, &mi.market_token) != token::mint_supply(&w.svm, &mi.market_token) {
                        m.violation(
                            "C23:execute:failed_execution_changed_market_token_supply_or_vault",
                            c.wit(json!({"action": format!("{:?}", a.addr), "market": mi.name})),
                        );
                    }
                }
                for (e, mint) in &a.escrows {
                    if tok(&rec.pre, e) != tok(&w.svm, e) {
                        m.violation(
                            "C23:execute:failed_execution_did_not_return_escrow",
                            c.wit(json!({"action": format!("{:?}", a.addr), "kind": kind_name(a), "mint": format!("{mint}"), "pre": tok(&rec.pre, e), "post": tok(&w.svm, e)})),
                        );
                    }
                }
                // the GLV is untouched as well: account (market-token balances, last shift time, config),
                // GLV token supply, and the market tokens it holds
                let glv = &sim.glv;
                if rec.pre.get(&glv.glv).map(|x| &x.data) != w.svm.get(&glv.glv).map(|x| &x.data) {
                    m.violation(
                        "C23:execute:failed_execution_changed_glv_account",
                        c.wit(json!({"action": format!("{:?}", a.addr), "kind": kind_name(a), "diff": glv_diff(&rec.pre, &w.svm, &glv.glv)})),
                    );
                }
                if token::mint_supply(&rec.pre, &glv.glv_token) != token::mint_supply(&w.svm, &glv.glv_token) {
                    m.violation(
                        "C23:execute:failed_execution_changed_glv_token_supply",
                        c.wit(json!({"action": format!("{:?}", a.addr), "kind": kind_name(a),
                            "pre": token::mint_supply(&rec.pre, &glv.glv_token), "post": token::mint_supply(&w.svm, &glv.glv_token)})),
                    );
                }
                for mi in &sim.glv_markets {
                    let v = sim.glv_vault_of(*mi);
                    if tok(&rec.pre, &v) != tok(&w.svm, &v) {
                        m.violation(
                            "C23:execute:failed_execution_changed_glv_vault_balance",
                            c.wit(json!({"action": format!("{:?}", a.addr), "kind": kind_name(a), "market": w.markets[*mi].name, "pre": tok(&rec.pre, &v), "post": tok(&w.svm, &v)})),
                        );
                    }
                }
            } else if now == Some(ActionState::Completed) {
                m.count(&format!("completed_execution_{}", kind_name(a)));
            }
        } else if let Some(Err((e, _))) = &rec.result {
            m.count(&format!("hard_failed_execution_{}", kind_name(a)));
            if e.is_panic() {
                // a panic aborts the transaction (pre-state restored); the property does not forbid it
                m.count("panics");
                m.count(&format!("panic_in_execution_of_{}_{}", st(pre), kind_name(a)));
                if std::env::var("VERIF_ERRSTAT").is_ok() {
                    eprintln!("PANIC shard {} step {} {:?} pre={} :: {e:?}\n  history: {:#?}", c.shard, c.step, rec.op, st(pre), sim.history);
                }
            }
            if pre != Some(ActionState::Pending) {
                m.count(&format!("reexecution_of_{}_{}_rejected", st(pre), kind_name(a)));
                if std::env::var("VERIF_ERRSTAT").is_ok() {
                    let s: String = format!("{e:?}").chars().take(50).collect();
                    m.count(&format!("errstat_reexec_{}_{}_{}", st(pre), kind_name(a), s));
                }
            }
        }
    }
    // (3) closes
    if let Op::Close { action, who } = &rec.op {
        let a = &sim.actions[*action];
        let pre = action_state(&rec.pre, a.kind, &a.addr);
        if rec.ok() {
            m.eval();
            m.count(&format!("close_ok_by_{who:?}_{}", st(pre)));
            if a.kind.is_glv() {
                m.count(&format!("close_ok_{}_by_{who:?}_{}", kind_name(a), st(pre)));
            }
            m.nontrivial(format!("close:{}:{:?}:{}", kind_name(a), who, st(pre)).as_bytes());
            match who {
                Who::Stranger => m.violation(
                    "C23:close:stranger_closed_an_action",
                    c.wit(json!({"action": format!("{:?}", a.addr), "pre": st(pre)})),
                ),
                Who::Receiver => m.violation(
                    "C23:close:non_owner_receiver_closed_an_action",
                    c.wit(json!({"action": format!("{:?}", a.addr), "pre": st(pre), "signer": format!("{:?}", sim.who(Who::Receiver, a))})),
                ),
                Who::Keeper if pre == Some(ActionState::Pending) => m.violation(
                    "C23:close:keeper_closed_a_pending_action",
                    c.wit(json!({"action": format!("{:?}", a.addr)})),
                ),
                _ => {}
            }
            let closed = w.svm.get(&a.addr).is_none();
            if closed {
                // every escrowed token went to the owner's ATA; escrow accounts are gone / empty
                let mut lamports_home: u64 = rec.pre.lamports(&a.addr);
                for (e, mint) in &a.escrows {
                    let pre_amt = tok(&rec.pre, e);
                    let post_amt = tok(&w.svm, e);
                    lamports_home += rec.pre.lamports(e) - w.svm.lamports(e);
                    let ata = sim.home_ata(&a.owner, mint);
                    let mut gained = tok(&w.svm, &ata) as i128 - tok(&rec.pre, &ata) as i128;
                    // Orders may name a receiver other than the owner. Pending / cancelled: everything in
                    // escrow is what the owner paid in and goes home to the owner. Completed: escrows hold
                    // the outputs, which go to the receiver (any pay-in remainder still to the owner).
                    let receiver = if a.kind == ActKind::Order { crate::sim::order_receiver(&rec.pre, &a.addr).filter(|r| *r != a.owner) } else { None };
                    if let Some(r) = receiver {
                        let rata = sim.home_ata(&r, mint);
                        let r_gained = tok(&w.svm, &rata) as i128 - tok(&rec.pre, &rata) as i128;
                        m.count(&format!("close_of_order_with_other_receiver_{}", st(pre)));
                        if pre == Some(ActionState::Completed) {
                            gained += r_gained;
                        } else if r_gained != 0 {
                            m.violation(
                                "C23:close:escrow_of_unexecuted_order_sent_to_receiver",
                                c.wit(json!({"action": format!("{:?}", a.addr), "mint": format!("{mint}"), "escrow_before": pre_amt, "receiver_gained": r_gained.to_string(), "pre_state": st(pre)})),
                            );
                        }
                    }
                    if post_amt != 0 || gained != pre_amt as i128 {
                        m.violation(
                            "C23:close:escrow_not_returned_to_owner",
                            c.wit(json!({"action": format!("{:?}", a.addr), "mint": format!("{mint}"), "escrow_before": pre_amt, "escrow_after": post_amt, "owner_gained": gained.to_string(), "pre_state": st(pre)})),
                        );
                    }
                    if pre_amt > 0 {
                        m.count("escrow_tokens_returned_on_close");
                        if a.kind.is_glv() {
                            let what = if *mint == sim.glv.glv_token { "glv_tokens" } else if w.markets.iter().any(|x| x.market_token == *mint) { "market_tokens" } else { "pool_tokens" };
                            m.count(&format!("escrow_{what}_returned_on_close_{}", kind_name(a)));
                        }
                    }
                }
                // rent + unused execution fee go to the owner (rent receiver; the funder for a GLV shift);
                // position-cut orders were funded by the keeper, so there the receiver is the keeper.
                if !a.is_position_cut {
                    let gained = w.svm.lamports(&a.rent_receiver) as i128 - rec.pre.lamports(&a.rent_receiver) as i128;
                    if gained != lamports_home as i128 {
                        m.violation(
                            "C23:close:lamports_not_returned_to_owner",
                            c.wit(json!({"action": format!("{:?}", a.addr), "kind": kind_name(a), "owner_gained": gained.to_string(), "action_and_escrow_lamports": lamports_home, "who": format!("{who:?}")})),
                        );
                    } else if a.kind.is_glv() {
                        m.count(&format!("lamports_home_on_close_{}", kind_name(a)));
                    }
                }
            } else {
                m.count("close_ok_but_account_kept");
            }
        } else if rec.result.is_some() {
            m.count(&format!("close_rejected_by_{who:?}_{}", st(pre)));
            if a.kind.is_glv() {
                m.count(&format!("close_rejected_{}_by_{who:?}_{}", kind_name(a), st(pre)));
            }
            if *who == Who::Stranger || *who == Who::Receiver || (*who == Who::Keeper && pre == Some(ActionState::Pending)) {
                m.eval();
                m.nontrivial(format!("close_denied:{}:{:?}:{}", kind_name(a), who, st(pre)).as_bytes());
            }
        }
    }
    if let Op::CancelIfNoPosition { action } = &rec.op {
        if rec.ok() {
            let a = &sim.actions[*action];
            m.count("cancel_if_no_position_ok");
            let _ = a;
        }
    }
}

fn kind_name(a: &ActionRec) -> &'static str {
    match a.kind {
        ActKind::Deposit => "deposit",
        ActKind::Withdrawal => "withdrawal",
        ActKind::Shift => "shift",
        ActKind::Order => {
            if a.is_position_cut {
                "cut_order"
            } else {
                "order"
            }
        }
        ActKind::GlvDeposit => "glv_deposit",
        ActKind::GlvWithdrawal => "glv_withdrawal",
        ActKind::GlvShift => "glv_shift",
    }
}

/// Which documented parts of the GLV account differ.
fn glv_diff(a: &Svm, b: &Svm, glv: &Pubkey) -> Vec<String> {
    let (Some(x), Some(y)) = (load::<gmsol_store::states::Glv>(a, glv), load::<gmsol_store::states::Glv>(b, glv)) else { return vec!["missing".into()] };
    let mut out = vec![];
    if x.shift_last_executed_at() != y.shift_last_executed_at() {
        out.push(format!("shift_last_executed_at: {} -> {}", x.shift_last_executed_at(), y.shift_last_executed_at()));
    }
    for mt in x.market_tokens() {
        let (p, q) = (x.market_config(&mt).map(|c| c.balance()), y.market_config(&mt).map(|c| c.balance()));
        if p != q {
            out.push(format!("balance of {mt}: {p:?} -> {q:?}"));
        }
    }
    if out.is_empty() {
        out.push("other bytes".into());
    }
    out
}

pub fn run(args: &Args) -> Option<i32> {
    let mut mon = Monitor::new(
        args,
        "random multi-market histories (see sim.rs) over deposits, withdrawals, shifts, orders, position cuts (liquidation / ADL) \
         and GLV deposits / withdrawals / shifts (a GLV over the three SOL/USDC markets) with create / execute (throwing and \
         non-throwing) / close by owner, keeper and stranger, double executions, unreachable minimum outputs, stale prices and \
         expired requests, through the real store instructions in hostsvm; oracle = lifecycle automaton + close/cancel rules \
         checked after every transaction. non-trivial = an observed action state transition, a soft-failed execution, or a \
         close attempt by each party; distinct = (action kind, pre state, post state / party, operation)",
    );
    mon.assume("GLV shifts are keeper-owned: the funder (creating ORDER_KEEPER, recorded rent receiver) plays the owner's part and may close in any state; 'a keeper' is an ORDER_KEEPER that did not fund the shift; a GLV shift escrows nothing, so only its lamports go home");
    mon.assume("a failed GLV execution must leave the GLV account (byte-identical), the GLV token supply and the GLV's market-token vaults unchanged, in addition to the market / vault / escrow rules of plain actions");
    mon.assume("GLV pricing / caps are judged by the C45 monitor, not here");
    mon.assume("'without touching any market' is judged on pools, clocks, recorded balances, trade count and funding factor; the buffer revision counter (bumped by no-op commits) is excluded");
    mon.assume("all ATAs exist when an action is closed (the 'ATA not initialised: skip close' path is counted, not judged)");
    let shards = args.scale(32, 256);
    let steps = args.scale(520, 900);
    let quiet = hostsvm::QuietStdout::new();
    run_shards(&mut mon, args.threads, shards, |shard, m| {
        let mut sim = Sim::new(args.seed, shard);
        let mut last = vec![];
        for step in 0..steps {
            // program panics are caught by hostsvm (failed transaction); `guard` only keeps them quiet
            let rec = match guard(|| sim.step()) {
                Ok(r) => r,
                Err(e) => {
                    m.inconclusive(&format!("harness: step aborted by panic: {e}"));
                    break;
                }
            };
            let c = Ctx { shard, step, sim: &sim };
            check_step(m, &c, &rec, &mut last);
            if m.has_violations() {
                break;
            }
            if m.wants_sample() && step % 53 == 7 {
                if let Op::Close { .. } | Op::Execute { .. } = rec.op {
                    m.sample(json!({"shard": shard, "step": step, "op": format!("{:?}", rec.op), "ok": rec.ok()}));
                }
            }
        }
    });
    drop(quiet);
    mon.require("close_ok_by_Owner_pending", 20);
    mon.require("close_ok_by_Keeper_completed", 5);
    mon.require("close_rejected_by_Stranger_pending", 5);
    mon.require("close_rejected_by_Keeper_pending", 5);
    mon.require("escrow_tokens_returned_on_close", 20);
    for k in ["glv_deposit", "glv_withdrawal", "glv_shift"] {
        mon.require(&format!("transition_{k}_absent_to_pending"), 50);
        mon.require(&format!("transition_{k}_pending_to_completed"), 10);
        mon.require(&format!("transition_{k}_pending_to_cancelled"), 8);
        mon.require(&format!("transition_{k}_pending_to_absent"), 4);
        mon.require(&format!("soft_failed_execution_{k}"), 8);
        mon.require(&format!("reexecution_of_completed_{k}_rejected"), 3);
        mon.require(&format!("close_rejected_{k}_by_Keeper_pending"), 1);
    }
    mon.require("transition_cut_order_absent_to_completed", 30);
    Some(mon.finish())
}
