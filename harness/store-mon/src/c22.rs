//! Monitor for C22 (see /verif/DESIGN.md §5 C22).
use vcommon::Args;

pub fn run(_args: &Args) -> Option<i32> {
    None
}
