//! C22 — market vaults stay solvent after every successful store instruction.
//!
//! Observed: after every successful transaction of the exchange workload (`sim.rs`), every market
//! account and every shared SPL vault. Oracle (independent restatement of the property, BigInt-free
//! because all quantities fit u128): per market and pool token
//!   recorded balance ≥ liquidity + swap-impact + claimable-fee amounts,
//!   recorded balance ≥ Σ position collateral in that token,
//! and per vault: Σ over markets of recorded balances of that token ≤ SPL vault amount.
use crate::sim::{action_state, ActKind, Op, Sim, StepRec};
use crate::world::{exchange::load, World};
use gmsol_model::{Balance, PoolKind};
use gmsol_store::states::{HasMarketMeta, Market};
use hostsvm::token;
use std::collections::BTreeMap;
use vcommon::{json, monitor::{guard, run_shards}, Args, Monitor};

/// Returns a list of `(signature class, detail)` for every solvency rule broken in `w`.
pub fn solvency_violations(w: &World) -> Vec<(&'static str, String)> {
    let mut out = vec![];
    let mut per_token: BTreeMap<anchor_lang::prelude::Pubkey, u128> = BTreeMap::new();
    for (i, mi) in w.markets.iter().enumerate() {
        let Some(m) = load::<Market>(&w.svm, &mi.market) else {
            continue;
        };
        let amt = |k: PoolKind, long: bool| -> u128 {
            m.pool(k)
                .map(|p| if long { p.long_amount().unwrap_or(0) } else { p.short_amount().unwrap_or(0) })
                .unwrap_or(0)
        };
        let need = |long: bool| amt(PoolKind::Primary, long) + amt(PoolKind::SwapImpact, long) + amt(PoolKind::ClaimableFee, long);
        let coll = |long: bool| amt(PoolKind::CollateralSumForLong, long) + amt(PoolKind::CollateralSumForShort, long);
        let st = m.state();
        let (bl, bs) = (st.long_token_balance_raw() as u128, st.short_token_balance_raw() as u128);
        let meta = m.market_meta();
        if m.is_pure() {
            let bal = bl + bs;
            let n = need(true) + need(false);
            let c = coll(true) + coll(false);
            if bal < n {
                out.push(("pools_exceed_recorded_balance", format!("market {i} (pure): balance {bal} < liquidity+impact+fees {n}")));
            }
            if bal < c {
                out.push(("collateral_exceeds_recorded_balance", format!("market {i} (pure): balance {bal} < collateral {c}")));
            }
            *per_token.entry(meta.long_token_mint).or_default() += bal;
        } else {
            for (long, bal, mint) in [(true, bl, meta.long_token_mint), (false, bs, meta.short_token_mint)] {
                let (n, c) = (need(long), coll(long));
                if bal < n {
                    out.push((
                        "pools_exceed_recorded_balance",
                        format!("market {i} side long={long}: balance {bal} < liquidity+impact+fees {n}"),
                    ));
                }
                if bal < c {
                    out.push((
                        "collateral_exceeds_recorded_balance",
                        format!("market {i} side long={long}: balance {bal} < collateral {c}"),
                    ));
                }
                *per_token.entry(mint).or_default() += bal;
            }
        }
    }
    for (mint, sum) in per_token {
        let vault = token::token_amount(&w.svm, &w.vault(&mint)).unwrap_or(0) as u128;
        if sum > vault {
            out.push(("recorded_balances_exceed_vault", format!("token {mint}: Σ recorded {sum} > vault {vault}")));
        }
    }
    out
}

pub fn run(args: &Args) -> Option<i32> {
    let mut mon = Monitor::new(
        args,
        "random multi-market histories (4 markets sharing the SOL/USDC vaults, one single-token market, a GLV over the three \
         SOL/USDC markets; deposits, withdrawals, shifts, swap/position orders with swap paths, GLV deposits / withdrawals / \
         shifts, liquidations, ADL (driven: price moves in favour of a side, lowered pnl-factor limits, update_adl_state, \
         auto_deleverage of a profitable position), fee claims, keeper transfers, price moves, clock warps, fault ops) \
         executed through the real store instructions in hostsvm; the solvency oracle runs after every successful \
         transaction (GLV instructions included). non-trivial = a successful transaction that changed a market \
         account or a vault; distinct = hash of (operation kind, which markets / vaults changed)",
    );
    mon.assume("hostsvm runtime (no compute/heap limits); SPL token programs are the real processors");
    let shards = args.scale(32, 256);
    let steps = args.scale(350, 900);
    let quiet = hostsvm::QuietStdout::new();
    run_shards(&mut mon, args.threads, shards, |shard, m| {
        let mut sim = Sim::new(args.seed, shard);
        for v in solvency_violations(&sim.w) {
            m.violation(&format!("C22:bootstrap:{}", v.0), json!({"detail": v.1}));
        }
        for step in 0..steps {
            // program panics are caught by hostsvm (failed transaction); `guard` only keeps them quiet
            let rec: StepRec = match guard(|| sim.step()) {
                Ok(r) => r,
                Err(e) => {
                    m.inconclusive(&format!("harness: step aborted by panic: {e}"));
                    break;
                }
            };
            m.count(&format!("op_{}", rec.op.name()));
            match &rec.result {
                Some(Ok(_)) => m.count(&format!("ok_{}", rec.op.name())),
                Some(Err((e, _))) => {
                    m.count(&format!("err_{}", rec.op.name()));
                    if e.is_panic() {
                        m.count("panics");
                    }
                    if std::env::var("VERIF_ERRSTAT").is_ok() {
                        let s = format!("{e:?}");
                        let s: String = s.chars().take(60).collect();
                        m.count(&format!("errstat_{}_{}", rec.op.name(), s));
                    }
                }
                None => {}
            }
            if !rec.ok() {
                continue;
            }
            m.eval();
            // what kind of action did a successful execution run (GLV executions perform market
            // deposits / withdrawals / shifts underneath), and did it complete or cancel?
            if let Op::Execute { action, .. } = &rec.op {
                let a = &sim.actions[*action];
                let kind = match a.kind {
                    ActKind::Deposit => "deposit",
                    ActKind::Withdrawal => "withdrawal",
                    ActKind::Shift => "shift",
                    ActKind::Order => "order",
                    ActKind::GlvDeposit => "glv_deposit",
                    ActKind::GlvWithdrawal => "glv_withdrawal",
                    ActKind::GlvShift => "glv_shift",
                };
                let outcome = match action_state(&sim.w.svm, a.kind, &a.addr) {
                    Some(s) if s.is_completed() => "completed",
                    Some(s) if s.is_cancelled() => "cancelled",
                    _ => "other",
                };
                m.count(&format!("ok_execute_{kind}_{outcome}"));
            }
            // which markets / vaults changed?
            let mut changed = vec![];
            for (i, mi) in sim.w.markets.iter().enumerate() {
                if rec.pre.get(&mi.market) != sim.w.svm.get(&mi.market) {
                    changed.push(i as u8);
                }
            }
            for t in [sim.tok.sol, sim.tok.usdc] {
                let v = sim.w.vault(&sim.w.tokens[t].mint);
                if rec.pre.get(&v) != sim.w.svm.get(&v) {
                    changed.push(100 + t as u8);
                }
            }
            if !changed.is_empty() {
                let mut sig = rec.op.name().as_bytes().to_vec();
                sig.extend_from_slice(&changed);
                m.nontrivial(&sig);
                m.count("state_changing_tx");
            }
            let v = solvency_violations(&sim.w);
            if !v.is_empty() {
                for (class, detail) in v {
                    m.violation(
                        &format!("C22:{}:{}", rec.op.name(), class),
                        json!({"shard": shard, "step": step, "detail": detail, "history": sim.history}),
                    );
                }
                break;
            }
            if m.wants_sample() && !changed.is_empty() && step % 37 == 5 {
                m.sample(json!({"shard": shard, "step": step, "op": format!("{:?}", rec.op), "changed": changed}));
            }
        }
        m.add("positions_open_at_end", sim.open_positions().len() as u64);
    });
    drop(quiet);
    mon.require("state_changing_tx", 500);
    mon.require("ok_execute", 100);
    mon.require("ok_execute_glv_deposit_completed", 10);
    mon.require("ok_execute_glv_withdrawal_completed", 5);
    mon.require("ok_execute_glv_shift_completed", 5);
    mon.require("ok_adl", 30);
    mon.require("ok_liquidate", 3);
    Some(mon.finish())
}
