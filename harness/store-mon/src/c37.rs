//! Monitor for C37 (see /verif/DESIGN.md §5 C37).
use vcommon::Args;

pub fn run(_args: &Args) -> Option<i32> {
    None
}
