//! Monitor for C37 "Treasury factors stay valid and GT buyback payouts are proportional"
//! (see /verif/DESIGN.md §5 C37).
//!
//! Full flow through the real treasury and store programs in hostsvm: `initialize_config`,
//! `initialize_treasury_vault_config`, `set_treasury_vault_config`, `insert_token_to_treasury_vault`,
//! `toggle_token_flag`, `set_gt_factor` / `set_buyback_factor`, `prepare_gt_exchange_vault`,
//! `prepare_gt_bank`, `claim_fees`, `deposit_to_treasury_vault` (the instruction that funds the bank),
//! `request_gt_exchange`, `confirm_gt_buyback`, `sync_gt_bank_v2`, `complete_gt_exchange` in random order.
use crate::world::{
    exchange::{OrderKind, OrderReq},
    gt::GtParams,
    treasury::Treasury,
    World, UNIT,
};
use anchor_lang::prelude::Pubkey;
use hostsvm::{token, TxError};
use std::collections::BTreeMap;
use vcommon::{json, monitor::run_shards, num_bigint::BigInt, serde_json::Value, Args, Monitor, Rng};

const E18: u128 = 1_000_000_000_000_000_000;

struct Base {
    w: World,
    t: Treasury,
    users: Vec<Pubkey>,
    market: usize,
    /// Real (non-synthetic) tokens usable as treasury tokens: indices into `w.tokens`.
    real: Vec<usize>,
    all_tokens: Vec<usize>,
}

/// USD price (18 decimals) per whole token.
fn price_of(name: &str) -> u128 {
    match name {
        "BTC" | "WBTC" => 60_000 * E18,
        "SOL" => 150 * E18,
        "USDC" => E18,
        "BONK" => E18 / 50_000,
        _ => E18,
    }
}

fn refresh_prices(w: &mut World, tokens: &[usize], rng: Option<&mut Rng>) -> bool {
    let mut ok = true;
    let mut rng = rng;
    for &i in tokens {
        let p = price_of(&w.tokens[i].name);
        // Optional ±2 % wobble and a bid/ask spread (prices only matter for how much is reserved at confirmation).
        let p = match rng.as_deref_mut() {
            Some(r) => p / 1000 * r.range(980, 1020) as u128,
            None => p,
        };
        ok &= w.set_price(i, p - p / 1000, p, p + p / 1000).is_ok();
    }
    ok
}

fn base_world() -> Base {
    let mut w = World::bootstrap_store();
    w.bootstrap_oracle();
    let btc = w.add_token("BTC", 8, 2, true);
    let sol = w.add_token("SOL", 9, 4, false);
    let usdc = w.add_token("USDC", 6, 6, false);
    let wbtc = w.add_token("WBTC", 8, 2, false);
    let bonk = w.add_token("BONK", 5, 10, false);
    let market = w.add_market(btc, sol, usdc);
    let all_tokens = vec![btc, sol, usdc, wbtc, bonk];
    assert!(refresh_prices(&mut w, &all_tokens, None), "bootstrap: set prices");
    let (sol_mint, usdc_mint) = (w.tokens[sol].mint, w.tokens[usdc].mint);
    let lp = w.add_user("lp");
    token::fund_ata(&mut w.svm, &lp, &sol_mint, 20_000_000_000_000);
    token::fund_ata(&mut w.svm, &lp, &usdc_mint, 3_000_000_000_000);
    let d = w
        .create_deposit(lp, market, 800_000_000_000, 700_000_000_000, None, None, &[], &[], 0)
        .unwrap_or_else(|(e, _)| panic!("bootstrap: create_deposit {e:?}"));
    w.execute_deposit(d, true).unwrap_or_else(|(e, _)| panic!("bootstrap: execute_deposit {e:?}"));
    w.close_deposit(lp, d).unwrap_or_else(|(e, _)| panic!("bootstrap: close_deposit {e:?}"));
    let mut users = vec![];
    for name in ["u0", "u1", "u2", "u3", "u4", "u5"] {
        let u = w.add_user(name);
        w.prepare_user(u).unwrap_or_else(|(e, _)| panic!("bootstrap: prepare_user {e:?}"));
        users.push(u);
    }
    // Two position orders so that the market holds claimable (receiver) fees for `claim_fees`.
    token::fund_ata(&mut w.svm, &users[0], &usdc_mint, 1_000_000_000_000);
    for (size, collateral) in [(40_000u128, 8_000u64), (25_000, 6_000)] {
        let mut req = OrderReq::new(OrderKind::MarketIncrease, market, false, false);
        req.size_delta_value = size * UNIT;
        req.initial_collateral_delta_amount = collateral * 1_000_000;
        let o = w.create_order(users[0], &req).unwrap_or_else(|(e, _)| panic!("bootstrap: create_order {e:?}"));
        w.execute_order(o, true).unwrap_or_else(|(e, _)| panic!("bootstrap: execute_order {e:?}"));
        w.close_order(users[0], o).unwrap_or_else(|(e, _)| panic!("bootstrap: close_order {e:?}"));
    }
    let t = w.bootstrap_treasury(0);
    Base { w, t, users, market, real: vec![sol, usdc, wbtc, bonk], all_tokens }
}

struct BankModel {
    vault: Pubkey,
    bank: Pubkey,
    confirmed: bool,
    /// Recorded balances right after confirmation and the confirmed GT total.
    b0: BTreeMap<Pubkey, u64>,
    g0: u64,
    remaining: u64,
    /// Requested (unclaimed) GT per owner.
    pending: BTreeMap<Pubkey, u64>,
    paid: BTreeMap<Pubkey, u128>,
    claims_done: u64,
}

struct Ctx<'a> {
    seed: u64,
    shard: u64,
    hist: u64,
    log: &'a mut Vec<String>,
}

impl Ctx<'_> {
    fn witness(&self, detail: Value) -> Value {
        let n = self.log.len();
        let from = n.saturating_sub(300);
        json!({"seed": self.seed, "shard": self.shard, "history": self.hist, "ops_before": self.log[from..].to_vec(), "ops_omitted": from, "detail": detail})
    }
}

fn err_name(e: &TxError) -> String {
    match e {
        TxError::Program(p) => match e.custom_code() {
            Some(c) => format!("custom_{c}"),
            None => format!("program_{p:?}").chars().take(40).collect(),
        },
        TxError::Panic(_) => "panic".into(),
        TxError::Runtime(r) => format!("runtime_{}", r.chars().take(24).collect::<String>()),
    }
}

fn factor_candidate(rng: &mut Rng) -> u128 {
    match rng.below(12) {
        0 => 0,
        1 => UNIT,
        2 => UNIT + 1,
        3 => UNIT - 1,
        4 => 2 * UNIT,
        5 => u128::MAX,
        6 => UNIT + rng.log_u128(u128::MAX - UNIT),
        7 => rng.log_u128(UNIT),
        8 => UNIT / 100 * rng.range(1, 100) as u128,
        9 => UNIT + UNIT / 100 * rng.range(1, 400) as u128,
        _ => rng.range_u128(0, UNIT),
    }
}

/// One setter attempt + oracle: a stored factor never exceeds 100 % (10^20).
fn op_set_factor(base: &Base, w: &mut World, rng: &mut Rng, m: &mut Monitor, cx: &mut Ctx, force: Option<(bool, u128)>) {
    let (is_gt, factor) = force.unwrap_or_else(|| (rng.bool(), factor_candidate(rng)));
    let stranger = force.is_none() && rng.chance(1, 10);
    let authority = if stranger { base.users[0] } else { w.keeper };
    let Some(before) = w.treasury_config(&base.t) else {
        m.inconclusive("harness: treasury config unreadable");
        return;
    };
    let name = if is_gt { "set_gt_factor" } else { "set_buyback_factor" };
    cx.log.push(format!("{name} factor={factor} by={}", if stranger { "stranger" } else { "treasury admin" }));
    let r = if is_gt { w.treasury_set_gt_factor(&base.t, authority, factor) } else { w.treasury_set_buyback_factor(&base.t, authority, factor) };
    let Some(after) = w.treasury_config(&base.t) else { return };
    m.eval();
    let (old, new) = if is_gt { (before.gt_factor(), after.gt_factor()) } else { (before.buyback_factor(), after.buyback_factor()) };
    if after.gt_factor() > UNIT || after.buyback_factor() > UNIT {
        m.violation(
            &format!("C37:{name}:stored_factor_exceeds_100_percent"),
            cx.witness(json!({"requested": factor.to_string(), "gt_factor": after.gt_factor().to_string(), "buyback_factor": after.buyback_factor().to_string()})),
        );
    }
    match r {
        Ok(_) => {
            if factor > UNIT {
                m.violation(&format!("C37:{name}:accepted_factor_above_100_percent"), cx.witness(json!({"requested": factor.to_string()})));
            } else if new != factor {
                m.violation(&format!("C37:{name}:stored_ne_requested"), cx.witness(json!({"requested": factor.to_string(), "stored": new.to_string()})));
            }
            m.count("set_factor_ok");
            if factor == UNIT {
                m.count("set_factor_exactly_100_percent_ok");
            }
            if stranger {
                m.count("set_factor_by_stranger_accepted");
            }
            m.nontrivial(&[name.as_bytes(), &factor.to_le_bytes()].concat());
        }
        Err((e, _)) => {
            if new != old {
                m.violation(&format!("C37:{name}:rejected_but_changed"), cx.witness(json!({"requested": factor.to_string()})));
            }
            let class = if stranger {
                "set_factor_rejected_stranger"
            } else if factor > UNIT {
                m.nontrivial(&[name.as_bytes(), b"rej", &factor.to_le_bytes()].concat());
                "set_factor_rejected_above_100_percent"
            } else if factor == old {
                "set_factor_rejected_unchanged_value"
            } else {
                "set_factor_rejected_unexpected"
            };
            m.count(class);
            m.count(&format!("set_factor_err_{}", err_name(&e)));
        }
    }
}

fn bank_balances(w: &World, bank: &Pubkey) -> Option<Vec<(Pubkey, u64)>> {
    let b = w.gt_bank(bank)?;
    Some(b.tokens().map(|t| (t, b.get_balance(&t).unwrap_or(0))).collect())
}

/// `complete_gt_exchange` by `owner` on `bk` with the per-claim, per-token oracle.
fn op_claim(base: &Base, w: &mut World, bk: &mut BankModel, owner: Pubkey, rng: &mut Rng, m: &mut Monitor, cx: &mut Ctx) {
    let t = &base.t;
    let Some(pre_bal) = bank_balances(w, &bk.bank) else { return };
    let pre_remaining = w.gt_bank_remaining_confirmed_gt(&bk.bank).unwrap_or(0);
    let pre_exchange = w.gt_exchange(&bk.vault, &owner).map(|e| e.amount());
    let pre_owner: Vec<u64> = pre_bal.iter().map(|(mint, _)| token::token_amount(&w.svm, &token::ata(&owner, mint)).unwrap_or(0)).collect();
    let pre_vault: Vec<u64> = pre_bal.iter().map(|(mint, _)| token::token_amount(&w.svm, &token::ata(&bk.bank, mint)).unwrap_or(0)).collect();
    let confirmed = w.gt_bank(&bk.bank).map(|b| b.is_confirmed()).unwrap_or(false);
    cx.log.push(format!(
        "complete_gt_exchange owner={owner} gt={pre_exchange:?} bank_confirmed={confirmed} remaining_confirmed_gt={pre_remaining} balances={:?}",
        pre_bal.iter().map(|(k, v)| format!("{k}:{v}")).collect::<Vec<_>>()
    ));
    let r = w.complete_gt_exchange(t, owner, bk.vault);
    m.eval();
    let _ = rng;
    match r {
        Ok(_) => {
            let g = pre_exchange.unwrap_or(0);
            let post_bal = bank_balances(w, &bk.bank).unwrap_or_default();
            let post_remaining = w.gt_bank_remaining_confirmed_gt(&bk.bank).unwrap_or(0);
            let wit = |why: &str, extra: Value| {
                json!({"why": why, "owner": owner.to_string(), "gt_amount": g.to_string(), "remaining_confirmed_gt_before": pre_remaining.to_string(),
                    "remaining_confirmed_gt_after": post_remaining.to_string(),
                    "balances_before": pre_bal.iter().map(|(k, v)| json!([k.to_string(), v.to_string()])).collect::<Vec<_>>(),
                    "balances_after": post_bal.iter().map(|(k, v)| json!([k.to_string(), v.to_string()])).collect::<Vec<_>>(),
                    "confirmed_total_gt": bk.g0.to_string(),
                    "balances_at_confirmation": bk.b0.iter().map(|(k, v)| json!([k.to_string(), v.to_string()])).collect::<Vec<_>>(),
                    "extra": extra})
            };
            if !confirmed || !bk.confirmed {
                let got: u128 = pre_bal.iter().enumerate().map(|(i, (mint, _))| (token::token_amount(&w.svm, &token::ata(&owner, mint)).unwrap_or(0) - pre_owner[i]) as u128).sum();
                m.count("claim_ok_on_unconfirmed_bank");
                if got > 0 {
                    m.violation("C37:complete_gt_exchange:paid_from_unconfirmed_bank", cx.witness(wit("bank not confirmed", json!(got.to_string()))));
                }
                bk.pending.remove(&owner);
                return;
            }
            m.count("claim_ok");
            if pre_remaining != bk.remaining {
                m.violation(
                    "C37:complete_gt_exchange:remaining_confirmed_gt_ne_confirmed_minus_claimed",
                    cx.witness(wit("stored remaining differs from confirmed total − Σ claimed", json!(bk.remaining.to_string()))),
                );
            }
            if Some(g) != bk.pending.get(&owner).copied() {
                m.violation("C37:complete_gt_exchange:exchange_amount_ne_requested", cx.witness(wit("exchange amount differs from Σ requests", json!(bk.pending.get(&owner).map(|x| x.to_string())))));
            }
            if g as u128 > pre_remaining as u128 {
                m.violation("C37:complete_gt_exchange:gt_amount_exceeds_remaining", cx.witness(wit("claim larger than remaining confirmed GT", Value::Null)));
            }
            let mut any_paid = false;
            for (i, (mint, bal)) in pre_bal.iter().enumerate() {
                let expected: BigInt = if g == 0 || pre_remaining == 0 { BigInt::from(0) } else { BigInt::from(*bal) * BigInt::from(g) / BigInt::from(pre_remaining) };
                let owner_after = token::token_amount(&w.svm, &token::ata(&owner, mint)).unwrap_or(0);
                let vault_after = token::token_amount(&w.svm, &token::ata(&bk.bank, mint)).unwrap_or(0);
                let received = owner_after as i128 - pre_owner[i] as i128;
                let recorded_after = post_bal.iter().find(|(k, _)| k == mint).map(|(_, v)| *v);
                if BigInt::from(received) != expected {
                    m.violation(
                        "C37:complete_gt_exchange:received_ne_floor_balance_times_gt_over_remaining",
                        cx.witness(wit("received != ⌊balance·gt/remaining⌋", json!({"token": mint.to_string(), "received": received.to_string(), "expected": expected.to_string()}))),
                    );
                }
                if received > *bal as i128 || received > pre_vault[i] as i128 {
                    m.violation(
                        "C37:complete_gt_exchange:paid_more_than_bank_holds",
                        cx.witness(wit("received > recorded balance or > vault tokens", json!({"token": mint.to_string(), "received": received.to_string(), "vault_tokens": pre_vault[i].to_string()}))),
                    );
                }
                if recorded_after.map(|v| v as i128) != Some(*bal as i128 - received) || vault_after as i128 != pre_vault[i] as i128 - received {
                    m.violation(
                        "C37:complete_gt_exchange:bank_record_or_vault_not_reduced_by_payout",
                        cx.witness(wit("recorded balance / vault tokens not reduced by exactly the payout", json!({"token": mint.to_string(), "received": received.to_string(),
                            "recorded_after": recorded_after.map(|v| v.to_string()), "vault_before": pre_vault[i].to_string(), "vault_after": vault_after.to_string()}))),
                    );
                }
                // At least the floor share of the balances at confirmation.
                let b0 = bk.b0.get(mint).copied().unwrap_or(0);
                let floor_share: BigInt = if bk.g0 == 0 { BigInt::from(0) } else { BigInt::from(b0) * BigInt::from(g) / BigInt::from(bk.g0) };
                if BigInt::from(received) < floor_share {
                    m.violation(
                        "C37:complete_gt_exchange:less_than_floor_share_of_original_balance",
                        cx.witness(wit("received < ⌊B0·gt/G0⌋", json!({"token": mint.to_string(), "received": received.to_string(), "floor_share": floor_share.to_string()}))),
                    );
                }
                if received > 0 {
                    any_paid = true;
                    *bk.paid.entry(*mint).or_insert(0) += received as u128;
                    if BigInt::from(received) > floor_share {
                        m.count("claim_token_got_more_than_floor_share");
                    }
                }
                if bk.paid.get(mint).copied().unwrap_or(0) > b0 as u128 {
                    m.violation(
                        "C37:complete_gt_exchange:total_paid_exceeds_balance_at_confirmation",
                        cx.witness(wit("Σ payouts > balance at confirmation", json!({"token": mint.to_string(), "paid": bk.paid.get(mint).map(|x| x.to_string())}))),
                    );
                }
                m.count("claim_token_checked");
            }
            if post_remaining as u128 != pre_remaining as u128 - (g as u128).min(pre_remaining as u128) {
                m.violation("C37:complete_gt_exchange:remaining_not_reduced_by_gt_amount", cx.witness(wit("remaining' != remaining − gt", Value::Null)));
            }
            bk.remaining = bk.remaining.saturating_sub(g);
            bk.pending.remove(&owner);
            bk.claims_done += 1;
            if w.gt_exchange(&bk.vault, &owner).is_some() {
                m.count("exchange_account_still_open_after_claim");
            }
            if g > 0 && post_remaining == 0 {
                m.count("last_claim");
                if post_bal.iter().any(|(_, v)| *v != 0) {
                    m.violation("C37:complete_gt_exchange:last_claim_does_not_drain_bank", cx.witness(wit("remaining confirmed GT is 0 but balances are left", Value::Null)));
                } else if bk.b0.values().any(|v| *v > 0) {
                    m.count("last_claim_drained_nonempty_bank");
                }
                for (mint, b0) in &bk.b0 {
                    if bk.paid.get(mint).copied().unwrap_or(0) != *b0 as u128 {
                        m.violation(
                            "C37:complete_gt_exchange:total_paid_ne_balance_at_confirmation_after_last_claim",
                            cx.witness(wit("Σ payouts != balance at confirmation", json!({"token": mint.to_string()}))),
                        );
                    }
                }
            }
            if g == 0 {
                m.count("claim_zero_gt_ok");
            }
            if any_paid {
                m.count("claim_paid_something");
                let mut sig = vec![];
                sig.extend_from_slice(&g.to_le_bytes());
                sig.extend_from_slice(&pre_remaining.to_le_bytes());
                for (_, v) in &pre_bal {
                    sig.extend_from_slice(&v.to_le_bytes());
                }
                m.nontrivial(&sig);
            }
            if m.wants_sample() && any_paid && m.counter("sampled_claims") < 2 && pre_bal.len() >= 2 && pre_remaining > g {
                m.count("sampled_claims");
                m.sample(wit("sample claim", json!({"shard": cx.shard, "history": cx.hist})));
            }
        }
        Err((e, _)) => {
            let class = if !confirmed {
                "claim_rejected_bank_not_confirmed"
            } else if pre_exchange.is_none() {
                "claim_rejected_no_exchange"
            } else {
                "claim_rejected_unexpected"
            };
            m.count(class);
            m.count(&format!("claim_err_{}", err_name(&e)));
            if e.is_panic() {
                m.count("panics");
            }
        }
    }
}

/// A claim of `victim`'s exchange signed by somebody else (never the subject of an oracle; counted).
fn op_foreign_claim(base: &Base, w: &mut World, bk: &BankModel, victim: Pubkey, thief: Pubkey, m: &mut Monitor, cx: &mut Ctx) -> bool {
    let Some(mut ix) = w.complete_gt_exchange_ix(&base.t, victim, bk.vault) else { return false };
    let n = w.gt_bank(&bk.bank).map(|b| b.num_tokens()).unwrap_or(0);
    ix.accounts[0].pubkey = thief;
    let len = ix.accounts.len();
    let mints: Vec<Pubkey> = ix.accounts[len - 3 * n..len - 2 * n].iter().map(|a| a.pubkey).collect();
    let mut ixs = vec![];
    for (i, mint) in mints.iter().enumerate() {
        ix.accounts[len - n + i].pubkey = token::ata(&thief, mint);
        ixs.push(w.prepare_ata_ix(thief, thief, *mint));
    }
    ixs.push(ix);
    cx.log.push(format!("complete_gt_exchange of owner={victim} signed by {thief}"));
    match w.send(&ixs, &[thief]) {
        Ok(_) => {
            m.count("foreign_claim_accepted");
            true
        }
        Err(_) => {
            m.count("foreign_claim_rejected");
            false
        }
    }
}

fn gen_gt_params(rng: &mut Rng) -> GtParams {
    let decimals = rng.below(10) as u8;
    // Per-base-unit GT cost; wide range so that the buyback price is capped sometimes by the cost,
    // sometimes by the bank value / buyback factor.
    let cost = match rng.below(4) {
        0 => 10u128.pow(rng.range(24, 30) as u32),
        _ => 10u128.pow(rng.range(8, 22) as u32) * rng.range(1, 9) as u128,
    };
    GtParams {
        decimals,
        initial_minting_cost: cost,
        grow_factor: UNIT + UNIT / 100,
        grow_step: 1u64 << rng.range(44, 60),
        ranks: vec![1_000, 1_000_000, 1_000_000_000],
    }
}

fn history(base: &Base, rng: &mut Rng, m: &mut Monitor, seed: u64, shard: u64, hist: u64) {
    let mut w = base.w.clone();
    let t = base.t.clone();
    let mut log: Vec<String> = vec![];
    let mut cx = Ctx { seed, shard, hist, log: &mut log };
    let keeper = w.keeper;
    w.svm.warp(rng.range_i64(0, 100_000));
    let p = gen_gt_params(rng);
    cx.log.push(format!("initialize_gt {p:?}"));
    if let Err((e, _)) = w.initialize_gt(&p) {
        m.inconclusive(&format!("harness: initialize_gt failed: {e:?}"));
        return;
    }
    m.count("histories");
    // Treasury tokens.
    let mut pool = base.real.clone();
    rng.shuffle(&mut pool);
    let n_tok = rng.range(1, pool.len() as u64) as usize;
    let treasury_tokens: Vec<usize> = pool[..n_tok].to_vec();
    for &i in &treasury_tokens {
        let mint = w.tokens[i].mint;
        cx.log.push(format!("insert_token_to_treasury_vault {} ({mint})", w.tokens[i].name));
        if w.treasury_insert_token(&t, mint).is_err() {
            m.inconclusive("harness: insert_token_to_treasury_vault failed");
            return;
        }
        let _ = w.treasury_toggle_token_flag(&t, mint, "allow_deposit", true);
        let _ = w.treasury_toggle_token_flag(&t, mint, "allow_withdrawal", true);
        m.count("treasury_token_inserted");
    }
    m.max("max_treasury_tokens", n_tok as u64);
    // Factor setters: hostile values first, then a usable configuration.
    for _ in 0..rng.range(3, 8) {
        op_set_factor(base, &mut w, rng, m, &mut cx, None);
    }
    let gt_factor = match rng.below(6) {
        0 => UNIT,
        1 => rng.log_u128(UNIT),
        _ => UNIT / 100 * rng.range(5, 100) as u128,
    };
    op_set_factor(base, &mut w, rng, m, &mut cx, Some((true, gt_factor)));
    let bb_factor = match rng.below(6) {
        0 => UNIT,
        1 => rng.log_u128(UNIT),
        2 => UNIT / 1000 * rng.range(1, 50) as u128,
        _ => UNIT / 100 * rng.range(2, 100) as u128,
    };
    op_set_factor(base, &mut w, rng, m, &mut cx, Some((false, bb_factor)));

    let mut banks: Vec<BankModel> = vec![];
    let rounds = rng.range(1, 3);
    for round in 0..rounds {
        // --- GT to users ---
        for u in &base.users {
            if rng.chance(4, 5) {
                let amount = rng.log_u64(1_000_000_000_000).max(1);
                cx.log.push(format!("mint_gt_reward owner={u} amount={amount}"));
                if w.mint_gt_reward(keeper, *u, amount).is_err() {
                    m.count("mint_gt_reward_failed");
                }
            }
        }
        // --- vault + bank for the current window ---
        let window = w.gt_state().map(|g| g.exchange_time_window()).unwrap_or(86_400);
        let index = w.svm.clock.unix_timestamp / window as i64;
        cx.log.push(format!("prepare_gt_exchange_vault index={index}; prepare_gt_bank"));
        let Ok(vault) = w.prepare_gt_exchange_vault(keeper, index) else {
            m.inconclusive("harness: prepare_gt_exchange_vault failed");
            return;
        };
        let bank = match w.prepare_gt_bank(&t, vault) {
            Ok(b) => b,
            Err((e, _)) => {
                m.inconclusive(&format!("harness: prepare_gt_bank failed: {e:?}"));
                return;
            }
        };
        m.count("gt_bank_prepared");
        let mut bk = BankModel { vault, bank, confirmed: false, b0: BTreeMap::new(), g0: 0, remaining: 0, pending: BTreeMap::new(), paid: BTreeMap::new(), claims_done: 0 };
        // --- fund the receiver and deposit (splits by gt_factor into bank / treasury vault) ---
        for &i in &treasury_tokens {
            if !rng.chance(5, 6) {
                continue;
            }
            let mint = w.tokens[i].mint;
            for _ in 0..rng.range(1, 2) {
                if w.tokens[i].name == "USDC" && rng.chance(1, 3) {
                    cx.log.push("claim_fees USDC".into());
                    m.count(if w.treasury_claim_fees(&t, base.market, mint, 0).is_ok() { "claim_fees_ok" } else { "claim_fees_failed" });
                }
                let amount = match rng.below(8) {
                    0 => 0,
                    1 => 1,
                    2 => rng.range(1, 1_000),
                    _ => rng.log_u64(5_000_000_000_000).max(1),
                };
                token::fund_ata(&mut w.svm, &t.receiver, &mint, amount);
                let receiver_amount = token::token_amount(&w.svm, &token::ata(&t.receiver, &mint)).unwrap_or(0);
                let before = w.gt_bank(&bank).and_then(|b| b.get_balance(&mint)).unwrap_or(0);
                cx.log.push(format!("deposit_to_treasury_vault {} receiver_vault={receiver_amount}", w.tokens[i].name));
                match w.deposit_to_treasury_vault(&t, vault, mint) {
                    Ok(_) => {
                        m.count("deposit_to_treasury_vault_ok");
                        let after = w.gt_bank(&bank).and_then(|b| b.get_balance(&mint)).unwrap_or(0);
                        let cfg = w.treasury_config(&t).map(|c| c.gt_factor()).unwrap_or(0);
                        let expect = BigInt::from(receiver_amount) * BigInt::from(cfg) / BigInt::from(UNIT);
                        if BigInt::from(after) - BigInt::from(before) == expect {
                            m.count("deposit_bank_share_eq_floor_amount_times_gt_factor");
                        } else {
                            m.count("deposit_bank_share_differs_from_gt_factor_share");
                        }
                    }
                    Err((e, _)) => {
                        m.count("deposit_to_treasury_vault_failed");
                        m.count(&format!("deposit_err_{}", err_name(&e)));
                    }
                }
            }
        }
        // Occasionally drop a token from the treasury list after it went into the bank (bank ⊄ treasury tokens).
        if treasury_tokens.len() > 1 && rng.chance(1, 10) {
            let mint = w.tokens[treasury_tokens[0]].mint;
            cx.log.push(format!("remove_token_from_treasury_vault {mint}"));
            if w.treasury_remove_token(&t, mint).is_ok() {
                m.count("treasury_token_removed_after_deposit");
            }
        }
        // --- exchange requests ---
        let mut order: Vec<Pubkey> = base.users.clone();
        rng.shuffle(&mut order);
        let n_req = rng.range(0, order.len() as u64 + 2);
        for k in 0..n_req {
            let owner = order[(k as usize) % order.len()];
            let bal = w.user_header(&owner).map(|u| u.gt().amount()).unwrap_or(0);
            let amount = match rng.below(10) {
                0 => 0,
                1 => bal,
                2 => 1.min(bal),
                _ => rng.range(0, bal),
            };
            cx.log.push(format!("request_gt_exchange owner={owner} amount={amount} balance={bal}"));
            match w.request_gt_exchange(owner, vault, amount) {
                Ok(_) => {
                    *bk.pending.entry(owner).or_insert(0) += amount;
                    m.count("request_gt_exchange_ok");
                }
                Err(_) => m.count("request_gt_exchange_failed"),
            }
        }
        // A claim before the confirmation must not pay anything.
        if !bk.pending.is_empty() && rng.chance(1, 4) {
            let owner = *bk.pending.keys().next().unwrap();
            op_claim(base, &mut w, &mut bk, owner, rng, m, &mut cx);
            if !bk.pending.contains_key(&owner) {
                // accepted on an unconfirmed bank: the exchange is gone; nothing further to model for it
                m.count("history_continues_after_early_claim_accepted");
            }
        }
        // Claims of older banks may be interleaved here.
        for old in banks.iter_mut() {
            let owners: Vec<Pubkey> = old.pending.keys().copied().collect();
            for o in owners {
                if rng.chance(1, 3) {
                    op_claim(base, &mut w, old, o, rng, m, &mut cx);
                }
            }
        }
        // --- next window, fresh prices, optional unrecorded donation, confirmation ---
        let to_next = window as i64 - w.svm.clock.unix_timestamp % window as i64;
        let secs = to_next + rng.range_i64(0, 3 * window as i64 / 2);
        w.svm.warp(secs);
        cx.log.push(format!("warp +{secs}s"));
        if !refresh_prices(&mut w, &base.all_tokens, Some(&mut *rng)) {
            m.inconclusive("harness: price refresh failed");
            return;
        }
        if rng.chance(1, 4) {
            if let Some(bals) = bank_balances(&w, &bank) {
                if let Some((mint, _)) = bals.first() {
                    let extra = rng.log_u64(1_000_000_000).max(1);
                    token::fund_ata(&mut w.svm, &bank, mint, extra);
                    cx.log.push(format!("unrecorded transfer of {extra} into the bank vault of {mint}"));
                    m.count("unrecorded_donation_to_bank_vault");
                }
            }
        }
        let pre = bank_balances(&w, &bank).unwrap_or_default();
        let vault_amount = w.gt_vault(&vault).map(|v| v.amount()).unwrap_or(0);
        cx.log.push(format!("confirm_gt_buyback vault_gt={vault_amount} balances={:?}", pre.iter().map(|(k, v)| format!("{k}:{v}")).collect::<Vec<_>>()));
        match w.confirm_gt_buyback(&t, vault) {
            Ok(_) => {
                m.count("confirm_gt_buyback_ok");
                m.eval();
                let post = bank_balances(&w, &bank).unwrap_or_default();
                let remaining = w.gt_bank_remaining_confirmed_gt(&bank).unwrap_or(0);
                let requested: u128 = bk.pending.values().map(|v| *v as u128).sum();
                if remaining != vault_amount || remaining as u128 != requested {
                    m.violation(
                        "C37:confirm_gt_buyback:confirmed_gt_ne_requested_total",
                        cx.witness(json!({"remaining_confirmed_gt": remaining.to_string(), "vault_amount": vault_amount.to_string(), "sum_of_requests": requested.to_string()})),
                    );
                }
                let mut grew = false;
                for ((k, a), (_, b)) in post.iter().zip(pre.iter()) {
                    bk.b0.insert(*k, *a);
                    grew |= a > b;
                }
                if grew || post.len() != pre.len() {
                    m.violation(
                        "C37:confirm_gt_buyback:reserved_more_than_bank_held",
                        cx.witness(json!({"before": pre.iter().map(|(k, v)| format!("{k}:{v}")).collect::<Vec<_>>(), "after": post.iter().map(|(k, v)| format!("{k}:{v}")).collect::<Vec<_>>()})),
                    );
                }
                let had = pre.iter().any(|(_, v)| *v > 0);
                let has = post.iter().any(|(_, v)| *v > 0);
                if vault_amount == 0 {
                    m.count("confirm_with_no_gt_requested");
                } else if had && !has {
                    m.count("confirm_reserved_nothing");
                } else if post == pre && had {
                    m.count("confirm_reserved_everything");
                } else if had {
                    m.count("confirm_reserved_part");
                }
                m.max("max_bank_tokens", post.len() as u64);
                if post.iter().filter(|(_, v)| *v > 0).count() >= 2 {
                    m.count("confirmed_bank_with_two_or_more_funded_tokens");
                }
                bk.confirmed = true;
                bk.g0 = remaining;
                bk.remaining = remaining;
            }
            Err((e, _)) => {
                m.count("confirm_gt_buyback_failed");
                m.count(&format!("confirm_buyback_err_{}", err_name(&e)));
            }
        }
        // --- claims in random order, interleaved with syncs, donations, foreign / repeated claims ---
        if bk.confirmed {
            let mut owners: Vec<Pubkey> = bk.pending.keys().copied().collect();
            rng.shuffle(&mut owners);
            let defer = if round + 1 < rounds && rng.chance(1, 3) { rng.range(0, owners.len() as u64) as usize } else { 0 };
            let now: Vec<Pubkey> = owners[..owners.len() - defer].to_vec();
            for o in now {
                if rng.chance(1, 5) {
                    if let Some((mint, _)) = bank_balances(&w, &bank).and_then(|b| b.first().copied()) {
                        cx.log.push(format!("sync_gt_bank_v2 {mint}"));
                        m.count(if w.sync_gt_bank(&t, vault, mint).is_ok() { "sync_gt_bank_ok" } else { "sync_gt_bank_rejected" });
                    }
                }
                if rng.chance(1, 8) {
                    let thief = *rng.pick(&base.users);
                    if thief != o && op_foreign_claim(base, &mut w, &bk, o, thief, m, &mut cx) {
                        m.count("history_abandoned_foreign_claim_accepted");
                        return;
                    }
                }
                op_claim(base, &mut w, &mut bk, o, rng, m, &mut cx);
                if rng.chance(1, 8) {
                    // a second claim of the same exchange must fail (the exchange account is closed)
                    op_claim(base, &mut w, &mut bk, o, rng, m, &mut cx);
                }
            }
            if bk.pending.is_empty() && bk.g0 > 0 {
                m.count("bank_fully_claimed");
                // After syncing every token the SPL vaults hold exactly the recorded (zero) balances.
                if let Some(bals) = bank_balances(&w, &bank) {
                    let mut all_zero = true;
                    for (mint, _) in &bals {
                        let _ = w.sync_gt_bank(&t, vault, *mint);
                        all_zero &= token::token_amount(&w.svm, &token::ata(&bank, mint)).unwrap_or(0) == 0;
                    }
                    if all_zero {
                        m.count("bank_vaults_empty_after_last_claim_and_sync");
                    }
                }
            }
        }
        banks.push(bk);
    }
    // Deferred claims of all banks, random order.
    let mut rest: Vec<(usize, Pubkey)> = vec![];
    for (i, b) in banks.iter().enumerate() {
        if b.confirmed {
            rest.extend(b.pending.keys().map(|o| (i, *o)));
        }
    }
    rng.shuffle(&mut rest);
    for (i, o) in rest {
        m.count("deferred_claim");
        op_claim(base, &mut w, &mut banks[i], o, rng, m, &mut cx);
    }
    for b in &banks {
        m.max("max_claims_on_one_bank", b.claims_done);
    }
    // Factor setters once more at the end (state after a full flow).
    for _ in 0..rng.range(1, 3) {
        op_set_factor(base, &mut w, rng, m, &mut cx, None);
    }
}

pub fn run(args: &Args) -> Option<i32> {
    let quiet = hostsvm::QuietStdout::new();
    let mut mon = Monitor::new(
        args,
        "random full treasury flows in hostsvm (real gmsol-treasury + gmsol-store entrypoints): factor setters with hostile values, \
         1–4 treasury tokens, 1–3 exchange windows each with its GT bank funded through deposit_to_treasury_vault, up to 6 users requesting \
         random GT amounts, confirm_gt_buyback, complete_gt_exchange in random order (interleaved with syncs, unrecorded transfers, repeated \
         and foreign claims). Every successful claim is checked per token against ⌊balance·gt/remaining⌋ (BigInt) using the pre-state \
         read from the accounts. Non-trivial = a claim that paid a non-zero amount, or a setter call that stored / rejected a factor; \
         distinct = hash of (gt amount, remaining, all recorded balances) resp. (setter, factor).",
    );
    mon.assume("only legacy SPL-token mints are used as treasury tokens (the world builder creates no Token-2022 mints)");
    mon.assume("bank balances come from deposit_to_treasury_vault after the receiver vault was funded by state injection (fund_ata) or by the real claim_fees");
    let shards = args.scale(64, 512);
    let hist_per_shard = args.scale(50, 30);
    let seed = args.seed;
    run_shards(&mut mon, args.threads, shards, |shard, m| {
        let base = base_world();
        for h in 0..hist_per_shard {
            let mut rng = Rng::derive(seed, shard, h);
            history(&base, &mut rng, m, seed, shard, h);
        }
    });
    let k = args.scale(1, 8);
    mon.require("histories", 300 * k);
    mon.require("confirm_gt_buyback_ok", 300 * k);
    mon.require("claim_paid_something", 500 * k);
    mon.require("claim_token_checked", 2_000 * k);
    mon.require("last_claim_drained_nonempty_bank", 100 * k);
    mon.require("confirmed_bank_with_two_or_more_funded_tokens", 100 * k);
    mon.require("confirm_reserved_part", 50 * k);
    mon.require("set_factor_rejected_above_100_percent", 300 * k);
    mon.require("set_factor_ok", 300 * k);
    mon.require("deferred_claim", 20 * k);
    mon.set_extra(
        "not_covered",
        json!(["Token-2022 treasury tokens (token_2022_program branch of complete_gt_exchange)", "create_swap_v2 / cancel_swap (treasury swaps; not part of C37)"]),
    );
    drop(quiet);
    Some(mon.finish())
}
