//! Exchange workload: random multi-market histories through the real instructions.
//!
//! One `Sim` = one world (4 tokens, 4 markets sharing the SOL / USDC vaults, one GLV over the three
//! SOL/USDC markets, 3 users, keeper, a second order keeper, stranger). `Sim::step` picks a weighted
//! random operation — including *fault* operations (stale prices, closing by the wrong party,
//! executing twice, expiring requests) — sends it as one transaction and returns a `StepRec` with
//! the pre-state snapshot, so monitors can compare.
//!
//! GLV actions (deposit / withdrawal / shift) are ordinary `ActionRec`s: they are executed, closed
//! and re-executed through the same `Op::Execute` / `Op::Close` fault patterns as plain actions.
//! GLV shifts are keeper-owned: the action's owner is the GLV account, the *funder* (the
//! ORDER_KEEPER that created it, `World::keeper`) is its rent receiver and plays the `Who::Owner`
//! part; `Who::Keeper` is then `Sim::keeper2`, an ORDER_KEEPER that did not fund the shift.
//!
//! ADL: `gen_adl_driver` looks at the open positions and emits the next useful single step of the
//! sequence "move the index price in favour of a side → lower `min_pnl_factor_after_*_adl` /
//! `max_pnl_factor_for_*_adl` below the current pnl-to-pool factor → `update_adl_state` →
//! `auto_deleverage` a profitable position" (each step is one ordinary operation / transaction).

use crate::world::{
    exchange::{self, load, OrderKind, OrderReq},
    glv::{ata22, GlvInfo},
    *,
};
use anchor_lang::{prelude::Pubkey, InstructionData};
use gmsol_store::states::{
    common::action::Action, glv::GlvMarketFlag, glv::UpdateGlvParams, Deposit, GlvDeposit, GlvShift, GlvWithdrawal, Order, Position, Shift,
    Withdrawal,
};
use gmsol_store::{accounts as sa, instruction as si};
use gmsol_utils::action::ActionState;
use hostsvm::{token, Svm, TxError, TxMeta};
use vcommon::Rng;

pub const E18: u128 = 1_000_000_000_000_000_000;
/// Index of the GLV the Sim bootstraps (0 and 7 are used by dedicated scenarios of other monitors).
pub const SIM_GLV_INDEX: u16 = 42;

#[derive(Clone, Copy, Debug, PartialEq, Eq, PartialOrd, Ord)]
pub enum ActKind {
    Deposit,
    Withdrawal,
    Shift,
    Order,
    GlvDeposit,
    GlvWithdrawal,
    GlvShift,
}

impl ActKind {
    pub fn is_glv(self) -> bool {
        matches!(self, ActKind::GlvDeposit | ActKind::GlvWithdrawal | ActKind::GlvShift)
    }
}

#[derive(Clone, Debug)]
pub struct ActionRec {
    pub kind: ActKind,
    pub addr: Pubkey,
    /// Owner the escrowed tokens go home to. For GLV shifts (owned by the GLV account, no escrow)
    /// this is the funder, i.e. the party that may close the shift in any state.
    pub owner: Pubkey,
    /// Receiver of the account rent and the unused execution fee when the action is closed.
    pub rent_receiver: Pubkey,
    /// Escrow token accounts with their mints.
    pub escrows: Vec<(Pubkey, Pubkey)>,
    /// Markets whose state the action may touch when executed.
    pub markets: Vec<usize>,
    pub is_position_cut: bool,
}

#[derive(Clone, Copy, Debug, PartialEq, Eq)]
pub enum Who {
    Owner,
    Keeper,
    Stranger,
    /// The receiver recorded in the action header when it is not the owner (orders with a foreign receiver);
    /// otherwise the stranger. Never the owner, never a keeper.
    Receiver,
}

#[derive(Clone, Debug)]
pub enum Op {
    Warp { secs: i64, refresh: bool },
    MovePrice { token: usize, price: u128, spread_bps: u32 },
    RefreshPrices,
    CreateDeposit { user: usize, market: usize, long: u64, short: u64, long_path: Vec<usize>, short_path: Vec<usize> },
    CreateWithdrawal { user: usize, market: usize, amount: u64, long_path: Vec<usize>, short_path: Vec<usize> },
    CreateShift { user: usize, from: usize, to: usize, amount: u64 },
    CreateOrder { user: usize, req: OrderReq },
    CreateGlvDeposit { user: usize, market: usize, market_tokens: u64, long: u64, short: u64, min_glv: u64 },
    CreateGlvWithdrawal { user: usize, market: usize, amount: u64, min_long: u64, min_short: u64 },
    CreateGlvShift { from: usize, to: usize, amount: u64, min_to: u64 },
    Execute { action: usize, throw: bool },
    Close { action: usize, who: Who },
    CancelIfNoPosition { action: usize },
    Liquidate { position: Pubkey },
    UpdateAdl { market: usize, is_long: bool },
    Adl { position: Pubkey, size: u128 },
    ClaimFees { market: usize, long_token: bool },
    TransferIn { market: usize, long_token: bool, amount: u64 },
    UpdateFees { market: usize },
    SetConfig { market: usize, key: String, value: u128 },
}

impl Op {
    pub fn name(&self) -> &'static str {
        match self {
            Op::Warp { .. } => "warp",
            Op::MovePrice { .. } => "move_price",
            Op::RefreshPrices => "refresh_prices",
            Op::CreateDeposit { .. } => "create_deposit",
            Op::CreateWithdrawal { .. } => "create_withdrawal",
            Op::CreateShift { .. } => "create_shift",
            Op::CreateOrder { .. } => "create_order",
            Op::CreateGlvDeposit { .. } => "create_glv_deposit",
            Op::CreateGlvWithdrawal { .. } => "create_glv_withdrawal",
            Op::CreateGlvShift { .. } => "create_glv_shift",
            Op::Execute { .. } => "execute",
            Op::Close { .. } => "close",
            Op::CancelIfNoPosition { .. } => "cancel_if_no_position",
            Op::Liquidate { .. } => "liquidate",
            Op::UpdateAdl { .. } => "update_adl",
            Op::Adl { .. } => "adl",
            Op::ClaimFees { .. } => "claim_fees",
            Op::TransferIn { .. } => "transfer_in",
            Op::UpdateFees { .. } => "update_fees",
            Op::SetConfig { .. } => "set_config",
        }
    }
}

pub struct StepRec {
    pub op: Op,
    /// Snapshot of the account store before the transaction.
    pub pre: Svm,
    /// `None` for pure clock / no-transaction steps.
    pub result: Option<Result<TxMeta, (TxError, TxMeta)>>,
    /// Index of the action created by this step, if any.
    pub created: Option<usize>,
    /// Instructions sent (for authority-mutation replay) with their signers.
    pub sent: Vec<(Vec<anchor_lang::solana_program::instruction::Instruction>, Vec<Pubkey>)>,
}

impl StepRec {
    pub fn ok(&self) -> bool {
        matches!(self.result, Some(Ok(_)))
    }
    pub fn meta(&self) -> Option<&TxMeta> {
        match &self.result {
            Some(Ok(m)) => Some(m),
            Some(Err((_, m))) => Some(m),
            None => None,
        }
    }
}

pub struct Sim {
    pub w: World,
    pub rng: Rng,
    pub users: Vec<Pubkey>,
    pub stranger: Pubkey,
    pub actions: Vec<ActionRec>,
    /// Mid prices (USD per whole token, 18 decimals) per token.
    pub prices: Vec<u128>,
    pub spreads_bps: Vec<u32>,
    pub history: Vec<String>,
    pub tok: Toks,
    /// The GLV over `glv_markets` (markets sharing the SOL / USDC long / short tokens).
    pub glv: GlvInfo,
    pub glv_markets: Vec<usize>,
    /// Holds ORDER_KEEPER only; never funds a GLV shift.
    pub keeper2: Pubkey,
    /// Initial mid prices; directed price moves stay within [base / 10, base * 10].
    pub base_prices: Vec<u128>,
}

#[derive(Clone, Copy, Debug)]
pub struct Toks {
    pub btc: usize,
    pub sol: usize,
    pub usdc: usize,
    pub eth: usize,
}

pub fn action_state(svm: &Svm, kind: ActKind, addr: &Pubkey) -> Option<ActionState> {
    match kind {
        ActKind::Deposit => load::<Deposit>(svm, addr).and_then(|a| a.header().action_state().ok()),
        ActKind::Withdrawal => load::<Withdrawal>(svm, addr).and_then(|a| a.header().action_state().ok()),
        ActKind::Shift => load::<Shift>(svm, addr).and_then(|a| a.header().action_state().ok()),
        ActKind::Order => load::<Order>(svm, addr).and_then(|a| a.header().action_state().ok()),
        ActKind::GlvDeposit => load::<GlvDeposit>(svm, addr).and_then(|a| a.header().action_state().ok()),
        ActKind::GlvWithdrawal => load::<GlvWithdrawal>(svm, addr).and_then(|a| a.header().action_state().ok()),
        ActKind::GlvShift => load::<GlvShift>(svm, addr).and_then(|a| a.header().action_state().ok()),
    }
}

/// Receiver recorded in the action header (orders only; other kinds are created with receiver == owner).
pub fn order_receiver(svm: &Svm, addr: &Pubkey) -> Option<Pubkey> {
    load::<Order>(svm, addr).map(|a| a.header().receiver())
}

impl Sim {
    /// Build the world. `variant` selects configuration flavours.
    pub fn new(seed: u64, shard: u64) -> Sim {
        Self::new_traced(seed, shard, 0)
    }

    /// Same, recording successful transactions (≤ `trace_max` per instruction kind) for C19.
    pub fn new_traced(seed: u64, shard: u64, trace_max: usize) -> Sim {
        let mut rng = Rng::derive(seed, shard, 0x51);
        let mut w = World::bootstrap_store_with_trace(trace_max);
        w.bootstrap_oracle();
        let btc = w.add_token("BTC", 8, 2, true);
        let sol = w.add_token("SOL", 9, 4, false);
        let usdc = w.add_token("USDC", 6, 6, false);
        let eth = w.add_token("ETH", 8, 3, true);
        // Markets sharing the SOL and USDC vaults; one pure (single-token) market.
        w.add_market(btc, sol, usdc);
        w.add_market(sol, sol, usdc);
        w.add_market(sol, sol, sol);
        w.add_market(eth, sol, usdc);
        let users: Vec<Pubkey> = ["alice", "bob", "carol"].iter().map(|n| w.add_user(n)).collect();
        let stranger = hostsvm::key("stranger");
        w.svm.airdrop(&stranger, 1_000 * LAMPORTS);
        let (sol_mint, usdc_mint) = (w.tokens[sol].mint, w.tokens[usdc].mint);
        for u in users.iter().chain([&w.keeper.clone(), &w.admin.clone()]) {
            token::fund_ata(&mut w.svm, u, &sol_mint, 1_000_000 * 1_000_000_000);
            token::fund_ata(&mut w.svm, u, &usdc_mint, 100_000_000 * 1_000_000);
        }
        // Configuration flavours (through the real instruction).
        for m in 0..w.markets.len() {
            // generous caps (the repository's own integration setup does the same)
            for (k, v) in [
                ("max_pool_amount_for_long_token", 1_000_000_000_000_000_000u128),
                ("max_pool_amount_for_short_token", 1_000_000_000_000_000_000u128),
                ("max_pool_value_for_deposit_for_long_token", 1_000_000_000 * UNIT),
                ("max_pool_value_for_deposit_for_short_token", 1_000_000_000 * UNIT),
            ] {
                w.set_market_config(m, k, v).expect("config");
            }
            if rng.chance(1, 2) {
                // non-trivial swap / order fees
                let f = rng.range_u128(0, 5) * UNIT / 1000; // 0..0.5%
                let _ = w.set_market_config(m, "swap_fee_factor_for_positive_impact", f);
                let _ = w.set_market_config(m, "swap_fee_factor_for_negative_impact", f + rng.range_u128(0, 2) * UNIT / 1000);
                let _ = w.set_market_config(m, "order_fee_factor_for_positive_impact", f);
                let _ = w.set_market_config(m, "order_fee_factor_for_negative_impact", f + rng.range_u128(0, 2) * UNIT / 1000);
            }
            if rng.chance(1, 2) {
                // price impact on swaps / positions
                let neg = rng.range_u128(1, 50) * UNIT / 10_000_000_000;
                let pos = neg / rng.range_u128(1, 4);
                let _ = w.set_market_config(m, "swap_impact_negative_factor", neg);
                let _ = w.set_market_config(m, "swap_impact_positive_factor", pos);
                let _ = w.set_market_config(m, "position_impact_negative_factor", neg);
                let _ = w.set_market_config(m, "position_impact_positive_factor", pos);
            }
            if rng.chance(1, 3) {
                // low max pnl factors so that ADL becomes reachable
                let f = rng.range_u128(1, 20) * UNIT / 100;
                let _ = w.set_market_config(m, "max_pnl_factor_for_long_adl", f);
                let _ = w.set_market_config(m, "max_pnl_factor_for_short_adl", f);
                let _ = w.set_market_config(m, "min_pnl_factor_after_long_adl", f / 2);
                let _ = w.set_market_config(m, "min_pnl_factor_after_short_adl", f / 2);
            }
        }
        let mut sim = Sim {
            w,
            rng,
            users,
            stranger,
            actions: vec![],
            prices: vec![0; 4],
            spreads_bps: vec![0; 4],
            history: vec![],
            tok: Toks { btc, sol, usdc, eth },
            glv: GlvInfo { index: SIM_GLV_INDEX, glv_token: Pubkey::default(), glv: Pubkey::default() },
            glv_markets: vec![0, 1, 3],
            keeper2: hostsvm::key("keeper2"),
            base_prices: vec![0; 4],
        };
        sim.prices[btc] = 60_000 * E18;
        sim.prices[sol] = 150 * E18;
        sim.prices[usdc] = E18;
        sim.prices[eth] = 3_000 * E18;
        sim.base_prices = sim.prices.clone();
        sim.spreads_bps = vec![2, 10, 0, 5];
        sim.refresh_prices();
        // Base liquidity from a dedicated LP so that positions and swaps can execute from the start.
        let lp = sim.w.add_user("base-lp");
        sim.users.retain(|u| *u != lp);
        sim.w.users.retain(|u| *u != lp);
        token::fund_ata(&mut sim.w.svm, &lp, &sol_mint, 10_000_000 * 1_000_000_000);
        token::fund_ata(&mut sim.w.svm, &lp, &usdc_mint, 1_000_000_000 * 1_000_000);
        for m in 0..sim.w.markets.len() {
            let (l, s) = if m == 2 { (10_000 * 1_000_000_000u64, 10_000 * 1_000_000_000u64) } else { (20_000 * 1_000_000_000u64, 3_000_000 * 1_000_000u64) };
            if let Ok(d) = sim.w.create_deposit(lp, m, l, s, None, None, &[], &[], 0) {
                let _ = sim.w.execute_deposit(d, false);
                let _ = sim.w.close_deposit(lp, d);
            }
        }
        // A second order keeper (for closing GLV shifts it did not fund).
        let keeper2 = sim.keeper2;
        sim.w.svm.airdrop(&keeper2, 1_000 * LAMPORTS);
        sim.w.grant(&keeper2, gmsol_utils::role::RoleKey::ORDER_KEEPER).expect("grant keeper2");
        // The GLV over the three SOL/USDC markets, deposits allowed everywhere, short shift interval.
        let glv_markets = sim.glv_markets.clone();
        let glv = match sim.w.initialize_glv(SIM_GLV_INDEX, &glv_markets) {
            Ok(g) => g,
            Err((e, m)) => panic!("bootstrap step `initialize_glv` failed: {e:?} logs={:?}", m.logs),
        };
        sim.glv = glv;
        for mi in &glv_markets {
            let mt = sim.w.markets[*mi].market_token;
            sim.w.toggle_glv_market_flag(&glv, mt, GlvMarketFlag::IsDepositAllowed, true).expect("glv: allow deposits");
        }
        let _ = sim.w.update_glv_config(&glv, UpdateGlvParams { shift_min_interval_secs: Some(10), ..Default::default() });
        for mi in &glv_markets {
            if let Ok(d) = sim.w.create_glv_deposit(lp, &glv, *mi, 0, 2_000 * 1_000_000_000, 300_000 * 1_000_000, 0, 0) {
                let _ = sim.w.execute_glv_deposit(d, false);
                let _ = sim.w.close_glv_deposit(lp, d);
            }
        }
        // every user starts with some GLV tokens so that GLV withdrawals are possible from the start
        for (i, u) in sim.users.clone().into_iter().enumerate() {
            let mi = glv_markets[i % glv_markets.len()];
            if let Ok(d) = sim.w.create_glv_deposit(u, &glv, mi, 0, 100 * 1_000_000_000, 15_000 * 1_000_000, 0, 0) {
                let _ = sim.w.execute_glv_deposit(d, false);
                let _ = sim.w.close_glv_deposit(u, d);
            }
        }
        sim
    }

    /// The account escrowed / returned tokens of `mint` live in for `owner` (the GLV token is a
    /// Token-2022 mint, everything else legacy SPL).
    pub fn home_ata(&self, owner: &Pubkey, mint: &Pubkey) -> Pubkey {
        if *mint == self.glv.glv_token {
            ata22(owner, mint)
        } else {
            token::ata(owner, mint)
        }
    }

    /// The GLV's vault for the market tokens of `market`.
    pub fn glv_vault_of(&self, market: usize) -> Pubkey {
        self.w.glv_vault(&self.glv.glv, &self.w.markets[market].market_token)
    }

    pub fn bid_ask(&self, token: usize) -> (u128, u128, u128) {
        let p = self.prices[token];
        let d = p / 10_000 * self.spreads_bps[token] as u128;
        (p - d, p, p + d)
    }

    pub fn refresh_prices(&mut self) -> usize {
        let mut ok = 0;
        for t in 0..self.w.tokens.len() {
            let (b, p, a) = self.bid_ask(t);
            if self.w.set_price(t, b, p, a).is_ok() {
                ok += 1;
            }
        }
        ok
    }

    pub fn open_positions(&self) -> Vec<(Pubkey, Position)> {
        let mut out = vec![];
        for u in &self.users {
            for m in 0..self.w.markets.len() {
                for is_long in [true, false] {
                    for coll_long in [true, false] {
                        let p = self.w.position_pda(u, m, is_long, coll_long);
                        if let Some(pos) = load::<Position>(&self.w.svm, &p) {
                            if pos.state.size_in_usd != 0 && out.iter().all(|(k, _)| *k != p) {
                                out.push((p, pos));
                            }
                        }
                    }
                }
            }
        }
        out
    }

    fn market_token_mints(&self, path: &[usize]) -> Vec<Pubkey> {
        path.iter().map(|m| self.w.markets[*m].market_token).collect()
    }

    /// A random valid-looking swap path (market indices) from `from` mint to `to` mint over the
    /// SOL/USDC markets (0, 1, 3); may also return deliberately broken paths.
    fn gen_path(&mut self, from: Pubkey, to: Pubkey, max_len: usize) -> Vec<usize> {
        // All swap markets here are SOL/USDC, so every hop flips the token: a path from `from` to
        // `to` needs an even number of hops if they are equal and an odd number otherwise, over
        // distinct markets.
        let mut swap_markets = vec![0usize, 1, 3];
        self.rng.shuffle(&mut swap_markets);
        let parity = if from == to { 0 } else { 1 };
        let mut len = self.rng.range(0, max_len.min(3) as u64) as usize;
        if len % 2 != parity {
            len = if len == 0 { 1 } else { len - 1 };
        }
        let mut path: Vec<usize> = swap_markets[..len.min(3)].to_vec();
        if self.rng.chance(1, 12) {
            // fault: duplicate a market / add the pure market (no-op step) / wrong parity
            match self.rng.below(3) {
                0 => {
                    if let Some(&first) = path.first() {
                        path.push(first);
                    }
                }
                1 => path.push(2),
                _ => path.push(swap_markets[0]),
            }
        }
        path
    }

    pub fn gen_op(&mut self) -> Op {
        let n_act = self.actions.len();
        let weights: [u32; 21] = [
            10, // warp
            8,  // move price
            3,  // refresh
            8,  // create deposit
            5,  // create withdrawal
            3,  // create shift
            14, // create order
            22, // execute
            10, // close
            1,  // cancel if no position
            4,  // liquidate
            2,  // update adl
            2,  // adl
            2,  // claim fees
            1,  // transfer in
            1,  // update fees
            1,  // set config
            4,  // create glv deposit
            3,  // create glv withdrawal
            2,  // create glv shift
            6,  // adl driver
        ];
        let k = self.rng.weighted(&weights);
        let sol = self.w.tokens[self.tok.sol].mint;
        let usdc = self.w.tokens[self.tok.usdc].mint;
        match k {
            0 => {
                let secs = match self.rng.below(10) {
                    0 => self.rng.range_i64(31, 120),    // past the heartbeat
                    1 => self.rng.range_i64(3500, 4000), // around request expiration / oracle max age
                    _ => self.rng.range_i64(1, 20),
                };
                Op::Warp { secs, refresh: !self.rng.chance(1, 8) }
            }
            1 => {
                let token = self.rng.below(4) as usize;
                let p = self.prices[token];
                let pct = match self.rng.below(8) {
                    0 => self.rng.range(70, 140), // big move
                    _ => self.rng.range(95, 105),
                } as u128;
                let mut price = p / 100 * pct;
                if token == self.tok.usdc {
                    price = E18 / 1000 * self.rng.range(995, 1005) as u128;
                }
                Op::MovePrice { token, price: price.max(E18 / 100), spread_bps: self.rng.range(0, 30) as u32 }
            }
            2 => Op::RefreshPrices,
            3 => {
                let market = self.rng.below(4) as usize;
                let user = self.rng.below(3) as usize;
                let (mut long, mut short) = (0, 0);
                if self.rng.chance(3, 4) {
                    long = self.rng.log_u64(2_000 * 1_000_000_000).max(1);
                }
                if self.rng.chance(3, 4) {
                    short = if market == 2 { self.rng.log_u64(2_000 * 1_000_000_000) } else { self.rng.log_u64(300_000 * 1_000_000) };
                }
                let use_paths = self.rng.chance(1, 4) && market != 2;
                let (long_path, short_path) = if use_paths {
                    // pay-in tokens are the market's own long/short tokens → paths must return to them
                    (self.gen_path(sol, sol, 2), self.gen_path(usdc, usdc, 2))
                } else {
                    (vec![], vec![])
                };
                Op::CreateDeposit { user, market, long, short, long_path, short_path }
            }
            4 => {
                let mut market = self.rng.below(4) as usize;
                let user = self.rng.below(3) as usize;
                for k in 0..4 {
                    let cand = (market + k) % 4;
                    let mtk = self.w.markets[cand].market_token;
                    if token::token_amount(&self.w.svm, &token::ata(&self.users[user], &mtk)).unwrap_or(0) > 0 && !self.rng.chance(1, 10) {
                        market = cand;
                        break;
                    }
                }
                let mt = self.w.markets[market].market_token;
                let bal = token::token_amount(&self.w.svm, &token::ata(&self.users[user], &mt)).unwrap_or(0);
                let amount = match self.rng.below(4) {
                    0 => bal,
                    1 => bal.saturating_add(1),
                    _ => self.rng.range(0, bal.max(1)),
                };
                let use_paths = self.rng.chance(1, 3) && market != 2;
                // asymmetric cases matter: one side swapped through other markets, the other side paid out of the
                // withdrawal market itself (which market's recorded balance is debited for each side)
                let (long_path, short_path) = if use_paths {
                    match self.rng.below(3) {
                        0 => (self.gen_path(sol, sol, 2), vec![]),
                        1 => (vec![], self.gen_path(usdc, usdc, 2)),
                        _ => (self.gen_path(sol, sol, 2), self.gen_path(usdc, usdc, 2)),
                    }
                } else {
                    (vec![], vec![])
                };
                Op::CreateWithdrawal { user, market, amount, long_path, short_path }
            }
            5 => {
                let user = self.rng.below(3) as usize;
                let from = *self.rng.pick(&[0usize, 1, 3, 0, 1, 3, 2]);
                let mut to = *self.rng.pick(&[0usize, 1, 3, 0, 1, 3, 2]);
                if to == from && !self.rng.chance(1, 10) {
                    to = [0usize, 1, 3][(from + 1) % 3];
                }
                let mt = self.w.markets[from].market_token;
                let bal = token::token_amount(&self.w.svm, &token::ata(&self.users[user], &mt)).unwrap_or(0);
                Op::CreateShift { user, from, to, amount: self.rng.range(0, bal.max(1)) }
            }
            6 => {
                let user = self.rng.below(3) as usize;
                let market = self.rng.below(4) as usize;
                let is_long = self.rng.bool();
                let coll_long = self.rng.bool();
                let kind = *self.rng.pick(&[
                    OrderKind::MarketIncrease,
                    OrderKind::MarketIncrease,
                    OrderKind::MarketIncrease,
                    OrderKind::MarketDecrease,
                    OrderKind::MarketDecrease,
                    OrderKind::MarketSwap,
                    OrderKind::MarketSwap,
                    OrderKind::LimitIncrease,
                    OrderKind::LimitDecrease,
                    OrderKind::StopLossDecrease,
                    OrderKind::LimitSwap,
                ]);
                let mut req = OrderReq::new(kind, market, is_long, coll_long);
                if self.rng.chance(1, 4) {
                    // outputs go to another user; escrowed pay-in tokens still belong to the owner
                    req.receiver = Some(self.users[(user + 1) % self.users.len()]);
                }
                let index = self.w.markets[market].index;
                let idx_price_unit = self.index_unit_price(index);
                match kind {
                    OrderKind::MarketIncrease | OrderKind::LimitIncrease => {
                        let collateral_usd = self.rng.range(10, 20_000) as u128;
                        let lev = self.rng.range(1, 60) as u128;
                        req.size_delta_value = collateral_usd * lev * UNIT;
                        let coll_is_sol = coll_long || market == 2;
                        req.initial_collateral_delta_amount = if coll_is_sol {
                            (collateral_usd * 1_000_000_000 * E18 / self.prices[self.tok.sol]) as u64
                        } else {
                            (collateral_usd * 1_000_000) as u64
                        };
                        if self.rng.chance(1, 6) && market != 2 {
                            // pay with the other token through a swap path
                            let (pay, target) = if coll_is_sol { (usdc, sol) } else { (sol, usdc) };
                            req.initial_collateral_token = Some(pay);
                            req.initial_collateral_delta_amount =
                                if pay == sol { (collateral_usd * 1_000_000_000 * E18 / self.prices[self.tok.sol]) as u64 } else { (collateral_usd * 1_000_000) as u64 };
                            let p = self.gen_path(pay, target, 3);
                            req.swap_path = self.market_token_mints(&p);
                        }
                        if matches!(kind, OrderKind::LimitIncrease) {
                            let f = if self.rng.bool() { 99 } else { 101 };
                            req.trigger_price = Some(idx_price_unit / 100 * f);
                        }
                        if self.rng.chance(1, 10) {
                            req.acceptable_price = Some(idx_price_unit / 100 * self.rng.range(90, 110) as u128);
                        }
                    }
                    OrderKind::MarketDecrease | OrderKind::LimitDecrease | OrderKind::StopLossDecrease => {
                        // target an existing position of that user if any
                        let mine: Vec<(Pubkey, Position)> =
                            self.open_positions().into_iter().filter(|(_, p)| p.owner == self.users[user]).collect();
                        if !mine.is_empty() {
                            let (_, p) = mine[self.rng.below(mine.len() as u64) as usize];
                            if let Some(mi) = self.w.markets.iter().position(|m| m.market_token == p.market_token) {
                                req.market = mi;
                                req.is_long = p.try_is_long().unwrap_or(true);
                                req.is_collateral_long = p.collateral_token == self.w.tokens[self.w.markets[mi].long].mint;
                                let size = p.state.size_in_usd;
                                req.size_delta_value = match self.rng.below(5) {
                                    0 => size,
                                    1 => size.saturating_add(UNIT),
                                    2 => 0,
                                    _ => self.rng.range_u128(0, size),
                                };
                                if self.rng.chance(1, 3) {
                                    req.initial_collateral_delta_amount = self.rng.range(0, (p.state.collateral_amount as u64).max(1));
                                }
                                // how the pnl-token and collateral-token outputs are merged before the
                                // receive-token swap: with CollateralToPnlToken the output token is the pnl token,
                                // which the (creation-validated) primary path need not start from
                                {
                                    use gmsol_model::action::decrease_position::DecreasePositionSwapType as S;
                                    req.decrease_swap = match self.rng.below(6) {
                                        0 | 1 => Some(S::CollateralToPnlToken),
                                        2 => Some(S::PnlTokenToCollateralToken),
                                        3 => Some(S::NoSwap),
                                        _ => None,
                                    };
                                }
                            }
                        } else if self.rng.chance(1, 8) {
                            req.size_delta_value = self.rng.range(1, 1000) as u128 * UNIT;
                        } else {
                            return Op::RefreshPrices;
                        }
                        let index = self.w.markets[req.market].index;
                        let unit = self.index_unit_price(index);
                        if !matches!(kind, OrderKind::MarketDecrease) {
                            let f = if self.rng.bool() { 98 } else { 102 };
                            req.trigger_price = Some(unit / 100 * f);
                        }
                        if self.rng.chance(1, 8) && req.market != 2 {
                            // final output token is the other token → needs a swap path
                            let coll = if req.is_collateral_long { sol } else { usdc };
                            let out = if coll == sol { usdc } else { sol };
                            req.final_output_token = Some(out);
                            let p = self.gen_path(coll, out, 3);
                            req.swap_path = self.market_token_mints(&p);
                        }
                    }
                    _ => {
                        // swap: pay `pay`, receive the market's long or short token (is_collateral_long)
                        let m = if market == 2 { 0 } else { market };
                        req.market = m;
                        let out = if coll_long { sol } else { usdc };
                        let pay = if self.rng.chance(4, 5) { if out == sol { usdc } else { sol } } else { out };
                        req.initial_collateral_token = Some(pay);
                        req.initial_collateral_delta_amount =
                            if pay == sol { self.rng.log_u64(500 * 1_000_000_000).max(1) } else { self.rng.log_u64(80_000 * 1_000_000).max(1) };
                        let mut p = self.gen_path(pay, out, 4);
                        if p.is_empty() && pay != out {
                            p.push(m);
                        }
                        req.swap_path = self.market_token_mints(&p);
                        if self.rng.chance(1, 6) {
                            req.min_output = self.rng.log_u128(1_000_000_000_000);
                        }
                        if matches!(kind, OrderKind::LimitSwap) {
                            req.min_output = self.rng.log_u128(1_000_000_000);
                        }
                    }
                }
                Op::CreateOrder { user, req }
            }
            7 if n_act > 0 => {
                // fault: execute an action that is already terminal (cancelled / completed) but not closed yet
                if self.rng.chance(1, 6) {
                    let terminal: Vec<usize> = (0..n_act)
                        .filter(|i| {
                            let a = &self.actions[*i];
                            action_state(&self.w.svm, a.kind, &a.addr).map(|s| s.is_completed_or_cancelled()).unwrap_or(false)
                        })
                        .collect();
                    if !terminal.is_empty() {
                        let action = terminal[self.rng.below(terminal.len() as u64) as usize];
                        return Op::Execute { action, throw: self.rng.chance(1, 4) };
                    }
                }
                let action = self.pick_action(true);
                Op::Execute { action, throw: self.rng.chance(1, 3) }
            }
            8 if n_act > 0 => {
                let action = self.pick_action(false);
                let who = match self.rng.below(11) {
                    0..=5 => Who::Owner,
                    6..=8 => Who::Keeper,
                    9 => Who::Stranger,
                    _ => Who::Receiver,
                };
                Op::Close { action, who }
            }
            9 if n_act > 0 => Op::CancelIfNoPosition { action: self.pick_action(true) },
            10 | 12 => {
                let pos = self.open_positions();
                if pos.is_empty() {
                    return Op::RefreshPrices;
                }
                let (k2, p) = pos[self.rng.below(pos.len() as u64) as usize];
                if k == 10 {
                    Op::Liquidate { position: k2 }
                } else {
                    let size = p.state.size_in_usd;
                    let s = match self.rng.below(3) {
                        0 => size,
                        _ => self.rng.range_u128(1, size.max(1)),
                    };
                    Op::Adl { position: k2, size: s }
                }
            }
            11 => Op::UpdateAdl { market: self.rng.below(4) as usize, is_long: self.rng.bool() },
            13 => Op::ClaimFees { market: self.rng.below(4) as usize, long_token: self.rng.bool() },
            14 => Op::TransferIn { market: self.rng.below(4) as usize, long_token: self.rng.bool(), amount: self.rng.log_u64(1_000_000_000) },
            15 => Op::UpdateFees { market: self.rng.below(4) as usize },
            16 => {
                let market = self.rng.below(4) as usize;
                // the liquidation threshold is kept at or below the threshold validated after an increase /
                // decrease (what a sane configuration looks like): with the reverse order a position that passed
                // validation could be liquidated at once by configuration alone
                let (cur_cf, cur_liq_cf) = {
                    use gmsol_model::PerpMarket;
                    load::<gmsol_store::states::Market>(&self.w.svm, &self.w.markets[market].market)
                        .and_then(|m| m.position_params().ok())
                        .map(|p| (*p.min_collateral_factor(), *p.min_collateral_factor_for_liquidation()))
                        .unwrap_or((UNIT / 100, UNIT / 200))
                };
                let (key, value) = match self.rng.below(7) {
                    0 => ("max_pool_amount_for_long_token", self.rng.log_u128(10_000_000 * 1_000_000_000)),
                    1 => ("max_open_interest_for_long", self.rng.log_u128(10_000_000) * UNIT),
                    2 => ("min_collateral_factor", (self.rng.range_u128(1, 5) * UNIT / 100).max(cur_liq_cf)),
                    3 | 4 => ("min_collateral_factor_for_liquidation", (cur_cf / 100 * self.rng.range_u128(10, 100)).max(1)),
                    5 => ("min_collateral_value", self.rng.range_u128(1, 40) * UNIT),
                    _ => ("max_pool_value_for_deposit_for_short_token", self.rng.log_u128(100_000_000) * UNIT),
                };
                Op::SetConfig { market, key: key.to_string(), value }
            }
            17 => {
                let user = self.rng.below(3) as usize;
                // fault: the single-token market is not part of the GLV
                let market = if self.rng.chance(1, 14) { 2 } else { *self.rng.pick(&[0usize, 1, 3]) };
                let mt = self.w.markets[market].market_token;
                let bal = token::token_amount(&self.w.svm, &token::ata(&self.users[user], &mt)).unwrap_or(0);
                let mut market_tokens = 0;
                if bal > 0 && self.rng.chance(1, 2) {
                    market_tokens = match self.rng.below(6) {
                        0 => bal,
                        1 => bal.saturating_add(1), // fault: more than the owner has
                        _ => self.rng.range(1, bal),
                    };
                }
                let (mut long, mut short) = (0, 0);
                if self.rng.chance(1, 2) {
                    long = self.rng.log_u64(1_000 * 1_000_000_000).max(1);
                }
                if self.rng.chance(1, 2) {
                    short = self.rng.log_u64(150_000 * 1_000_000).max(1);
                }
                // a minimum output nobody can meet makes the execution fail softly
                let min_glv = if self.rng.chance(1, 7) { u64::MAX / 2 } else { 0 };
                Op::CreateGlvDeposit { user, market, market_tokens, long, short, min_glv }
            }
            18 => {
                let mut user = self.rng.below(3) as usize;
                let glv_token = self.glv.glv_token;
                for k in 0..3 {
                    let cand = (user + k) % 3;
                    if token::token_amount(&self.w.svm, &ata22(&self.users[cand], &glv_token)).unwrap_or(0) > 0 && !self.rng.chance(1, 10) {
                        user = cand;
                        break;
                    }
                }
                let bal = token::token_amount(&self.w.svm, &ata22(&self.users[user], &glv_token)).unwrap_or(0);
                let market = if self.rng.chance(1, 14) { 2 } else { *self.rng.pick(&[0usize, 1, 3]) };
                let amount = match self.rng.below(5) {
                    0 => bal,
                    1 => bal.saturating_add(1),
                    _ => self.rng.range(0, bal.max(1)),
                };
                let (mut min_long, mut min_short) = (0, 0);
                if self.rng.chance(1, 7) {
                    if self.rng.bool() {
                        min_long = u64::MAX / 2;
                    } else {
                        min_short = u64::MAX / 2;
                    }
                }
                Op::CreateGlvWithdrawal { user, market, amount, min_long, min_short }
            }
            19 => {
                let from = *self.rng.pick(&[0usize, 1, 3]);
                let mut to = *self.rng.pick(&[0usize, 1, 3, 0, 1, 3, 2]);
                if to == from && !self.rng.chance(1, 10) {
                    to = [0usize, 1, 3][(from + 1) % 3];
                }
                let bal = token::token_amount(&self.w.svm, &self.glv_vault_of(from)).unwrap_or(0);
                let amount = match self.rng.below(8) {
                    0 => bal.saturating_add(1), // fault: more than the GLV holds
                    1 => 0,
                    _ => self.rng.range(1, (bal / 4).max(1)),
                };
                let min_to = if self.rng.chance(1, 7) { u64::MAX / 2 } else { 0 };
                Op::CreateGlvShift { from, to, amount, min_to }
            }
            20 => self.gen_adl_driver(),
            _ => Op::RefreshPrices,
        }
    }

    /// The next useful single step towards a successful auto-deleveraging (see the module docs).
    /// Uses the market's own pnl-factor function only to *steer* the workload; nothing is judged here.
    fn gen_adl_driver(&mut self) -> Op {
        use gmsol_model::{
            price::{Price, Prices},
            BaseMarket, BaseMarketExt, PnlFactorKind,
        };
        let pos = self.open_positions();
        let mut cands: Vec<(Pubkey, Position, usize, bool, bool)> = vec![];
        for (k, p) in pos {
            let Some(mi) = self.w.markets.iter().position(|m| m.market_token == p.market_token) else { continue };
            let is_long = p.try_is_long().unwrap_or(true);
            let value = p.state.size_in_tokens.saturating_mul(self.index_unit_price(self.w.markets[mi].index));
            let profitable = if is_long { value > p.state.size_in_usd } else { value < p.state.size_in_usd };
            cands.push((k, p, mi, is_long, profitable));
        }
        if cands.is_empty() {
            return Op::RefreshPrices;
        }
        // prefer the side that is already closest to ADL: enabled > profitable > anything
        let enabled: Vec<usize> = (0..cands.len())
            .filter(|i| cands[*i].4 && self.w.market_state(cands[*i].2).map(|m| m.is_adl_enabled(cands[*i].3)).unwrap_or(false))
            .collect();
        let profitable: Vec<usize> = (0..cands.len()).filter(|i| cands[*i].4).collect();
        let pick = if !enabled.is_empty() && !self.rng.chance(1, 5) {
            *self.rng.pick(&enabled)
        } else if !profitable.is_empty() && !self.rng.chance(1, 8) {
            *self.rng.pick(&profitable)
        } else {
            self.rng.below(cands.len() as u64) as usize
        };
        let (position, p, mi, is_long, is_profitable) = cands[pick];
        let mk = self.w.markets[mi].clone();
        let Some(market) = self.w.market_state(mi) else { return Op::RefreshPrices };
        let at = |t: usize| {
            let u = self.index_unit_price(t);
            Price { min: u, max: u }
        };
        let prices = Prices { index_token_price: at(mk.index), long_token_price: at(mk.long), short_token_price: at(mk.short) };
        let factor = market.pnl_factor(&prices, is_long, true).ok().filter(|f| *f > 0).map(|f| f as u128);
        let limit = market.pnl_factor_config(PnlFactorKind::ForAdl, is_long).unwrap_or(u128::MAX);
        let min_after = market.pnl_factor_config(PnlFactorKind::MinAfterAdl, is_long).unwrap_or(0);
        let side = if is_long { "long" } else { "short" };
        match factor {
            Some(f) if is_profitable => {
                if min_after > f / 3 {
                    Op::SetConfig { market: mi, key: format!("min_pnl_factor_after_{side}_adl"), value: f / self.rng.range_u128(4, 40) }
                } else if f <= limit {
                    Op::SetConfig { market: mi, key: format!("max_pnl_factor_for_{side}_adl"), value: (f / 100 * self.rng.range_u128(35, 95)).max(1) }
                } else if !market.is_adl_enabled(is_long) || self.rng.chance(1, 8) {
                    Op::UpdateAdl { market: mi, is_long }
                } else {
                    let size = p.state.size_in_usd;
                    let s = match self.rng.below(5) {
                        0 => size,
                        1 => size / 2 + 1,
                        _ => self.rng.range_u128(size / 20 + 1, size.max(size / 20 + 1)),
                    };
                    Op::Adl { position, size: s }
                }
            }
            _ => {
                // move the index price in favour of that side
                let token = mk.index;
                let pct = if is_long { self.rng.range(104, 125) } else { self.rng.range(80, 96) } as u128;
                let price = (self.prices[token] / 100 * pct).clamp(self.base_prices[token] / 10, self.base_prices[token] * 10);
                Op::MovePrice { token, price, spread_bps: self.rng.range(0, 30) as u32 }
            }
        }
    }

    /// The unit price (USD·10^20 per smallest token unit) of an index token at its mid price.
    pub fn index_unit_price(&self, token: usize) -> u128 {
        let t = &self.w.tokens[token];
        // price(e18) * 10^20 / 10^18 / 10^decimals
        self.prices[token] * 100 / 10u128.pow(t.decimals as u32)
    }

    fn pick_action(&mut self, prefer_pending: bool) -> usize {
        let n = self.actions.len();
        if prefer_pending {
            let pending: Vec<usize> = (0..n)
                .filter(|i| {
                    let a = &self.actions[*i];
                    action_state(&self.w.svm, a.kind, &a.addr).map(|s| s.is_pending()).unwrap_or(false)
                })
                .collect();
            if !pending.is_empty() && !self.rng.chance(1, 10) {
                return pending[self.rng.below(pending.len() as u64) as usize];
            }
        } else {
            let live: Vec<usize> = (0..n).filter(|i| self.w.svm.get(&self.actions[*i].addr).is_some()).collect();
            if !live.is_empty() && !self.rng.chance(1, 10) {
                return live[self.rng.below(live.len() as u64) as usize];
            }
        }
        self.rng.below(n as u64) as usize
    }

    /// The signer playing the part `w` for action `a` (see the module docs for GLV shifts).
    pub fn who(&self, w: Who, a: &ActionRec) -> Pubkey {
        match w {
            Who::Owner => a.owner,
            Who::Keeper if a.kind == ActKind::GlvShift => self.keeper2,
            Who::Keeper => self.w.keeper,
            Who::Stranger => self.stranger,
            Who::Receiver => match a.kind {
                ActKind::Order => order_receiver(&self.w.svm, &a.addr).filter(|r| *r != a.owner && *r != self.w.keeper).unwrap_or(self.stranger),
                _ => self.stranger,
            },
        }
    }

    fn escrows_of(&self, kind: ActKind, addr: &Pubkey) -> Vec<(Pubkey, Pubkey)> {
        let mut mints: Vec<Pubkey> = vec![];
        match kind {
            ActKind::Deposit => {
                if let Some(d) = load::<Deposit>(&self.w.svm, addr) {
                    mints.push(d.tokens().market_token());
                    mints.extend(d.tokens().initial_long_token.token());
                    mints.extend(d.tokens().initial_short_token.token());
                }
            }
            ActKind::Withdrawal => {
                if let Some(d) = load::<Withdrawal>(&self.w.svm, addr) {
                    mints.push(d.tokens().market_token());
                    mints.push(d.tokens().final_long_token());
                    mints.push(d.tokens().final_short_token());
                }
            }
            ActKind::Shift => {
                if let Some(d) = load::<Shift>(&self.w.svm, addr) {
                    mints.push(d.tokens().from_market_token());
                    mints.push(d.tokens().to_market_token());
                }
            }
            ActKind::Order => {
                if let Some(o) = load::<Order>(&self.w.svm, addr) {
                    let t = o.tokens();
                    mints.extend(t.initial_collateral().token());
                    mints.extend(t.final_output_token().token());
                    mints.extend(t.long_token().token());
                    mints.extend(t.short_token().token());
                }
            }
            ActKind::GlvDeposit => {
                if let Some(d) = load::<GlvDeposit>(&self.w.svm, addr) {
                    let t = d.tokens();
                    mints.push(t.glv_token());
                    mints.push(t.market_token());
                    mints.extend(t.initial_long_token.token());
                    mints.extend(t.initial_short_token.token());
                }
            }
            ActKind::GlvWithdrawal => {
                if let Some(d) = load::<GlvWithdrawal>(&self.w.svm, addr) {
                    let t = d.tokens();
                    mints.push(t.glv_token());
                    mints.push(t.market_token());
                    mints.push(t.final_long_token());
                    mints.push(t.final_short_token());
                }
            }
            // A GLV shift escrows nothing: it moves market tokens between the GLV's own vaults.
            ActKind::GlvShift => {}
        }
        mints.sort();
        mints.dedup();
        mints.into_iter().map(|m| (self.home_ata(addr, &m), m)).collect()
    }

    fn markets_of_path(&self, base: usize, paths: &[&[Pubkey]]) -> Vec<usize> {
        let mut ms = vec![base];
        for p in paths {
            for mt in p.iter() {
                if let Some(i) = self.w.markets.iter().position(|m| m.market_token == *mt) {
                    if !ms.contains(&i) {
                        ms.push(i);
                    }
                }
            }
        }
        ms
    }

    pub fn step(&mut self) -> StepRec {
        let op = self.gen_op();
        self.apply(op)
    }

    pub fn apply(&mut self, op: Op) -> StepRec {
        let pre = self.w.svm.clone();
        let mut created = None;
        let mut sent = vec![];
        let keeper = self.w.keeper;
        let result: Option<Result<TxMeta, (TxError, TxMeta)>> = match &op {
            Op::Warp { secs, refresh } => {
                self.w.svm.warp(*secs);
                if *refresh {
                    self.refresh_prices();
                }
                None
            }
            Op::MovePrice { token, price, spread_bps } => {
                self.prices[*token] = *price;
                self.spreads_bps[*token] = *spread_bps;
                let (b, p, a) = self.bid_ask(*token);
                Some(self.w.set_price(*token, b, p, a))
            }
            Op::RefreshPrices => {
                self.refresh_prices();
                None
            }
            Op::CreateDeposit { user, market, long, short, long_path, short_path } => {
                let owner = self.users[*user];
                let lp = self.market_token_mints(long_path);
                let sp = self.market_token_mints(short_path);
                let r = self.w.create_deposit(owner, *market, *long, *short, None, None, &lp, &sp, 0);
                Some(match r {
                    Ok(addr) => {
                        let escrows = self.escrows_of(ActKind::Deposit, &addr);
                        let markets = self.markets_of_path(*market, &[&lp, &sp]);
                        self.actions.push(ActionRec { kind: ActKind::Deposit, addr, owner, rent_receiver: owner, escrows, markets, is_position_cut: false });
                        created = Some(self.actions.len() - 1);
                        Ok(TxMeta::default())
                    }
                    Err(e) => Err(e),
                })
            }
            Op::CreateWithdrawal { user, market, amount, long_path, short_path } => {
                let owner = self.users[*user];
                let lp = self.market_token_mints(long_path);
                let sp = self.market_token_mints(short_path);
                let r = self.w.create_withdrawal(owner, *market, *amount, None, None, &lp, &sp, 0, 0);
                Some(match r {
                    Ok(addr) => {
                        let escrows = self.escrows_of(ActKind::Withdrawal, &addr);
                        let markets = self.markets_of_path(*market, &[&lp, &sp]);
                        self.actions.push(ActionRec { kind: ActKind::Withdrawal, addr, owner, rent_receiver: owner, escrows, markets, is_position_cut: false });
                        created = Some(self.actions.len() - 1);
                        Ok(TxMeta::default())
                    }
                    Err(e) => Err(e),
                })
            }
            Op::CreateShift { user, from, to, amount } => {
                let owner = self.users[*user];
                let r = self.w.create_shift(owner, *from, *to, *amount, 0);
                Some(match r {
                    Ok(addr) => {
                        let escrows = self.escrows_of(ActKind::Shift, &addr);
                        self.actions.push(ActionRec { kind: ActKind::Shift, addr, owner, rent_receiver: owner, escrows, markets: vec![*from, *to], is_position_cut: false });
                        created = Some(self.actions.len() - 1);
                        Ok(TxMeta::default())
                    }
                    Err(e) => Err(e),
                })
            }
            Op::CreateOrder { user, req } => {
                let owner = self.users[*user];
                let r = self.w.create_order(owner, req);
                Some(match r {
                    Ok(addr) => {
                        let escrows = self.escrows_of(ActKind::Order, &addr);
                        let markets = self.markets_of_path(req.market, &[&req.swap_path]);
                        self.actions.push(ActionRec { kind: ActKind::Order, addr, owner, rent_receiver: owner, escrows, markets, is_position_cut: false });
                        created = Some(self.actions.len() - 1);
                        Ok(TxMeta::default())
                    }
                    Err(e) => Err(e),
                })
            }
            Op::CreateGlvDeposit { user, market, market_tokens, long, short, min_glv } => {
                let owner = self.users[*user];
                let glv = self.glv;
                let r = self.w.create_glv_deposit(owner, &glv, *market, *market_tokens, *long, *short, 0, *min_glv);
                Some(match r {
                    Ok(addr) => {
                        let escrows = self.escrows_of(ActKind::GlvDeposit, &addr);
                        self.actions.push(ActionRec { kind: ActKind::GlvDeposit, addr, owner, rent_receiver: owner, escrows, markets: vec![*market], is_position_cut: false });
                        created = Some(self.actions.len() - 1);
                        Ok(TxMeta::default())
                    }
                    Err(e) => Err(e),
                })
            }
            Op::CreateGlvWithdrawal { user, market, amount, min_long, min_short } => {
                let owner = self.users[*user];
                let glv = self.glv;
                let r = self.w.create_glv_withdrawal(owner, &glv, *market, *amount, *min_long, *min_short);
                Some(match r {
                    Ok(addr) => {
                        let escrows = self.escrows_of(ActKind::GlvWithdrawal, &addr);
                        self.actions.push(ActionRec { kind: ActKind::GlvWithdrawal, addr, owner, rent_receiver: owner, escrows, markets: vec![*market], is_position_cut: false });
                        created = Some(self.actions.len() - 1);
                        Ok(TxMeta::default())
                    }
                    Err(e) => Err(e),
                })
            }
            Op::CreateGlvShift { from, to, amount, min_to } => {
                let glv = self.glv;
                let r = self.w.create_glv_shift(&glv, *from, *to, *amount, *min_to);
                Some(match r {
                    Ok(addr) => {
                        // funded by `keeper`: it receives the rent / unused fee and may close in any state
                        self.actions.push(ActionRec { kind: ActKind::GlvShift, addr, owner: keeper, rent_receiver: keeper, escrows: vec![], markets: vec![*from, *to], is_position_cut: false });
                        created = Some(self.actions.len() - 1);
                        Ok(TxMeta::default())
                    }
                    Err(e) => Err(e),
                })
            }
            Op::Execute { action, throw } => {
                let a = self.actions[*action].clone();
                // the keeper may claim any execution fee up to the action's maximum
                self.w.exec_fee = *self.rng.pick(&[exchange::EXECUTION_FEE, exchange::EXECUTION_FEE, exchange::EXECUTION_FEE / 2, 1_000_000, 1_000, 0]);
                let ixs = match a.kind {
                    ActKind::Deposit => self.w.execute_deposit_ix(keeper, a.addr, *throw).map(|i| vec![i]),
                    ActKind::Withdrawal => self.w.execute_withdrawal_ix(keeper, a.addr, *throw).map(|i| vec![i]),
                    ActKind::Shift => self.w.execute_shift_ix(keeper, a.addr, *throw).map(|i| vec![i]),
                    ActKind::Order => self.w.execute_order_ixs(keeper, a.addr, *throw),
                    // the GLV helpers always claim the full fee: re-encode with the fee chosen above
                    ActKind::GlvDeposit => self.w.execute_glv_deposit_ix(keeper, a.addr, *throw).map(|mut i| {
                        i.data = si::ExecuteGlvDeposit { execution_lamports: self.w.exec_fee, throw_on_execution_error: *throw }.data();
                        vec![i]
                    }),
                    ActKind::GlvWithdrawal => self.w.execute_glv_withdrawal_ix(keeper, a.addr, *throw).map(|mut i| {
                        i.data = si::ExecuteGlvWithdrawal { execution_lamports: self.w.exec_fee, throw_on_execution_error: *throw }.data();
                        vec![i]
                    }),
                    ActKind::GlvShift => self.w.execute_glv_shift_ix(keeper, a.addr, *throw).map(|mut i| {
                        i.data = si::ExecuteGlvShift { execution_lamports: self.w.exec_fee, throw_on_execution_error: *throw }.data();
                        vec![i]
                    }),
                };
                match ixs {
                    Some(ixs) => {
                        sent.push((ixs.clone(), vec![keeper]));
                        Some(self.w.send(&ixs, &[keeper]))
                    }
                    None => None,
                }
            }
            Op::Close { action, who } => {
                let a = self.actions[*action].clone();
                let executor = self.who(*who, &a);
                let ix = match a.kind {
                    ActKind::Deposit => self.w.close_deposit_ix(executor, a.addr),
                    ActKind::Withdrawal => self.w.close_withdrawal_ix(executor, a.addr),
                    ActKind::Shift => self.w.close_shift_ix(executor, a.addr),
                    ActKind::Order => self.w.close_order_ix(executor, a.addr),
                    ActKind::GlvDeposit => self.w.close_glv_deposit_ix(executor, a.addr),
                    ActKind::GlvWithdrawal => self.w.close_glv_withdrawal_ix(executor, a.addr),
                    ActKind::GlvShift => self.w.glv_shift_close_ix(executor, a.addr),
                };
                match ix {
                    Some(ix) => {
                        sent.push((vec![ix.clone()], vec![executor]));
                        Some(self.w.send(&[ix], &[executor]))
                    }
                    None => None,
                }
            }
            Op::CancelIfNoPosition { action } => {
                let a = self.actions[*action].clone();
                match (a.kind == ActKind::Order).then(|| self.w.cancel_order_if_no_position_ix(keeper, a.addr)).flatten() {
                    Some(ix) => {
                        sent.push((vec![ix.clone()], vec![keeper]));
                        Some(self.w.send(&[ix], &[keeper]))
                    }
                    None => None,
                }
            }
            Op::Liquidate { position } | Op::Adl { position, .. } => {
                let adl = if let Op::Adl { size, .. } = &op { Some(*size) } else { None };
                let owner = load::<Position>(&self.w.svm, position).map(|p| p.owner);
                let mi = load::<Position>(&self.w.svm, position)
                    .and_then(|p| self.w.markets.iter().position(|m| m.market_token == p.market_token));
                match self.w.position_cut_ixs(keeper, *position, adl) {
                    Some((ixs, order)) => {
                        sent.push((ixs.clone(), vec![keeper]));
                        let r = self.w.send(&ixs, &[keeper]);
                        if r.is_ok() {
                            let escrows = self.escrows_of(ActKind::Order, &order);
                            self.actions.push(ActionRec {
                                kind: ActKind::Order,
                                addr: order,
                                owner: owner.unwrap_or_default(),
                                rent_receiver: keeper,
                                escrows,
                                markets: mi.into_iter().collect(),
                                is_position_cut: true,
                            });
                            created = Some(self.actions.len() - 1);
                        }
                        Some(r)
                    }
                    None => None,
                }
            }
            Op::UpdateAdl { market, is_long } => {
                let ix = self.w.update_adl_state_ix(keeper, *market, *is_long);
                sent.push((vec![ix.clone()], vec![keeper]));
                Some(self.w.send(&[ix], &[keeper]))
            }
            Op::ClaimFees { market, long_token } => {
                let admin = self.w.admin;
                let ix = self.w.claim_fees_ix(admin, *market, *long_token);
                sent.push((vec![ix.clone()], vec![admin]));
                Some(self.w.send(&[ix], &[admin]))
            }
            Op::TransferIn { market, long_token, amount } => {
                let ix = self.w.market_transfer_in_ix(keeper, *market, *long_token, *amount);
                sent.push((vec![ix.clone()], vec![keeper]));
                Some(self.w.send(&[ix], &[keeper]))
            }
            Op::UpdateFees { market } => {
                let ix = self.w.update_fees_state_ix(keeper, *market);
                sent.push((vec![ix.clone()], vec![keeper]));
                Some(self.w.send(&[ix], &[keeper]))
            }
            Op::SetConfig { market, key, value } => {
                let ix = self.w.update_market_config_ix(keeper, *market, key, *value);
                sent.push((vec![ix.clone()], vec![keeper]));
                Some(self.w.send(&[ix], &[keeper]))
            }
        };
        let outcome = match &result {
            None => "-".to_string(),
            Some(Ok(_)) => "ok".to_string(),
            Some(Err((e, _))) => format!("{e:?}"),
        };
        if self.history.len() >= 40 {
            self.history.remove(0);
        }
        self.history.push(format!("{:?} => {}", op, outcome));
        StepRec { op, pre, result, created, sent }
    }
}

// ------------------------------------------------------------------------------------------------
// World helper additions (kept here so that `world/glv.rs` stays untouched while others edit it).

impl World {
    /// `close_glv_shift` signed by an arbitrary `executor` (`World::close_glv_shift` always signs
    /// with the keeper).
    pub fn glv_shift_close_ix(&self, executor: Pubkey, glv_shift: Pubkey) -> Option<anchor_lang::solana_program::instruction::Instruction> {
        let s: GlvShift = load(&self.svm, &glv_shift)?;
        let t = s.tokens();
        Some(six(
            sa::CloseGlvShift {
                authority: executor,
                funder: *s.funder(),
                store: self.store,
                store_wallet: self.store_wallet(),
                glv: *s.glv(),
                glv_shift,
                from_market_token: t.from_market_token(),
                to_market_token: t.to_market_token(),
                system_program: anchor_lang::system_program::ID,
                token_program: anchor_spl::token::spl_token::ID,
                associated_token_program: anchor_spl::associated_token::ID,
                event_authority: self.event_authority(),
                program: STORE_PID,
            },
            si::CloseGlvShift { reason: "test".into() },
        ))
    }
}
