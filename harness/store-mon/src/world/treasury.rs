//! World extension: treasury flows (instruction builders over the real program).
use super::*;
