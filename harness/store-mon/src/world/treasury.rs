//! World extension: treasury flows (instruction builders over the real program).
use super::exchange::load;
use super::*;
use anchor_spl::associated_token;
use gmsol_store::states::Seed;
use gmsol_treasury::{
    accounts as ta, instruction as ti,
    states::{Config, GtBank, TreasuryVaultConfig},
    ID as TREASURY_PID,
};

pub const TREASURY_ROLES: [&str; 4] = [
    gmsol_treasury::roles::TREASURY_OWNER,
    gmsol_treasury::roles::TREASURY_ADMIN,
    gmsol_treasury::roles::TREASURY_KEEPER,
    gmsol_treasury::roles::TREASURY_WITHDRAWER,
];

/// Addresses of a bootstrapped treasury.
#[derive(Clone, Debug)]
pub struct Treasury {
    pub config: Pubkey,
    pub receiver: Pubkey,
    pub vault_config: Pubkey,
    /// Oracle account whose authority is the treasury config PDA.
    pub oracle: Pubkey,
}

/// Treasury-program instruction.
pub fn tix(accounts: impl ToAccountMetas, data: impl InstructionData) -> Instruction {
    ix(TREASURY_PID, accounts, data)
}

impl World {
    pub fn treasury_config_pda(&self) -> Pubkey {
        Pubkey::find_program_address(&[Config::SEED, self.store.as_ref()], &TREASURY_PID).0
    }

    pub fn treasury_receiver_pda(&self, config: &Pubkey) -> Pubkey {
        Pubkey::find_program_address(&[gmsol_treasury::constants::RECEIVER_SEED, config.as_ref()], &TREASURY_PID).0
    }

    pub fn treasury_vault_config_pda(&self, config: &Pubkey, index: u16) -> Pubkey {
        Pubkey::find_program_address(&[TreasuryVaultConfig::SEED, config.as_ref(), &index.to_le_bytes()], &TREASURY_PID).0
    }

    pub fn gt_bank_pda(&self, treasury_vault_config: &Pubkey, gt_exchange_vault: &Pubkey) -> Pubkey {
        Pubkey::find_program_address(&[GtBank::SEED, treasury_vault_config.as_ref(), gt_exchange_vault.as_ref()], &TREASURY_PID).0
    }

    /// Enable the treasury roles and grant them to the keeper; make the treasury receiver PDA the
    /// store's receiver; `initialize_config`; grant the config PDA the store roles it needs as a CPI
    /// authority; `initialize_treasury_vault_config(index)` + `set_treasury_vault_config`; an oracle
    /// account whose authority is the config PDA. Failures are harness errors (panic).
    pub fn bootstrap_treasury(&mut self, index: u16) -> Treasury {
        let (admin, keeper, store) = (self.admin, self.keeper, self.store);
        for role in TREASURY_ROLES {
            self.must(
                "enable_role(treasury)",
                &[six(sa::EnableRole { authority: admin, store }, si::EnableRole { role: role.to_string() })],
                &[admin],
            );
            self.grant(&keeper, role).expect("grant treasury role");
        }
        let config = self.treasury_config_pda();
        let receiver = self.treasury_receiver_pda(&config);
        let vault_config = self.treasury_vault_config_pda(&config, index);
        self.svm.airdrop(&receiver, LAMPORTS);
        // The current receiver (the store authority by default) hands over to the treasury receiver PDA.
        let current_receiver = load::<gmsol_store::states::Store>(&self.svm, &store).expect("store").receiver();
        self.must(
            "transfer_receiver",
            &[six(
                sa::TransferReceiver { authority: current_receiver, store, next_receiver: receiver },
                si::TransferReceiver {},
            )],
            &[current_receiver],
        );
        self.must(
            "treasury initialize_config",
            &[tix(
                ta::InitializeConfig {
                    payer: keeper,
                    store,
                    config,
                    receiver,
                    store_program: STORE_PID,
                    system_program: system_program::ID,
                },
                ti::InitializeConfig {},
            )],
            &[keeper],
        );
        for role in [RoleKey::GT_CONTROLLER, RoleKey::ORACLE_CONTROLLER] {
            self.grant(&config, role).expect("grant config role");
        }
        self.must(
            "initialize_treasury_vault_config",
            &[tix(
                ta::InitializeTreasuryVaultConfig {
                    authority: keeper,
                    store,
                    config,
                    treasury_vault_config: vault_config,
                    store_program: STORE_PID,
                    system_program: system_program::ID,
                },
                ti::InitializeTreasuryVaultConfig { index },
            )],
            &[keeper],
        );
        self.must(
            "set_treasury_vault_config",
            &[tix(
                ta::SetTreasuryVaultConfig {
                    authority: keeper,
                    store,
                    config,
                    treasury_vault_config: vault_config,
                    store_program: STORE_PID,
                },
                ti::SetTreasuryVaultConfig {},
            )],
            &[keeper],
        );
        let oracle = key("treasury-oracle");
        let size = 8 + std::mem::size_of::<gmsol_store::states::Oracle>();
        let lamports = self.svm.rent.minimum_balance(size);
        self.svm.set_account(oracle, Account::new(lamports, vec![0; size], STORE_PID));
        self.must(
            "initialize_oracle(treasury)",
            &[six(
                sa::InitializeOracle { payer: keeper, authority: config, store, oracle, system_program: system_program::ID },
                si::InitializeOracle {},
            )],
            &[keeper],
        );
        Treasury { config, receiver, vault_config, oracle }
    }

    pub fn treasury_set_gt_factor(&mut self, t: &Treasury, authority: Pubkey, factor: u128) -> TxResult {
        let ix = tix(
            ta::UpdateConfig { authority, store: self.store, config: t.config, store_program: STORE_PID },
            ti::SetGtFactor { factor },
        );
        self.send(&[ix], &[authority])
    }

    pub fn treasury_set_buyback_factor(&mut self, t: &Treasury, authority: Pubkey, factor: u128) -> TxResult {
        let ix = tix(
            ta::UpdateConfig { authority, store: self.store, config: t.config, store_program: STORE_PID },
            ti::SetBuybackFactor { factor },
        );
        self.send(&[ix], &[authority])
    }

    pub fn treasury_insert_token(&mut self, t: &Treasury, mint: Pubkey) -> TxResult {
        let keeper = self.keeper;
        let ix = tix(
            ta::InsertTokenToTreasuryVault {
                authority: keeper,
                store: self.store,
                config: t.config,
                treasury_vault_config: t.vault_config,
                token: mint,
                store_program: STORE_PID,
            },
            ti::InsertTokenToTreasuryVault {},
        );
        self.send(&[ix], &[keeper])
    }

    pub fn treasury_remove_token(&mut self, t: &Treasury, mint: Pubkey) -> TxResult {
        let keeper = self.keeper;
        let ix = tix(
            ta::RemoveTokenFromTreasuryVault {
                authority: keeper,
                store: self.store,
                config: t.config,
                treasury_vault_config: t.vault_config,
                token: mint,
                store_program: STORE_PID,
            },
            ti::RemoveTokenFromTreasuryVault {},
        );
        self.send(&[ix], &[keeper])
    }

    /// `flag` is `"allow_deposit"` or `"allow_withdrawal"`.
    pub fn treasury_toggle_token_flag(&mut self, t: &Treasury, mint: Pubkey, flag: &str, value: bool) -> TxResult {
        let keeper = self.keeper;
        let ix = tix(
            ta::ToggleTokenFlag {
                authority: keeper,
                store: self.store,
                config: t.config,
                treasury_vault_config: t.vault_config,
                token: mint,
                store_program: STORE_PID,
            },
            ti::ToggleTokenFlag { flag: flag.to_string(), value },
        );
        self.send(&[ix], &[keeper])
    }

    /// `prepare_gt_bank` for the given GT exchange vault; returns the bank address.
    pub fn prepare_gt_bank(&mut self, t: &Treasury, gt_exchange_vault: Pubkey) -> std::result::Result<Pubkey, (TxError, TxMeta)> {
        let keeper = self.keeper;
        let gt_bank = self.gt_bank_pda(&t.vault_config, &gt_exchange_vault);
        let ix = tix(
            ta::PrepareGtBank {
                authority: keeper,
                store: self.store,
                config: t.config,
                treasury_vault_config: t.vault_config,
                gt_exchange_vault,
                gt_bank,
                store_program: STORE_PID,
                system_program: system_program::ID,
            },
            ti::PrepareGtBank {},
        );
        self.send(&[ix], &[keeper]).map(|_| gt_bank)
    }

    /// `claim_fees`: market claimable fees → receiver vault (created if needed).
    pub fn treasury_claim_fees(&mut self, t: &Treasury, market: usize, mint: Pubkey, min_amount: u64) -> TxResult {
        let keeper = self.keeper;
        let ix = tix(
            ta::ClaimFees {
                authority: keeper,
                store: self.store,
                config: t.config,
                receiver: t.receiver,
                market: self.markets[market].market,
                token: mint,
                vault: self.vault(&mint),
                receiver_vault: token::ata(&t.receiver, &mint),
                event_authority: self.event_authority(),
                store_program: STORE_PID,
                token_program: spl_token::ID,
                associated_token_program: associated_token::ID,
                system_program: system_program::ID,
            },
            ti::ClaimFees { min_amount },
        );
        self.send(&[ix], &[keeper])
    }

    /// `deposit_to_treasury_vault` (the instruction that funds the GT bank): the whole receiver-vault
    /// balance of `mint` is split between the GT bank (`gt_factor`) and the treasury vault.
    /// The vault token accounts are prepared in the same transaction.
    pub fn deposit_to_treasury_vault(&mut self, t: &Treasury, gt_exchange_vault: Pubkey, mint: Pubkey) -> TxResult {
        let keeper = self.keeper;
        let gt_bank = self.gt_bank_pda(&t.vault_config, &gt_exchange_vault);
        let ixs = vec![
            self.prepare_ata_ix(keeper, t.receiver, mint),
            self.prepare_ata_ix(keeper, t.vault_config, mint),
            self.prepare_ata_ix(keeper, gt_bank, mint),
            tix(
                ta::DepositToTreasuryVault {
                    authority: keeper,
                    store: self.store,
                    config: t.config,
                    treasury_vault_config: t.vault_config,
                    receiver: t.receiver,
                    gt_exchange_vault,
                    gt_bank,
                    token: mint,
                    receiver_vault: token::ata(&t.receiver, &mint),
                    treasury_vault: token::ata(&t.vault_config, &mint),
                    gt_bank_vault: token::ata(&gt_bank, &mint),
                    store_program: STORE_PID,
                    token_program: spl_token::ID,
                    associated_token_program: associated_token::ID,
                },
                ti::DepositToTreasuryVault {},
            ),
        ];
        self.send(&ixs, &[keeper])
    }

    pub fn sync_gt_bank(&mut self, t: &Treasury, gt_exchange_vault: Pubkey, mint: Pubkey) -> TxResult {
        let keeper = self.keeper;
        let gt_bank = self.gt_bank_pda(&t.vault_config, &gt_exchange_vault);
        let ixs = vec![
            self.prepare_ata_ix(keeper, t.vault_config, mint),
            self.prepare_ata_ix(keeper, gt_bank, mint),
            tix(
                ta::SyncGtBank {
                    authority: keeper,
                    store: self.store,
                    config: t.config,
                    treasury_vault_config: t.vault_config,
                    gt_bank,
                    token: mint,
                    treasury_vault: token::ata(&t.vault_config, &mint),
                    gt_bank_vault: token::ata(&gt_bank, &mint),
                    store_program: STORE_PID,
                    token_program: spl_token::ID,
                    associated_token_program: associated_token::ID,
                },
                ti::SyncGtBankV2 {},
            ),
        ];
        self.send(&ixs, &[keeper])
    }

    pub fn withdraw_from_treasury_vault(&mut self, t: &Treasury, mint: Pubkey, amount: u64, decimals: u8, target: Pubkey) -> TxResult {
        let keeper = self.keeper;
        let ix = tix(
            ta::WithdrawFromTreasuryVault {
                authority: keeper,
                store: self.store,
                config: t.config,
                treasury_vault_config: t.vault_config,
                token: mint,
                treasury_vault: token::ata(&t.vault_config, &mint),
                target,
                store_program: STORE_PID,
                token_program: spl_token::ID,
            },
            ti::WithdrawFromTreasuryVault { amount, decimals },
        );
        self.send(&[ix], &[keeper])
    }

    pub fn confirm_gt_buyback_ix(&self, t: &Treasury, authority: Pubkey, gt_exchange_vault: Pubkey) -> Option<Instruction> {
        let gt_bank = self.gt_bank_pda(&t.vault_config, &gt_exchange_vault);
        let bank: GtBank = load(&self.svm, &gt_bank)?;
        let tvc: TreasuryVaultConfig = load(&self.svm, &t.vault_config)?;
        let tokens: std::collections::BTreeSet<Pubkey> = bank.tokens().chain(tvc.tokens()).collect();
        let mut ix = tix(
            ta::ConfirmGtBuyback {
                authority,
                store: self.store,
                config: t.config,
                treasury_vault_config: t.vault_config,
                gt_exchange_vault,
                gt_bank,
                token_map: self.token_map,
                oracle: t.oracle,
                event_authority: self.event_authority(),
                store_program: STORE_PID,
                chainlink_program: None,
            },
            ti::ConfirmGtBuyback {},
        );
        let tokens: Vec<Pubkey> = tokens.into_iter().collect();
        ix.accounts.extend(self.feed_metas(&tokens));
        let treasury_tokens: Vec<Pubkey> = tvc.tokens().collect();
        for m in &treasury_tokens {
            ix.accounts.push(AccountMeta::new_readonly(*m, false));
        }
        for m in &treasury_tokens {
            ix.accounts.push(AccountMeta::new_readonly(token::ata(&t.vault_config, m), false));
        }
        Some(ix)
    }

    /// `confirm_gt_buyback`; treasury vault token accounts of all treasury tokens are prepared first.
    pub fn confirm_gt_buyback(&mut self, t: &Treasury, gt_exchange_vault: Pubkey) -> TxResult {
        let keeper = self.keeper;
        let Some(ix) = self.confirm_gt_buyback_ix(t, keeper, gt_exchange_vault) else {
            return Err((TxError::Runtime("harness: gt bank / treasury vault config not found".into()), TxMeta::default()));
        };
        let tvc: TreasuryVaultConfig = load(&self.svm, &t.vault_config).expect("tvc");
        let mut ixs: Vec<Instruction> = tvc.tokens().map(|m| self.prepare_ata_ix(keeper, t.vault_config, m)).collect();
        ixs.push(ix);
        self.send(&ixs, &[keeper])
    }

    pub fn complete_gt_exchange_ix(&self, t: &Treasury, owner: Pubkey, gt_exchange_vault: Pubkey) -> Option<Instruction> {
        let gt_bank = self.gt_bank_pda(&t.vault_config, &gt_exchange_vault);
        let bank: GtBank = load(&self.svm, &gt_bank)?;
        let tokens: Vec<Pubkey> = bank.tokens().collect();
        let mut ix = tix(
            ta::CompleteGtExchange {
                owner,
                store: self.store,
                config: t.config,
                treasury_vault_config: t.vault_config,
                gt_exchange_vault,
                gt_bank,
                exchange: self.gt_exchange_pda(&gt_exchange_vault, &owner),
                store_program: STORE_PID,
                token_program: spl_token::ID,
                token_2022_program: anchor_spl::token_2022::ID,
            },
            ti::CompleteGtExchange {},
        );
        for m in &tokens {
            ix.accounts.push(AccountMeta::new_readonly(*m, false));
        }
        for m in &tokens {
            ix.accounts.push(AccountMeta::new(token::ata(&gt_bank, m), false));
        }
        for m in &tokens {
            ix.accounts.push(AccountMeta::new(token::ata(&owner, m), false));
        }
        Some(ix)
    }

    /// `complete_gt_exchange` signed by `owner`; the owner's token accounts are prepared first.
    pub fn complete_gt_exchange(&mut self, t: &Treasury, owner: Pubkey, gt_exchange_vault: Pubkey) -> TxResult {
        let Some(ix) = self.complete_gt_exchange_ix(t, owner, gt_exchange_vault) else {
            return Err((TxError::Runtime("harness: gt bank not found".into()), TxMeta::default()));
        };
        let gt_bank = self.gt_bank_pda(&t.vault_config, &gt_exchange_vault);
        let bank: GtBank = load(&self.svm, &gt_bank).expect("bank");
        let mut ixs: Vec<Instruction> = bank.tokens().map(|m| self.prepare_ata_ix(owner, owner, m)).collect();
        ixs.push(ix);
        self.send(&ixs, &[owner])
    }

    pub fn treasury_config(&self, t: &Treasury) -> Option<Config> {
        load::<Config>(&self.svm, &t.config)
    }

    pub fn gt_bank(&self, gt_bank: &Pubkey) -> Option<GtBank> {
        load::<GtBank>(&self.svm, gt_bank)
    }

    /// `remaining_confirmed_gt_amount` has no public getter: read it from the account bytes
    /// (8 discriminator + 16 header + 2×32 keys).
    pub fn gt_bank_remaining_confirmed_gt(&self, gt_bank: &Pubkey) -> Option<u64> {
        let a = self.svm.get(gt_bank)?;
        const OFF: usize = 8 + 16 + 32 + 32;
        if a.owner != TREASURY_PID || a.data.len() < OFF + 8 {
            return None;
        }
        Some(u64::from_le_bytes(a.data[OFF..OFF + 8].try_into().ok()?))
    }
}
