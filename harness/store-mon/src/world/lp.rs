//! World extension: lp flows (instruction builders over the real liquidity-provider program).
use super::*;
use anchor_lang::AccountDeserialize;
use gmsol_liquidity_provider as lp;
use std::collections::BTreeSet;

pub const LP_PID: Pubkey = lp::ID;

pub fn lp_global_state() -> Pubkey {
    Pubkey::find_program_address(&[lp::GLOBAL_STATE_SEED], &LP_PID).0
}

pub fn lp_controller(lp_mint: &Pubkey, index: u64) -> Pubkey {
    Pubkey::find_program_address(
        &[lp::LP_TOKEN_CONTROLLER_SEED, lp_global_state().as_ref(), lp_mint.as_ref(), &index.to_le_bytes()],
        &LP_PID,
    )
    .0
}

pub fn lp_position(controller: &Pubkey, owner: &Pubkey, position_id: u64) -> Pubkey {
    Pubkey::find_program_address(
        &[lp::POSITION_SEED, controller.as_ref(), owner.as_ref(), &position_id.to_le_bytes()],
        &LP_PID,
    )
    .0
}

pub fn lp_position_vault(position: &Pubkey) -> Pubkey {
    Pubkey::find_program_address(&[lp::VAULT_SEED, position.as_ref()], &LP_PID).0
}

/// Borsh (`#[account]`) account reader for the LP program's accounts.
pub fn lp_load<T: AccountDeserialize>(svm: &Svm, key: &Pubkey) -> Option<T> {
    let a = svm.get(key)?;
    if a.owner != LP_PID {
        return None;
    }
    T::try_deserialize(&mut &a.data[..]).ok()
}

/// GT parameters as in the repository's integration-test deployment (`initialize_gt(7)`), with the
/// minting cost / growth left to the caller.
#[derive(Clone, Debug)]
pub struct GtParams {
    pub decimals: u8,
    pub initial_minting_cost: u128,
    pub grow_factor: u128,
    pub grow_step: u64,
    pub ranks: Vec<u64>,
}

impl GtParams {
    pub fn like_tests() -> Self {
        let decimals = 7u8;
        let unit = 10u64.pow(decimals as u32);
        Self {
            decimals,
            initial_minting_cost: UNIT / 100 / 10u128.pow(decimals as u32),
            grow_factor: 101 * UNIT / 100,
            grow_step: 10 * unit,
            ranks: vec![10 * unit, 30 * unit, 300 * unit, 1_000 * unit, 3_000 * unit, 10_000 * unit],
        }
    }
}

impl World {
    /// `initialize_gt` on the store (keeper holds MARKET_KEEPER).
    pub fn lp_initialize_gt(&mut self, p: &GtParams) -> TxResult {
        let (keeper, store) = (self.keeper, self.store);
        self.send(
            &[six(
                sa::InitializeGt { authority: keeper, store, system_program: system_program::ID },
                si::InitializeGt {
                    decimals: p.decimals,
                    initial_minting_cost: p.initial_minting_cost,
                    grow_factor: p.grow_factor,
                    grow_step: p.grow_step,
                    ranks: p.ranks.clone(),
                },
            )],
            &[keeper],
        )
    }

    /// LP `initialize`: creates the global state with `authority` as administrator.
    pub fn lp_initialize(&mut self, authority: Pubkey, min_stake_value: u128, initial_apy: u128) -> TxResult {
        self.send(
            &[ix(
                LP_PID,
                lp::accounts::Initialize { global_state: lp_global_state(), authority, system_program: system_program::ID },
                lp::instruction::Initialize { min_stake_value, initial_apy },
            )],
            &[authority],
        )
    }

    /// The oracle buffer used by LP pricing CPIs: its authority is the LP global-state PDA.
    pub fn lp_oracle(&self) -> Pubkey {
        key("lp-oracle")
    }

    pub fn lp_initialize_oracle(&mut self) -> TxResult {
        let (keeper, store) = (self.keeper, self.store);
        let oracle = self.lp_oracle();
        let size = 8 + std::mem::size_of::<gmsol_store::states::Oracle>();
        let lamports = self.svm.rent.minimum_balance(size);
        self.svm.set_account(oracle, Account::new(lamports, vec![0; size], STORE_PID));
        self.send(
            &[six(
                sa::InitializeOracle { payer: keeper, authority: lp_global_state(), store, oracle, system_program: system_program::ID },
                si::InitializeOracle {},
            )],
            &[keeper],
        )
    }

    /// GT state + LP global state + GT_CONTROLLER for the LP PDA + LP oracle (panics = harness error).
    pub fn lp_bootstrap(&mut self, authority: Pubkey, gt: &GtParams, min_stake_value: u128, initial_apy: u128) {
        self.svm.airdrop(&authority, 1_000 * LAMPORTS);
        if let Err((e, _)) = self.lp_initialize_gt(gt) {
            panic!("bootstrap step `initialize_gt` failed: {e:?}");
        }
        if let Err((e, _)) = self.lp_initialize(authority, min_stake_value, initial_apy) {
            panic!("bootstrap step `lp initialize` failed: {e:?}");
        }
        if let Err((e, _)) = self.grant(&lp_global_state(), RoleKey::GT_CONTROLLER) {
            panic!("bootstrap step `grant GT_CONTROLLER to LP PDA` failed: {e:?}");
        }
        if let Err((e, _)) = self.lp_initialize_oracle() {
            panic!("bootstrap step `lp oracle` failed: {e:?}");
        }
    }

    pub fn lp_create_controller_ix(&self, authority: Pubkey, lp_mint: Pubkey, index: u64) -> Instruction {
        ix(
            LP_PID,
            lp::accounts::CreateLpTokenController {
                global_state: lp_global_state(),
                controller: lp_controller(&lp_mint, index),
                authority,
                system_program: system_program::ID,
            },
            lp::instruction::CreateLpTokenController { lp_token_mint: lp_mint, controller_index: index },
        )
    }

    pub fn lp_disable_controller_ix(&self, authority: Pubkey, controller: Pubkey) -> Instruction {
        ix(
            LP_PID,
            lp::accounts::DisableLpTokenController {
                global_state: lp_global_state(),
                controller,
                gt_store: self.store,
                gt_program: STORE_PID,
                authority,
            },
            lp::instruction::DisableLpTokenController {},
        )
    }

    pub fn lp_set_claim_enabled_ix(&self, authority: Pubkey, enabled: bool) -> Instruction {
        ix(
            LP_PID,
            lp::accounts::SetClaimEnabled { global_state: lp_global_state(), authority },
            lp::instruction::SetClaimEnabled { enabled },
        )
    }

    pub fn lp_update_min_stake_value_ix(&self, authority: Pubkey, v: u128) -> Instruction {
        ix(
            LP_PID,
            lp::accounts::UpdateMinStakeValue { global_state: lp_global_state(), authority },
            lp::instruction::UpdateMinStakeValue { new_min_stake_value: v },
        )
    }

    pub fn lp_update_apy_sparse_ix(&self, authority: Pubkey, idx: Vec<u8>, vals: Vec<u128>) -> Instruction {
        ix(
            LP_PID,
            lp::accounts::UpdateApyGradient { global_state: lp_global_state(), authority },
            lp::instruction::UpdateApyGradientSparse { bucket_indices: idx, apy_values: vals },
        )
    }

    pub fn lp_update_apy_range_ix(&self, authority: Pubkey, start: u8, end: u8, vals: Vec<u128>) -> Instruction {
        ix(
            LP_PID,
            lp::accounts::UpdateApyGradient { global_state: lp_global_state(), authority },
            lp::instruction::UpdateApyGradientRange { start_bucket: start, end_bucket: end, apy_values: vals },
        )
    }

    /// Feed accounts of a market in the order `get_market_token_value` expects (unique tokens sorted by address).
    pub fn lp_market_feed_metas(&self, market: usize) -> Vec<AccountMeta> {
        let m = &self.markets[market];
        let set: BTreeSet<Pubkey> =
            [self.tokens[m.index].mint, self.tokens[m.long].mint, self.tokens[m.short].mint].into_iter().collect();
        let v: Vec<Pubkey> = set.into_iter().collect();
        self.feed_metas(&v)
    }

    /// `stake_gm` for `owner` on `market`'s token under controller `controller_index`.
    pub fn lp_stake_gm_ix(&self, owner: Pubkey, market: usize, controller_index: u64, position_id: u64, amount: u64) -> Instruction {
        let m = &self.markets[market];
        let controller = lp_controller(&m.market_token, controller_index);
        let position = lp_position(&controller, &owner, position_id);
        let mut i = ix(
            LP_PID,
            lp::accounts::StakeGm {
                global_state: lp_global_state(),
                controller,
                lp_mint: m.market_token,
                position,
                position_vault: lp_position_vault(&position),
                gt_store: self.store,
                gt_program: STORE_PID,
                owner,
                user_lp_token: token::ata(&owner, &m.market_token),
                token_map: self.token_map,
                oracle: self.lp_oracle(),
                market: m.market,
                event_authority: self.event_authority(),
                system_program: system_program::ID,
                token_program: spl_token::ID,
            },
            lp::instruction::StakeGm { position_id, gm_staked_amount: amount },
        );
        i.accounts.extend(self.lp_market_feed_metas(market));
        i
    }

    pub fn lp_claim_gt_ix(&self, owner: Pubkey, lp_mint: Pubkey, controller_index: u64, position_id: u64) -> Instruction {
        let controller = lp_controller(&lp_mint, controller_index);
        ix(
            LP_PID,
            lp::accounts::ClaimGt {
                global_state: lp_global_state(),
                controller,
                store: self.store,
                gt_program: STORE_PID,
                position: lp_position(&controller, &owner, position_id),
                owner,
                gt_user: pda::find_user_address(&self.store, &owner, &STORE_PID).0,
                event_authority: self.event_authority(),
            },
            lp::instruction::ClaimGt { _position_id: position_id },
        )
    }

    pub fn lp_calculate_gt_reward_ix(&self, owner: Pubkey, lp_mint: Pubkey, controller_index: u64, position_id: u64) -> Instruction {
        let controller = lp_controller(&lp_mint, controller_index);
        // The accounts struct declares `#[instruction(position_id: u64)]` although the handler takes no
        // argument: the position id has to follow the (empty) argument block in the instruction data.
        let mut i = ix(
            LP_PID,
            lp::accounts::CalculateGtReward {
                global_state: lp_global_state(),
                controller,
                gt_store: self.store,
                gt_program: STORE_PID,
                position: lp_position(&controller, &owner, position_id),
                owner,
            },
            lp::instruction::CalculateGtReward {},
        );
        i.data.extend_from_slice(&position_id.to_le_bytes());
        i
    }

    pub fn lp_unstake_ix(&self, owner: Pubkey, lp_mint: Pubkey, controller_index: u64, position_id: u64, amount: u64) -> Instruction {
        let controller = lp_controller(&lp_mint, controller_index);
        let position = lp_position(&controller, &owner, position_id);
        ix(
            LP_PID,
            lp::accounts::UnstakeLp {
                global_state: lp_global_state(),
                controller,
                lp_mint,
                store: self.store,
                gt_program: STORE_PID,
                position,
                position_vault: lp_position_vault(&position),
                owner,
                gt_user: pda::find_user_address(&self.store, &owner, &STORE_PID).0,
                user_lp_token: token::ata(&owner, &lp_mint),
                event_authority: self.event_authority(),
                token_program: spl_token::ID,
            },
            lp::instruction::UnstakeLp { _position_id: position_id, unstake_amount: amount },
        )
    }

    /// The store's current cumulative inverse-cost factor `C(now)` as the LP program would obtain it
    /// (simulation of the real `update_gt_cumulative_inv_cost_factor`; nothing is committed).
    pub fn lp_peek_cum_inv_cost(&mut self) -> Option<u128> {
        let (keeper, store) = (self.keeper, self.store);
        let i = six(sa::UpdateGtCumulativeInvCostFactor { authority: keeper, store }, si::UpdateGtCumulativeInvCostFactor {});
        let meta = self.svm.simulate(&[i], &[keeper]).ok()?;
        let (pid, data) = meta.return_data?;
        if pid != STORE_PID || data.len() != 16 {
            return None;
        }
        Some(u128::from_le_bytes(data.try_into().ok()?))
    }

    /// GT balance of a user (0 if the user account does not exist).
    pub fn lp_gt_amount(&self, owner: &Pubkey) -> u64 {
        let user = pda::find_user_address(&self.store, owner, &STORE_PID).0;
        exchange::load::<gmsol_store::states::UserHeader>(&self.svm, &user).map(|u| u.gt().amount()).unwrap_or(0)
    }
}
