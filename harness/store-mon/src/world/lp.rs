//! World extension: lp flows (instruction builders over the real program).
use super::*;
