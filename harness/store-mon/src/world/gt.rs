//! World extension: gt flows (instruction builders over the real program).
use super::*;
