//! World extension: gt flows (instruction builders over the real program).
use super::exchange::load;
use super::*;
use gmsol_store::states::{
    gt::{GtExchange, GtExchangeVault, GtState},
    Store, UserHeader,
};

/// Arguments of `initialize_gt`.
#[derive(Clone, Debug)]
pub struct GtParams {
    pub decimals: u8,
    pub initial_minting_cost: u128,
    pub grow_factor: u128,
    pub grow_step: u64,
    pub ranks: Vec<u64>,
}

/// Decoded `GtUpdated` events of a transaction, in emission order.
pub fn gt_updated_events(meta: &TxMeta) -> Vec<gmsol_store::events::GtUpdated> {
    use anchor_lang::{AnchorDeserialize, Discriminator};
    let mut out = vec![];
    for (program, data) in &meta.events {
        if *program != STORE_PID || data.len() < 8 {
            continue;
        }
        if data[..8] == *gmsol_store::events::GtUpdated::DISCRIMINATOR {
            if let Ok(e) = gmsol_store::events::GtUpdated::deserialize(&mut &data[8..]) {
                out.push(e);
            }
        }
    }
    out
}

impl World {
    pub fn initialize_gt(&mut self, p: &GtParams) -> TxResult {
        let (keeper, store) = (self.keeper, self.store);
        self.send(
            &[six(
                sa::InitializeGt { authority: keeper, store, system_program: system_program::ID },
                si::InitializeGt {
                    decimals: p.decimals,
                    initial_minting_cost: p.initial_minting_cost,
                    grow_factor: p.grow_factor,
                    grow_step: p.grow_step,
                    ranks: p.ranks.clone(),
                },
            )],
            &[keeper],
        )
    }

    pub fn toggle_gt_minting(&mut self, market: usize, enable: bool) -> TxResult {
        let (keeper, store) = (self.keeper, self.store);
        let market = self.markets[market].market;
        self.send(
            &[six(sa::ToggleGTMinting { authority: keeper, store, market }, si::ToggleGtMinting { enable })],
            &[keeper],
        )
    }

    pub fn gt_set_order_fee_discount_factors(&mut self, factors: Vec<u128>) -> TxResult {
        let (keeper, store) = (self.keeper, self.store);
        self.send(
            &[six(sa::ConfigureGt { authority: keeper, store }, si::GtSetOrderFeeDiscountFactors { factors })],
            &[keeper],
        )
    }

    pub fn gt_set_referral_reward_factors(&mut self, factors: Vec<u128>) -> TxResult {
        let (keeper, store) = (self.keeper, self.store);
        self.send(
            &[six(sa::ConfigureGt { authority: keeper, store }, si::GtSetReferralRewardFactors { factors })],
            &[keeper],
        )
    }

    pub fn gt_set_exchange_time_window(&mut self, window: u32) -> TxResult {
        let (keeper, store) = (self.keeper, self.store);
        self.send(
            &[six(sa::ConfigureGt { authority: keeper, store }, si::GtSetExchangeTimeWindow { window })],
            &[keeper],
        )
    }

    pub fn gt_vault_pda(&self, time_window_index: i64, time_window: u32) -> Pubkey {
        pda::find_gt_exchange_vault_address(&self.store, time_window_index, time_window, &STORE_PID).0
    }

    pub fn gt_exchange_pda(&self, vault: &Pubkey, owner: &Pubkey) -> Pubkey {
        pda::find_gt_exchange_address(vault, owner, &STORE_PID).0
    }

    /// `prepare_gt_exchange_vault` for the given index under the store's current window; returns the vault address.
    pub fn prepare_gt_exchange_vault(&mut self, payer: Pubkey, time_window_index: i64) -> std::result::Result<Pubkey, (TxError, TxMeta)> {
        let window = self.gt_state().map(|g| g.exchange_time_window()).unwrap_or(0);
        let vault = self.gt_vault_pda(time_window_index, window);
        let store = self.store;
        self.send(
            &[six(
                sa::PrepareGtExchangeVault { payer, store, vault, system_program: system_program::ID },
                si::PrepareGtExchangeVault { time_window_index },
            )],
            &[payer],
        )
        .map(|_| vault)
    }

    pub fn request_gt_exchange_ix(&self, owner: Pubkey, vault: Pubkey, amount: u64) -> Instruction {
        six(
            sa::RequestGtExchange {
                owner,
                store: self.store,
                user: self.user_pda(&owner),
                vault,
                exchange: self.gt_exchange_pda(&vault, &owner),
                system_program: system_program::ID,
                event_authority: self.event_authority(),
                program: STORE_PID,
            },
            si::RequestGtExchange { amount },
        )
    }

    pub fn request_gt_exchange(&mut self, owner: Pubkey, vault: Pubkey, amount: u64) -> TxResult {
        let ix = self.request_gt_exchange_ix(owner, vault, amount);
        self.send(&[ix], &[owner])
    }

    pub fn confirm_gt_exchange_vault(&mut self, authority: Pubkey, vault: Pubkey, buyback_value: u128, buyback_price: Option<u128>) -> TxResult {
        let ix = six(
            sa::ConfirmGtExchangeVault {
                authority,
                store: self.store,
                vault,
                event_authority: self.event_authority(),
                program: STORE_PID,
            },
            si::ConfirmGtExchangeVaultV2 { buyback_value, buyback_price },
        );
        self.send(&[ix], &[authority])
    }

    pub fn close_gt_exchange(&mut self, authority: Pubkey, owner: Pubkey, vault: Pubkey) -> TxResult {
        let ix = six(
            sa::CloseGtExchange {
                authority,
                store: self.store,
                owner,
                vault,
                exchange: self.gt_exchange_pda(&vault, &owner),
            },
            si::CloseGtExchange {},
        );
        self.send(&[ix], &[authority])
    }

    pub fn mint_gt_reward(&mut self, authority: Pubkey, owner: Pubkey, amount: u64) -> TxResult {
        let ix = six(
            sa::MintGtReward {
                authority,
                store: self.store,
                user: self.user_pda(&owner),
                event_authority: self.event_authority(),
                program: STORE_PID,
            },
            si::MintGtReward { amount },
        );
        self.send(&[ix], &[authority])
    }

    pub fn update_gt_cumulative_inv_cost_factor(&mut self, authority: Pubkey) -> TxResult {
        let ix = six(
            sa::UpdateGtCumulativeInvCostFactor { authority, store: self.store },
            si::UpdateGtCumulativeInvCostFactor {},
        );
        self.send(&[ix], &[authority])
    }

    pub fn prepare_user(&mut self, owner: Pubkey) -> TxResult {
        let ix = self.prepare_user_ix(owner);
        self.send(&[ix], &[owner])
    }

    pub fn referral_code_pda(&self, code: &[u8; 8]) -> Pubkey {
        pda::find_referral_code_address(&self.store, *code, &STORE_PID).0
    }

    pub fn initialize_referral_code(&mut self, owner: Pubkey, code: [u8; 8]) -> TxResult {
        let ix = six(
            sa::InitializeReferralCode {
                owner,
                store: self.store,
                referral_code: self.referral_code_pda(&code),
                user: self.user_pda(&owner),
                system_program: system_program::ID,
            },
            si::InitializeReferralCode { code },
        );
        self.send(&[ix], &[owner])
    }

    pub fn set_referrer(&mut self, owner: Pubkey, referrer: Pubkey, code: [u8; 8]) -> TxResult {
        let ix = six(
            sa::SetReferrer {
                owner,
                store: self.store,
                user: self.user_pda(&owner),
                referral_code: self.referral_code_pda(&code),
                referrer_user: self.user_pda(&referrer),
            },
            si::SetReferrer { code },
        );
        self.send(&[ix], &[owner])
    }

    /// Copy of the store's GT state.
    pub fn gt_state(&self) -> Option<GtState> {
        load::<Store>(&self.svm, &self.store).map(|s| *s.gt())
    }

    pub fn user_header(&self, owner: &Pubkey) -> Option<UserHeader> {
        load::<UserHeader>(&self.svm, &self.user_pda(owner))
    }

    pub fn gt_vault(&self, vault: &Pubkey) -> Option<GtExchangeVault> {
        load::<GtExchangeVault>(&self.svm, vault)
    }

    pub fn gt_exchange(&self, vault: &Pubkey, owner: &Pubkey) -> Option<GtExchange> {
        load::<GtExchange>(&self.svm, &self.gt_exchange_pda(vault, owner))
    }

    /// Every `UserHeader` account owned by the store program (found by scanning the account store).
    pub fn all_user_headers(&self) -> Vec<(Pubkey, UserHeader)> {
        use anchor_lang::Discriminator;
        let mut out = vec![];
        for (k, a) in self.svm.accounts.iter() {
            if a.owner == STORE_PID
                && a.data.len() >= 8 + std::mem::size_of::<UserHeader>()
                && a.data[..8] == *UserHeader::DISCRIMINATOR
            {
                if let Some(u) = load::<UserHeader>(&self.svm, k) {
                    out.push((*k, u));
                }
            }
        }
        out
    }

    /// Every GT exchange vault account of the store program.
    pub fn all_gt_vaults(&self) -> Vec<(Pubkey, GtExchangeVault)> {
        use anchor_lang::Discriminator;
        let mut out = vec![];
        for (k, a) in self.svm.accounts.iter() {
            if a.owner == STORE_PID
                && a.data.len() >= 8 + std::mem::size_of::<GtExchangeVault>()
                && a.data[..8] == *GtExchangeVault::DISCRIMINATOR
            {
                if let Some(v) = load::<GtExchangeVault>(&self.svm, k) {
                    out.push((*k, v));
                }
            }
        }
        out
    }

    /// Every GT exchange account of the store program.
    pub fn all_gt_exchanges(&self) -> Vec<(Pubkey, GtExchange)> {
        use anchor_lang::Discriminator;
        let mut out = vec![];
        for (k, a) in self.svm.accounts.iter() {
            if a.owner == STORE_PID
                && a.data.len() >= 8 + std::mem::size_of::<GtExchange>()
                && a.data[..8] == *GtExchange::DISCRIMINATOR
            {
                if let Some(v) = load::<GtExchange>(&self.svm, k) {
                    out.push((*k, v));
                }
            }
        }
        out
    }
}
