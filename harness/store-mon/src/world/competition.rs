//! World extension: competition flows (instruction builders over the real program).
use super::*;
