//! World extension: competition flows (instruction builders over the real competition program).
//!
//! Two ways to drive the callbacks:
//! * *direct*: the instruction is sent to the competition program with the store's callback-authority
//!   PDA listed as a transaction signer (harness shortcut: on chain only the store can sign for it) and
//!   a fabricated `TradeData` account (owned by the store program) as the trade event;
//! * *real orders*: `create_order_v2` / `execute_*_order_v2` / `close_order_v2` of the store with the
//!   callback accounts pointing at the competition program — the store performs the CPI itself.
use super::*;
use anchor_lang::{AccountDeserialize, Discriminator};
use anchor_spl::associated_token;
use gmsol_competition as comp;
use gmsol_store::events::TradeData;

pub const COMP_PID: Pubkey = comp::ID;

/// `ActionKind::Order` of the callback interface.
pub const ACTION_KIND_ORDER: u8 = 3;

/// The store program's callback-authority PDA and bump.
pub fn callback_authority() -> (Pubkey, u8) {
    Pubkey::find_program_address(&[gmsol_callback::CALLBACK_AUTHORITY_SEED], &STORE_PID)
}

pub fn competition_pda(payer: &Pubkey, start_time: i64) -> Pubkey {
    Pubkey::find_program_address(&[comp::states::COMPETITION_SEED, payer.as_ref(), &start_time.to_le_bytes()], &COMP_PID).0
}

pub fn participant_pda(competition: &Pubkey, trader: &Pubkey) -> Pubkey {
    Pubkey::find_program_address(&[comp::states::PARTICIPANT_SEED, competition.as_ref(), trader.as_ref()], &COMP_PID).0
}

#[derive(Clone, Debug)]
pub struct CompParams {
    pub start_time: i64,
    pub end_time: i64,
    pub volume_threshold: u128,
    pub extension_duration: i64,
    pub extension_cap: i64,
    pub only_count_increase: bool,
    pub volume_merge_window: i64,
}

pub fn comp_load<T: AccountDeserialize>(svm: &Svm, key: &Pubkey) -> Option<T> {
    let a = svm.get(key)?;
    if a.owner != COMP_PID {
        return None;
    }
    T::try_deserialize(&mut &a.data[..]).ok()
}

pub fn comp_initialize_ix(payer: Pubkey, p: &CompParams) -> Instruction {
    ix(
        COMP_PID,
        comp::accounts::InitializeCompetition {
            payer,
            competition: competition_pda(&payer, p.start_time),
            system_program: system_program::ID,
        },
        comp::instruction::InitializeCompetition {
            start_time: p.start_time,
            end_time: p.end_time,
            volume_threshold: p.volume_threshold,
            extension_duration: p.extension_duration,
            extension_cap: p.extension_cap,
            only_count_increase: p.only_count_increase,
            volume_merge_window: p.volume_merge_window,
        },
    )
}

pub fn comp_create_participant_ix(payer: Pubkey, competition: Pubkey, trader: Pubkey) -> Instruction {
    ix(
        COMP_PID,
        comp::accounts::CreateParticipantIdempotent {
            payer,
            competition,
            participant: participant_pda(&competition, &trader),
            trader,
            system_program: system_program::ID,
        },
        comp::instruction::CreateParticipantIdempotent {},
    )
}

pub fn comp_close_participant_ix(trader: Pubkey, competition: Pubkey) -> Instruction {
    ix(
        COMP_PID,
        comp::accounts::CloseParticipant { trader, competition, participant: participant_pda(&competition, &trader) },
        comp::instruction::CloseParticipant {},
    )
}

/// Arguments common to all callbacks, as the store passes them.
#[derive(Clone, Copy, Debug)]
pub struct CallbackArgs {
    pub authority: Pubkey,
    pub authority_bump: u8,
    pub action_kind: u8,
    pub callback_version: u8,
    pub extra_account_count: u8,
}

impl CallbackArgs {
    /// What the store sends for orders.
    pub fn store_like(extra_account_count: u8) -> Self {
        let (authority, authority_bump) = callback_authority();
        Self { authority, authority_bump, action_kind: ACTION_KIND_ORDER, callback_version: 0, extra_account_count }
    }
}

pub fn comp_on_created_ix(a: &CallbackArgs, competition: Pubkey, participant: Pubkey, trader: Pubkey, action: Pubkey, position: Pubkey) -> Instruction {
    let mut i = ix(
        COMP_PID,
        comp::accounts::OnCreated { authority: a.authority, competition, participant, trader, action },
        comp::instruction::OnCreated {
            authority_bump: a.authority_bump,
            action_kind: a.action_kind,
            callback_version: a.callback_version,
            extra_account_count: a.extra_account_count,
        },
    );
    i.accounts.push(AccountMeta::new_readonly(position, false));
    i
}

/// `on_updated` (`closed == false`) / `on_closed` (`closed == true`).
pub fn comp_on_other_ix(a: &CallbackArgs, closed: bool, competition: Pubkey, participant: Pubkey, trader: Pubkey, action: Pubkey) -> Instruction {
    let accounts = comp::accounts::OnCallback { authority: a.authority, competition, participant, trader, action };
    if closed {
        ix(
            COMP_PID,
            accounts,
            comp::instruction::OnClosed {
                _authority_bump: a.authority_bump,
                _action_kind: a.action_kind,
                _callback_version: a.callback_version,
                _extra_account_count: a.extra_account_count,
            },
        )
    } else {
        ix(
            COMP_PID,
            accounts,
            comp::instruction::OnUpdated {
                _authority_bump: a.authority_bump,
                _action_kind: a.action_kind,
                _callback_version: a.callback_version,
                _extra_account_count: a.extra_account_count,
            },
        )
    }
}

/// `on_executed` with the account layout of the store's CPI: the two extra accounts are the position
/// and the trade event (the competition program id stands for "none", as the store passes it).
pub fn comp_on_executed_ix(
    a: &CallbackArgs,
    success: bool,
    competition: Pubkey,
    participant: Pubkey,
    trader: Pubkey,
    action: Pubkey,
    position: Pubkey,
    trade_event: Option<Pubkey>,
) -> Instruction {
    let mut i = ix(
        COMP_PID,
        comp::accounts::OnExecuted { authority: a.authority, competition, participant, trader, action, position, trade_event },
        comp::instruction::OnExecuted {
            authority_bump: a.authority_bump,
            action_kind: a.action_kind,
            callback_version: a.callback_version,
            success,
            extra_account_count: a.extra_account_count,
        },
    );
    // The store passes `competition` / `participant` writable for every callback.
    for m in i.accounts.iter_mut() {
        if m.pubkey == competition || m.pubkey == participant {
            m.is_writable = true;
        }
    }
    i
}

/// Inject a fabricated trade-event account (owned by the store program, `TradeData` layout) carrying
/// the given user and before / after position sizes.
pub fn set_trade_data(svm: &mut Svm, key: Pubkey, user: Pubkey, before_size_in_usd: u128, after_size_in_usd: u128) {
    let mut td: TradeData = bytemuck::Zeroable::zeroed();
    td.user = user;
    td.before.size_in_usd = before_size_in_usd;
    td.after.size_in_usd = after_size_in_usd;
    td.ts = svm.clock.unix_timestamp;
    let mut data = Vec::with_capacity(8 + std::mem::size_of::<TradeData>());
    data.extend_from_slice(TradeData::DISCRIMINATOR);
    data.extend_from_slice(bytemuck::bytes_of(&td));
    let lamports = svm.rent.minimum_balance(data.len());
    svm.set_account(key, Account::new(lamports, data, STORE_PID));
}

/// Callback accounts of an order: `(program, shared data = competition, partitioned data = participant)`.
#[derive(Clone, Copy, Debug)]
pub struct OrderCallback {
    pub program: Pubkey,
    pub shared: Pubkey,
    pub partitioned: Pubkey,
}

/// Replace the four `None` callback accounts (`[from, from + 4)`) of a store instruction built by the
/// shared builders. Returns `false` if the layout is not the expected one (harness error).
pub fn patch_callback_accounts(i: &mut Instruction, from: usize, cb: &OrderCallback, event_authority: &Pubkey) -> bool {
    if i.accounts.len() < from + 6 {
        return false;
    }
    let none = |m: &AccountMeta| m.pubkey == STORE_PID && !m.is_signer && !m.is_writable;
    if !(from..from + 4).all(|k| none(&i.accounts[k])) || i.accounts[from + 4].pubkey != *event_authority || i.accounts[from + 5].pubkey != STORE_PID {
        return false;
    }
    i.accounts[from] = AccountMeta::new_readonly(callback_authority().0, false);
    i.accounts[from + 1] = AccountMeta::new_readonly(cb.program, false);
    i.accounts[from + 2] = AccountMeta::new(cb.shared, false);
    i.accounts[from + 3] = AccountMeta::new(cb.partitioned, false);
    true
}

/// Index of the first callback account in `ExecuteIncreaseOrSwapOrderV2`, `ExecuteDecreaseOrderV2`
/// and `CloseOrderV2` (verified at run time by `patch_callback_accounts`).
pub const CALLBACK_ACCOUNTS_AT: usize = 24;

impl World {
    pub fn init_callback_authority(&mut self) -> TxResult {
        let keeper = self.keeper;
        self.send(
            &[six(
                sa::InitializeCallbackAuthority { payer: keeper, callback_authority: callback_authority().0, system_program: system_program::ID },
                si::InitializeCallbackAuthority {},
            )],
            &[keeper],
        )
    }

    /// `create_order_v2` for a position order with a callback (the store invokes `on_created`).
    pub fn create_order_with_callback(
        &mut self,
        owner: Pubkey,
        req: &exchange::OrderReq,
        cb: &OrderCallback,
        pre: &[Instruction],
    ) -> std::result::Result<Pubkey, (TxError, TxMeta)> {
        use exchange::OrderKind;
        let m = self.markets[req.market].clone();
        let store = self.store;
        let nonce = self.next_nonce();
        let order = pda::find_order_address(&store, &owner, &nonce, &STORE_PID).0;
        let (long_mint, short_mint) = (self.tokens[m.long].mint, self.tokens[m.short].mint);
        let collateral = if req.is_collateral_long { long_mint } else { short_mint };
        let is_increase = matches!(req.kind, OrderKind::MarketIncrease | OrderKind::LimitIncrease);
        let is_decrease = matches!(req.kind, OrderKind::MarketDecrease | OrderKind::LimitDecrease | OrderKind::StopLossDecrease);
        if !(is_increase || is_decrease) {
            return Err((TxError::Runtime("harness: only position orders".into()), TxMeta::default()));
        }
        let params = self.order_params(req);
        let initial_collateral_token = is_increase.then_some(req.initial_collateral_token.unwrap_or(collateral));
        let final_output_token = is_decrease.then_some(req.final_output_token.unwrap_or(collateral));
        let position = self.position_pda(&owner, req.market, req.is_long, req.is_collateral_long);
        let mut ixs = pre.to_vec();
        ixs.push(self.prepare_user_ix(owner));
        let mut escrow_tokens: Vec<Pubkey> = vec![];
        for t in initial_collateral_token.iter().chain(final_output_token.iter()).chain([long_mint, short_mint].iter()) {
            if !escrow_tokens.contains(t) {
                escrow_tokens.push(*t);
            }
        }
        for t in &escrow_tokens {
            ixs.push(self.prepare_ata_ix(owner, order, *t));
        }
        for t in final_output_token.iter().chain([long_mint, short_mint].iter()) {
            ixs.push(self.prepare_ata_ix(owner, owner, *t));
        }
        if is_increase {
            ixs.push(six(
                sa::PreparePosition { owner, store, market: m.market, position, system_program: system_program::ID },
                si::PreparePosition { params: params.clone() },
            ));
        }
        ixs.push(six(
            sa::CreateOrderV2 {
                owner,
                receiver: owner,
                store,
                market: m.market,
                user: self.user_pda(&owner),
                order,
                position: Some(position),
                initial_collateral_token,
                final_output_token: final_output_token.unwrap_or(collateral),
                long_token: Some(long_mint),
                short_token: Some(short_mint),
                initial_collateral_token_escrow: initial_collateral_token.map(|t| token::ata(&order, &t)),
                final_output_token_escrow: final_output_token.map(|t| token::ata(&order, &t)),
                long_token_escrow: Some(token::ata(&order, &long_mint)),
                short_token_escrow: Some(token::ata(&order, &short_mint)),
                initial_collateral_token_source: initial_collateral_token.map(|t| token::ata(&owner, &t)),
                system_program: system_program::ID,
                token_program: spl_token::ID,
                associated_token_program: associated_token::ID,
                callback_authority: Some(callback_authority().0),
                callback_program: Some(cb.program),
                callback_shared_data_account: Some(cb.shared),
                callback_partitioned_data_account: Some(cb.partitioned),
                event_authority: self.event_authority(),
                program: STORE_PID,
            },
            si::CreateOrderV2 { nonce, params, callback_version: Some(0) },
        ));
        self.send(&ixs, &[owner]).map(|_| order)
    }

    /// Execute an order created with a callback (the store invokes `on_executed`).
    pub fn execute_order_with_callback(&mut self, order: Pubkey, cb: &OrderCallback, throw_on_execution_error: bool) -> TxResult {
        let keeper = self.keeper;
        let Some(mut ixs) = self.execute_order_ixs(keeper, order, throw_on_execution_error) else {
            return Err((TxError::Runtime("harness: order not found / not decodable".into()), TxMeta::default()));
        };
        let ea = self.event_authority();
        let last = ixs.last_mut().expect("exec ix");
        if !patch_callback_accounts(last, CALLBACK_ACCOUNTS_AT, cb, &ea) {
            return Err((TxError::Runtime("harness: unexpected execute-order account layout".into()), TxMeta::default()));
        }
        self.send(&ixs, &[keeper])
    }

    /// Close an order created with a callback (the store invokes `on_closed`).
    pub fn close_order_with_callback(&mut self, executor: Pubkey, order: Pubkey, cb: &OrderCallback) -> TxResult {
        let Some(mut i) = self.close_order_ix(executor, order) else {
            return Err((TxError::Runtime("harness: order not found".into()), TxMeta::default()));
        };
        let ea = self.event_authority();
        if !patch_callback_accounts(&mut i, CALLBACK_ACCOUNTS_AT, cb, &ea) {
            return Err((TxError::Runtime("harness: unexpected close-order account layout".into()), TxMeta::default()));
        }
        self.send(&[i], &[executor])
    }
}
