//! World extension: user flows (instruction builders over the real program) and a helper to run
//! harness closures *inside* the hostsvm transaction context (so that `Clock::get()` /
//! `LastRestartSlot::get()` of directly called state methods see the harness-controlled sysvars).
use super::*;
use anchor_lang::solana_program::{account_info::AccountInfo, entrypoint::ProgramResult};
use gmsol_store::states::user::{ReferralCodeBytes, ReferralCodeV2};
use gmsol_store::states::UserHeader;
use std::cell::Cell;

// ------------------------------------------------------------------------------------------------
// Explicit-account instruction builders (every account can be chosen by the caller, so hostile
// variants — wrong user account, wrong code, wrong signer — are expressible).

pub fn user_address(store: &Pubkey, owner: &Pubkey) -> Pubkey {
    pda::find_user_address(store, owner, &STORE_PID).0
}

pub fn referral_code_address(store: &Pubkey, code: ReferralCodeBytes) -> Pubkey {
    pda::find_referral_code_address(store, code, &STORE_PID).0
}

pub fn prepare_user_ix(store: Pubkey, owner: Pubkey) -> Instruction {
    six(
        sa::PrepareUser { owner, store, user: user_address(&store, &owner), system_program: system_program::ID },
        si::PrepareUser {},
    )
}

/// `user` is normally `user_address(store, owner)`.
pub fn initialize_referral_code_ix(store: Pubkey, owner: Pubkey, user: Pubkey, code: ReferralCodeBytes) -> Instruction {
    six(
        sa::InitializeReferralCode {
            owner,
            store,
            referral_code: referral_code_address(&store, code),
            user,
            system_program: system_program::ID,
        },
        si::InitializeReferralCode { code },
    )
}

pub fn set_referrer_ix(
    store: Pubkey,
    owner: Pubkey,
    user: Pubkey,
    code: ReferralCodeBytes,
    referral_code: Pubkey,
    referrer_user: Pubkey,
) -> Instruction {
    six(sa::SetReferrer { owner, store, user, referral_code, referrer_user }, si::SetReferrer { code })
}

pub fn transfer_referral_code_ix(store: Pubkey, owner: Pubkey, user: Pubkey, referral_code: Pubkey, receiver_user: Pubkey) -> Instruction {
    six(sa::TransferReferralCode { owner, store, user, referral_code, receiver_user }, si::TransferReferralCode {})
}

pub fn cancel_referral_code_transfer_ix(store: Pubkey, owner: Pubkey, user: Pubkey, referral_code: Pubkey) -> Instruction {
    six(sa::CancelReferralCodeTransfer { owner, store, user, referral_code }, si::CancelReferralCodeTransfer {})
}

pub fn accept_referral_code_ix(store: Pubkey, next_owner: Pubkey, user: Pubkey, referral_code: Pubkey, receiver_user: Pubkey) -> Instruction {
    six(sa::AcceptReferralCode { next_owner, store, user, referral_code, receiver_user }, si::AcceptReferralCode {})
}

/// What the chain says about a user (None: no initialised user account).
#[derive(Clone, Debug, PartialEq, Eq)]
pub struct UserView {
    pub owner: Pubkey,
    pub store: Pubkey,
    pub referrer: Option<Pubkey>,
    pub code: Option<Pubkey>,
}

/// What the chain says about a referral code account.
#[derive(Clone, Debug, PartialEq, Eq)]
pub struct CodeView {
    pub code: ReferralCodeBytes,
    pub store: Pubkey,
    pub owner: Pubkey,
    pub next_owner: Pubkey,
}

pub fn read_user(svm: &Svm, store: &Pubkey, owner: &Pubkey) -> Option<UserView> {
    let h: UserHeader = exchange::load(svm, &user_address(store, owner))?;
    if !h.is_initialized() {
        return None;
    }
    // `owner` / `store` are crate-private fields: the layout is fixed (tests in the repo pin it), so
    // they are taken from the account bytes; referrer / code go through the public accessors.
    let a = svm.get(&user_address(store, owner))?;
    let d = &a.data[8..];
    let own = Pubkey::new_from_array(d[16..48].try_into().ok()?);
    let st = Pubkey::new_from_array(d[48..80].try_into().ok()?);
    Some(UserView { owner: own, store: st, referrer: h.referral().referrer().copied(), code: h.referral().code().copied() })
}

pub fn read_code(svm: &Svm, store: &Pubkey, code: ReferralCodeBytes) -> Option<CodeView> {
    let c: ReferralCodeV2 = exchange::load(svm, &referral_code_address(store, code))?;
    Some(CodeView { code: c.code, store: c.store, owner: c.owner, next_owner: *c.next_owner() })
}

impl World {
    pub fn user_prepare(&mut self, owner: Pubkey) -> TxResult {
        let ix = prepare_user_ix(self.store, owner);
        self.send(&[ix], &[owner])
    }

    pub fn referral_init_code(&mut self, owner: Pubkey, code: ReferralCodeBytes) -> TxResult {
        let ix = initialize_referral_code_ix(self.store, owner, user_address(&self.store, &owner), code);
        self.send(&[ix], &[owner])
    }

    /// Well-formed `set_referrer`: the referrer user account is the one of the code's current owner.
    pub fn referral_set_referrer(&mut self, owner: Pubkey, code: ReferralCodeBytes) -> TxResult {
        let store = self.store;
        let referrer = read_code(&self.svm, &store, code).map(|c| c.owner).unwrap_or_default();
        let ix = set_referrer_ix(
            store,
            owner,
            user_address(&store, &owner),
            code,
            referral_code_address(&store, code),
            user_address(&store, &referrer),
        );
        self.send(&[ix], &[owner])
    }

    pub fn referral_transfer_code(&mut self, owner: Pubkey, code: ReferralCodeBytes, receiver: Pubkey) -> TxResult {
        let store = self.store;
        let ix = transfer_referral_code_ix(
            store,
            owner,
            user_address(&store, &owner),
            referral_code_address(&store, code),
            user_address(&store, &receiver),
        );
        self.send(&[ix], &[owner])
    }

    pub fn referral_cancel_transfer(&mut self, owner: Pubkey, code: ReferralCodeBytes) -> TxResult {
        let store = self.store;
        let ix = cancel_referral_code_transfer_ix(store, owner, user_address(&store, &owner), referral_code_address(&store, code));
        self.send(&[ix], &[owner])
    }

    /// Well-formed `accept_referral_code`: `user` is the account of the code's current owner.
    pub fn referral_accept_code(&mut self, next_owner: Pubkey, code: ReferralCodeBytes) -> TxResult {
        let store = self.store;
        let cur = read_code(&self.svm, &store, code).map(|c| c.owner).unwrap_or_default();
        let ix = accept_referral_code_ix(
            store,
            next_owner,
            user_address(&store, &cur),
            referral_code_address(&store, code),
            user_address(&store, &next_owner),
        );
        self.send(&[ix], &[next_owner])
    }
}

// ------------------------------------------------------------------------------------------------
// Running harness code inside the runtime context.

/// Id of the harness-side pseudo program (never a real program; it only runs the pending closure).
pub fn direct_program_id() -> Pubkey {
    key("verif:direct-call-program")
}

thread_local! {
    static SLOT: Cell<Option<*mut (dyn FnMut() + 'static)>> = const { Cell::new(None) };
}

fn direct_entry<'a>(_pid: &Pubkey, _accounts: &'a [AccountInfo<'a>], _data: &[u8]) -> ProgramResult {
    if let Some(p) = SLOT.with(|s| s.take()) {
        // SAFETY: the pointer was stored by `in_runtime` on this thread for the duration of the
        // enclosing `process` call and points to a live closure on its stack frame.
        unsafe { (*p)() };
    }
    Ok(())
}

/// Run `f` as the body of a (no-account) instruction of `svm`: sysvar getters (`Clock::get()`,
/// `LastRestartSlot::get()`, `Rent::get()`) called by `f` return `svm.clock` / `svm.last_restart_slot`
/// / `svm.rent`. A panic of `f` is caught by the runtime and returned as `Err(message)`.
pub fn in_runtime<R>(svm: &mut Svm, f: impl FnOnce() -> R) -> std::result::Result<R, String> {
    let id = direct_program_id();
    if svm.get(&id).is_none() {
        svm.add_program(id, direct_entry);
    }
    let mut out: Option<R> = None;
    let mut f = Some(f);
    {
        let mut thunk = || {
            if let Some(f) = f.take() {
                out = Some(f());
            }
        };
        let p: *mut (dyn FnMut() + '_) = &mut thunk;
        // SAFETY: lifetime erasure only; the pointer is consumed (or cleared) before `thunk` dies.
        let p: *mut (dyn FnMut() + 'static) = unsafe { std::mem::transmute(p) };
        SLOT.with(|s| s.set(Some(p)));
        let r = svm.process(&[Instruction { program_id: id, accounts: vec![], data: vec![] }], &[]);
        SLOT.with(|s| s.set(None));
        if let Err((e, _)) = r {
            return Err(format!("{e:?}"));
        }
    }
    out.ok_or_else(|| "closure did not run".to_string())
}
