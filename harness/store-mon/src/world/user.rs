//! World extension: user flows (instruction builders over the real program).
use super::*;
