//! Price updates through the real `update_price_feed_with_chainlink` instruction (mock verifier).
use super::*;
use vcommon::num_bigint::BigInt;

/// A chainlink data-streams V3 report (prices with 18 decimals, as signed 192-bit integers).
#[derive(Clone, Debug)]
pub struct ReportV3 {
    pub feed_id: [u8; 32],
    pub valid_from: u32,
    pub observations_ts: u32,
    pub expires_at: u32,
    pub price: BigInt,
    pub bid: BigInt,
    pub ask: BigInt,
}

fn word_u32(x: u32) -> [u8; 32] {
    let mut w = [0u8; 32];
    w[28..].copy_from_slice(&x.to_be_bytes());
    w
}

fn word_int(x: &BigInt) -> [u8; 32] {
    // two's complement, 256-bit big endian
    let bytes = x.to_signed_bytes_be();
    let fill = if x.sign() == vcommon::num_bigint::Sign::Minus { 0xff } else { 0 };
    let mut w = [fill; 32];
    let n = bytes.len().min(32);
    w[32 - n..].copy_from_slice(&bytes[bytes.len() - n..]);
    w
}

impl ReportV3 {
    pub fn blob(&self) -> Vec<u8> {
        let mut b = Vec::with_capacity(9 * 32);
        b.extend_from_slice(&self.feed_id);
        b.extend_from_slice(&word_u32(self.valid_from));
        b.extend_from_slice(&word_u32(self.observations_ts));
        b.extend_from_slice(&word_int(&BigInt::from(0)));
        b.extend_from_slice(&word_int(&BigInt::from(0)));
        b.extend_from_slice(&word_u32(self.expires_at));
        b.extend_from_slice(&word_int(&self.price));
        b.extend_from_slice(&word_int(&self.bid));
        b.extend_from_slice(&word_int(&self.ask));
        b
    }

    /// ABI `(bytes32[3] context, bytes blob, bytes32[] rs, bytes32[] ss, bytes32 rawVs)`, snap-compressed.
    pub fn compressed_full_report(&self) -> Vec<u8> {
        let blob = self.blob();
        let mut p = Vec::new();
        p.extend_from_slice(&[0u8; 96]); // report context
        let head = 32 * 7;
        p.extend_from_slice(&word_u32(head as u32)); // offset of blob
        let blob_words = blob.len().div_ceil(32);
        let rs_off = head + 32 + blob_words * 32;
        p.extend_from_slice(&word_u32(rs_off as u32));
        p.extend_from_slice(&word_u32((rs_off + 32) as u32));
        p.extend_from_slice(&[0u8; 32]); // rawVs
        p.extend_from_slice(&word_u32(blob.len() as u32));
        p.extend_from_slice(&blob);
        p.resize(head + 32 + blob_words * 32, 0);
        p.extend_from_slice(&word_u32(0)); // rs length
        p.extend_from_slice(&word_u32(0)); // ss length
        snap::raw::Encoder::new().compress_vec(&p).expect("compress")
    }
}

/// `usd` is the price of one whole token in USD with 18 decimals.
pub fn e18(usd: u128) -> BigInt {
    BigInt::from(usd)
}

impl World {
    pub fn report_for(&self, token: usize, bid: BigInt, price: BigInt, ask: BigInt, ts: i64) -> ReportV3 {
        ReportV3 {
            feed_id: self.tokens[token].feed_id.to_bytes(),
            valid_from: ts as u32,
            observations_ts: ts as u32,
            expires_at: (ts + 3600) as u32,
            price,
            bid,
            ask,
        }
    }

    pub fn update_feed_ix(&self, token: usize, compressed_report: Vec<u8>, idempotent: bool, authority: Pubkey) -> Instruction {
        let accounts = sa::UpdatePriceFeedWithChainlink {
            authority,
            store: self.store,
            verifier_account: self.verifier_account,
            access_controller: self.access_controller,
            config_account: key("chainlink-config"),
            price_feed: self.tokens[token].feed,
            chainlink: gmsol_mock_chainlink_verifier::ID,
        };
        if idempotent {
            six(accounts, si::UpdatePriceFeedWithChainlinkIdempotent { compressed_report })
        } else {
            six(accounts, si::UpdatePriceFeedWithChainlink { compressed_report })
        }
    }

    /// Publish `bid ≤ price ≤ ask` (USD per whole token, 18 decimals) for a token at the current time.
    pub fn set_price(&mut self, token: usize, bid: u128, price: u128, ask: u128) -> TxResult {
        let ts = self.svm.clock.unix_timestamp;
        let r = self.report_for(token, e18(bid), e18(price), e18(ask), ts);
        let keeper = self.keeper;
        let ix = self.update_feed_ix(token, r.compressed_full_report(), false, keeper);
        self.send(&[ix], &[keeper])
    }

    /// Feed accounts (remaining accounts) for the given token mints, in the given order.
    pub fn feed_metas(&self, tokens: &[Pubkey]) -> Vec<AccountMeta> {
        tokens
            .iter()
            .map(|t| {
                let info = self.tokens.iter().find(|i| i.mint == *t).expect("unknown token in action");
                AccountMeta::new_readonly(info.feed, false)
            })
            .collect()
    }
}
