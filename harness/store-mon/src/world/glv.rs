//! World extension: glv flows (instruction builders over the real program).
//!
//! Transliterated from `crates/sdk/src/client/ops/glv.rs`, `ops/exchange/glv_{deposit,withdrawal,shift}.rs`
//! and the `#[derive(Accounts)]` structs in `programs/store/src/instructions/glv/*.rs`.
//! The GLV token is a Token-2022 mint (created by the real `initialize_glv` through the real
//! Token-2022 processor); market tokens are legacy SPL tokens.
use super::exchange::{load, EXECUTION_FEE};
use super::*;
use anchor_spl::{associated_token, token_2022::spl_token_2022};
use gmsol_store::{
    ops::{
        glv::{CreateGlvDepositParams, CreateGlvWithdrawalParams},
        shift::CreateShiftParams,
    },
    states::{
        common::action::{Action, ActionState},
        glv::{GlvMarketFlag, UpdateGlvParams},
        Glv, GlvDeposit, GlvShift, GlvWithdrawal, Market,
    },
};

/// Addresses of a GLV.
#[derive(Clone, Copy, Debug, PartialEq, Eq)]
pub struct GlvInfo {
    pub index: u16,
    pub glv_token: Pubkey,
    pub glv: Pubkey,
}

/// ATA for a Token-2022 mint (the GLV token).
pub fn ata22(owner: &Pubkey, mint: &Pubkey) -> Pubkey {
    associated_token::get_associated_token_address_with_program_id(owner, mint, &spl_token_2022::ID)
}

fn harness_err(msg: &str) -> (TxError, TxMeta) {
    (TxError::Runtime(format!("harness: {msg}")), TxMeta::default())
}

/// The first event of type `E` in the transaction meta (Anchor discriminator + borsh).
pub fn find_event<E: anchor_lang::Discriminator + anchor_lang::AnchorDeserialize>(meta: &TxMeta) -> Option<E> {
    find_events::<E>(meta).into_iter().next()
}

pub fn find_events<E: anchor_lang::Discriminator + anchor_lang::AnchorDeserialize>(meta: &TxMeta) -> Vec<E> {
    let d = E::DISCRIMINATOR;
    meta.events
        .iter()
        .filter(|(pid, data)| *pid == STORE_PID && data.len() >= d.len() && data[..d.len()] == *d)
        .filter_map(|(_, data)| E::deserialize(&mut &data[d.len()..]).ok())
        .collect()
}

impl World {
    pub fn glv_info(&self, index: u16) -> GlvInfo {
        let glv_token = pda::find_glv_token_address(&self.store, index, &STORE_PID).0;
        let glv = pda::find_glv_address(&glv_token, &STORE_PID).0;
        GlvInfo { index, glv_token, glv }
    }

    pub fn load_glv(&self, glv: &Pubkey) -> Option<Glv> {
        load::<Glv>(&self.svm, glv)
    }

    /// Market tokens of the GLV in the order of the account's (sorted) map — the order the program
    /// expects for the `markets` / `market_tokens` remaining accounts.
    pub fn glv_market_tokens(&self, glv: &Pubkey) -> Vec<Pubkey> {
        self.load_glv(glv).map(|g| g.market_tokens().collect()).unwrap_or_default()
    }

    pub fn market_of_token(&self, market_token: &Pubkey) -> Pubkey {
        pda::find_market_address(&self.store, market_token, &STORE_PID).0
    }

    pub fn glv_vault(&self, glv: &Pubkey, market_token: &Pubkey) -> Pubkey {
        token::ata(glv, market_token)
    }

    pub fn prepare_ata22_ix(&self, payer: Pubkey, owner: Pubkey, mint: Pubkey) -> Instruction {
        six(
            sa::PrepareAssociatedTokenAccount {
                payer,
                owner,
                mint,
                account: ata22(&owner, &mint),
                system_program: system_program::ID,
                token_program: spl_token_2022::ID,
                associated_token_program: associated_token::ID,
            },
            si::PrepareAssociatedTokenAccount {},
        )
    }

    /// `[markets (readonly)] ++ [market tokens (readonly)]` for the given market tokens.
    fn glv_split_metas(&self, market_tokens: &[Pubkey]) -> Vec<AccountMeta> {
        let mut v: Vec<AccountMeta> = market_tokens
            .iter()
            .map(|t| AccountMeta::new_readonly(self.market_of_token(t), false))
            .collect();
        v.extend(market_tokens.iter().map(|t| AccountMeta::new_readonly(*t, false)));
        v
    }

    /// `initialize_glv` with the given market tokens, passed in the given order (the program requires
    /// them sorted by address).
    pub fn initialize_glv_ix(&self, authority: Pubkey, index: u16, market_tokens: &[Pubkey]) -> Instruction {
        let info = self.glv_info(index);
        let mut ix = six(
            sa::InitializeGlv {
                authority,
                store: self.store,
                glv_token: info.glv_token,
                glv: info.glv,
                system_program: system_program::ID,
                token_program: spl_token_2022::ID,
                market_token_program: spl_token::ID,
                associated_token_program: associated_token::ID,
            },
            si::InitializeGlv { index, length: market_tokens.len() as u16 },
        );
        ix.accounts.extend(self.glv_split_metas(market_tokens));
        ix.accounts
            .extend(market_tokens.iter().map(|t| AccountMeta::new(self.glv_vault(&info.glv, t), false)));
        ix
    }

    pub fn initialize_glv(&mut self, index: u16, markets: &[usize]) -> std::result::Result<GlvInfo, (TxError, TxMeta)> {
        let mut tokens: Vec<Pubkey> = markets.iter().map(|m| self.markets[*m].market_token).collect();
        tokens.sort();
        tokens.dedup();
        let keeper = self.keeper;
        let ix = self.initialize_glv_ix(keeper, index, &tokens);
        self.send(&[ix], &[keeper]).map(|_| self.glv_info(index))
    }

    pub fn insert_glv_market_ix(&self, authority: Pubkey, glv: &GlvInfo, market_token: Pubkey) -> Instruction {
        six(
            sa::InsertGlvMarket {
                authority,
                store: self.store,
                glv: glv.glv,
                market_token,
                market: self.market_of_token(&market_token),
                vault: self.glv_vault(&glv.glv, &market_token),
                system_program: system_program::ID,
                token_program: spl_token::ID,
                associated_token_program: associated_token::ID,
            },
            si::InsertGlvMarket {},
        )
    }

    pub fn insert_glv_market(&mut self, glv: &GlvInfo, market: usize) -> TxResult {
        let keeper = self.keeper;
        let ix = self.insert_glv_market_ix(keeper, glv, self.markets[market].market_token);
        self.send(&[ix], &[keeper])
    }

    pub fn remove_glv_market_ix(&self, authority: Pubkey, glv: &GlvInfo, market_token: Pubkey) -> Instruction {
        let store_wallet = self.store_wallet();
        six(
            sa::RemoveGlvMarket {
                authority,
                store: self.store,
                store_wallet,
                glv: glv.glv,
                market_token,
                vault: self.glv_vault(&glv.glv, &market_token),
                store_wallet_ata: token::ata(&store_wallet, &market_token),
                token_program: spl_token::ID,
                associated_token_program: associated_token::ID,
                system_program: system_program::ID,
            },
            si::RemoveGlvMarket {},
        )
    }

    pub fn remove_glv_market(&mut self, glv: &GlvInfo, market: usize) -> TxResult {
        let keeper = self.keeper;
        let ix = self.remove_glv_market_ix(keeper, glv, self.markets[market].market_token);
        self.send(&[ix], &[keeper])
    }

    pub fn update_glv_market_config(&mut self, glv: &GlvInfo, market_token: Pubkey, max_amount: Option<u64>, max_value: Option<u128>) -> TxResult {
        let keeper = self.keeper;
        let ix = six(
            sa::UpdateGlvMarketConfig { authority: keeper, store: self.store, glv: glv.glv, market_token },
            si::UpdateGlvMarketConfig { max_amount, max_value },
        );
        self.send(&[ix], &[keeper])
    }

    pub fn toggle_glv_market_flag(&mut self, glv: &GlvInfo, market_token: Pubkey, flag: GlvMarketFlag, enable: bool) -> TxResult {
        let keeper = self.keeper;
        let ix = six(
            sa::UpdateGlvMarketConfig { authority: keeper, store: self.store, glv: glv.glv, market_token },
            si::ToggleGlvMarketFlag { flag: flag.to_string(), enable },
        );
        self.send(&[ix], &[keeper])
    }

    pub fn update_glv_config(&mut self, glv: &GlvInfo, params: UpdateGlvParams) -> TxResult {
        let keeper = self.keeper;
        let ix = six(
            sa::UpdateGlvConfig { authority: keeper, store: self.store, glv: glv.glv },
            si::UpdateGlvConfig { params },
        );
        self.send(&[ix], &[keeper])
    }

    /// `update_market_config(key, value)` by the keeper (MARKET_KEEPER).
    pub fn update_market_config(&mut self, market: usize, key: &str, value: u128) -> TxResult {
        let keeper = self.keeper;
        let ix = six(
            sa::UpdateMarketConfig { authority: keeper, store: self.store, market: self.markets[market].market },
            si::UpdateMarketConfig { key: key.to_string(), value },
        );
        self.send(&[ix], &[keeper])
    }

    // --------------------------------------------------------------------------------------------
    // GLV deposit

    /// `create_glv_deposit` (+ ATA preparation); returns the GLV-deposit address. The long / short pay-in
    /// tokens are the market's own (no swap paths).
    pub fn create_glv_deposit(
        &mut self,
        owner: Pubkey,
        glv: &GlvInfo,
        market: usize,
        market_token_amount: u64,
        long_amount: u64,
        short_amount: u64,
        min_market_token_amount: u64,
        min_glv_token_amount: u64,
    ) -> std::result::Result<Pubkey, (TxError, TxMeta)> {
        let m = self.markets[market].clone();
        let store = self.store;
        let nonce = self.next_nonce();
        let glv_deposit = pda::find_glv_deposit_address(&store, &owner, &nonce, &STORE_PID).0;
        let long_token = (long_amount != 0).then(|| self.tokens[m.long].mint);
        let short_token = (short_amount != 0).then(|| self.tokens[m.short].mint);
        let mut ixs = vec![
            self.prepare_ata22_ix(owner, owner, glv.glv_token),
            self.prepare_ata22_ix(owner, glv_deposit, glv.glv_token),
            self.prepare_ata_ix(owner, glv_deposit, m.market_token),
        ];
        for t in long_token.iter().chain(short_token.iter()) {
            ixs.push(self.prepare_ata_ix(owner, glv_deposit, *t));
        }
        let create = six(
            sa::CreateGlvDeposit {
                owner,
                receiver: owner,
                store,
                market: m.market,
                glv: glv.glv,
                glv_deposit,
                glv_token: glv.glv_token,
                market_token: m.market_token,
                initial_long_token: long_token,
                initial_short_token: short_token,
                market_token_source: (market_token_amount != 0).then(|| token::ata(&owner, &m.market_token)),
                initial_long_token_source: long_token.map(|t| token::ata(&owner, &t)),
                initial_short_token_source: short_token.map(|t| token::ata(&owner, &t)),
                glv_token_escrow: ata22(&glv_deposit, &glv.glv_token),
                market_token_escrow: token::ata(&glv_deposit, &m.market_token),
                initial_long_token_escrow: long_token.map(|t| token::ata(&glv_deposit, &t)),
                initial_short_token_escrow: short_token.map(|t| token::ata(&glv_deposit, &t)),
                system_program: system_program::ID,
                token_program: spl_token::ID,
                glv_token_program: spl_token_2022::ID,
                associated_token_program: associated_token::ID,
            },
            si::CreateGlvDeposit {
                nonce,
                params: CreateGlvDepositParams {
                    execution_lamports: EXECUTION_FEE,
                    long_token_swap_length: 0,
                    short_token_swap_length: 0,
                    initial_long_token_amount: long_amount,
                    initial_short_token_amount: short_amount,
                    market_token_amount,
                    min_market_token_amount,
                    min_glv_token_amount,
                    should_unwrap_native_token: false,
                },
            },
        );
        ixs.push(create);
        self.send(&ixs, &[owner]).map(|_| glv_deposit)
    }

    /// Feed accounts for a GLV action: swap tokens of the action + index tokens of all GLV markets,
    /// sorted (all tokens use the same provider, so provider-sorting is the identity).
    fn glv_feed_metas(&self, glv: &Glv, action: Option<&impl gmsol_utils::swap::HasSwapParams>) -> Option<Vec<AccountMeta>> {
        let mut collector = glv.tokens_collector(action);
        for mt in glv.market_tokens() {
            let market: Market = load(&self.svm, &self.market_of_token(&mt))?;
            collector.insert_token(&market.meta().index_token_mint);
        }
        let tokens: Vec<Pubkey> = collector.unique_tokens().into_iter().collect();
        Some(self.feed_metas(&tokens))
    }

    pub fn execute_glv_deposit_ix(&self, executor: Pubkey, glv_deposit: Pubkey, throw_on_execution_error: bool) -> Option<Instruction> {
        let d: GlvDeposit = load(&self.svm, &glv_deposit)?;
        let t = d.tokens();
        let glv_token = t.glv_token();
        let glv_addr = pda::find_glv_address(&glv_token, &STORE_PID).0;
        let glv = self.load_glv(&glv_addr)?;
        let market_token = t.market_token();
        let lt = t.initial_long_token.token();
        let st = t.initial_short_token.token();
        let mut ix = six(
            sa::ExecuteGlvDeposit {
                authority: executor,
                store: self.store,
                token_map: self.token_map,
                oracle: self.oracle,
                glv: glv_addr,
                market: self.market_of_token(&market_token),
                glv_deposit,
                glv_token,
                market_token,
                initial_long_token: lt,
                initial_short_token: st,
                glv_token_escrow: t.glv_token_account(),
                market_token_escrow: t.market_token_account(),
                initial_long_token_escrow: t.initial_long_token.account(),
                initial_short_token_escrow: t.initial_short_token.account(),
                initial_long_token_vault: lt.map(|x| self.vault(&x)),
                initial_short_token_vault: st.map(|x| self.vault(&x)),
                market_token_vault: self.glv_vault(&glv_addr, &market_token),
                token_program: spl_token::ID,
                glv_token_program: spl_token_2022::ID,
                system_program: system_program::ID,
                chainlink_program: None,
                event_authority: self.event_authority(),
                program: STORE_PID,
            },
            si::ExecuteGlvDeposit { execution_lamports: EXECUTION_FEE, throw_on_execution_error },
        );
        let mts: Vec<Pubkey> = glv.market_tokens().collect();
        ix.accounts.extend(self.glv_split_metas(&mts));
        ix.accounts.extend(self.glv_feed_metas(&glv, Some(&d))?);
        Some(ix)
    }

    pub fn execute_glv_deposit(&mut self, glv_deposit: Pubkey, throw_on_execution_error: bool) -> TxResult {
        let keeper = self.keeper;
        let Some(ix) = self.execute_glv_deposit_ix(keeper, glv_deposit, throw_on_execution_error) else {
            return Err(harness_err("glv deposit not found"));
        };
        self.send(&[ix], &[keeper])
    }

    pub fn glv_deposit_state(&self, glv_deposit: &Pubkey) -> Option<ActionState> {
        let d: GlvDeposit = load(&self.svm, glv_deposit)?;
        d.header().action_state().ok()
    }

    pub fn close_glv_deposit_ix(&self, executor: Pubkey, glv_deposit: Pubkey) -> Option<Instruction> {
        let d: GlvDeposit = load(&self.svm, &glv_deposit)?;
        let owner = *d.header().owner();
        let receiver = d.header().receiver();
        let t = d.tokens();
        let glv_token = t.glv_token();
        let market_token = t.market_token();
        let lt = t.initial_long_token.token();
        let st = t.initial_short_token.token();
        Some(six(
            sa::CloseGlvDeposit {
                executor,
                store: self.store,
                store_wallet: self.store_wallet(),
                owner,
                receiver,
                glv_deposit,
                market_token,
                initial_long_token: lt,
                initial_short_token: st,
                glv_token,
                market_token_escrow: t.market_token_account(),
                initial_long_token_escrow: t.initial_long_token.account(),
                initial_short_token_escrow: t.initial_short_token.account(),
                glv_token_escrow: t.glv_token_account(),
                market_token_ata: token::ata(&owner, &market_token),
                initial_long_token_ata: lt.map(|x| token::ata(&owner, &x)),
                initial_short_token_ata: st.map(|x| token::ata(&owner, &x)),
                glv_token_ata: ata22(&receiver, &glv_token),
                system_program: system_program::ID,
                token_program: spl_token::ID,
                glv_token_program: spl_token_2022::ID,
                associated_token_program: associated_token::ID,
                event_authority: self.event_authority(),
                program: STORE_PID,
            },
            si::CloseGlvDeposit { reason: "test".into() },
        ))
    }

    pub fn close_glv_deposit(&mut self, executor: Pubkey, glv_deposit: Pubkey) -> TxResult {
        let Some(ix) = self.close_glv_deposit_ix(executor, glv_deposit) else {
            return Err(harness_err("glv deposit not found"));
        };
        self.send(&[ix], &[executor])
    }

    // --------------------------------------------------------------------------------------------
    // GLV withdrawal

    pub fn create_glv_withdrawal(
        &mut self,
        owner: Pubkey,
        glv: &GlvInfo,
        market: usize,
        glv_token_amount: u64,
        min_long: u64,
        min_short: u64,
    ) -> std::result::Result<Pubkey, (TxError, TxMeta)> {
        let m = self.markets[market].clone();
        let store = self.store;
        let nonce = self.next_nonce();
        let glv_withdrawal = pda::find_glv_withdrawal_address(&store, &owner, &nonce, &STORE_PID).0;
        let lt = self.tokens[m.long].mint;
        let st = self.tokens[m.short].mint;
        let mut ixs = vec![
            self.prepare_ata_ix(owner, owner, lt),
            self.prepare_ata_ix(owner, owner, st),
            self.prepare_ata22_ix(owner, glv_withdrawal, glv.glv_token),
            self.prepare_ata_ix(owner, glv_withdrawal, m.market_token),
            self.prepare_ata_ix(owner, glv_withdrawal, lt),
        ];
        if st != lt {
            ixs.push(self.prepare_ata_ix(owner, glv_withdrawal, st));
        }
        ixs.push(six(
            sa::CreateGlvWithdrawal {
                owner,
                receiver: owner,
                store,
                market: m.market,
                glv: glv.glv,
                glv_withdrawal,
                glv_token: glv.glv_token,
                market_token: m.market_token,
                final_long_token: lt,
                final_short_token: st,
                glv_token_source: ata22(&owner, &glv.glv_token),
                glv_token_escrow: ata22(&glv_withdrawal, &glv.glv_token),
                market_token_escrow: token::ata(&glv_withdrawal, &m.market_token),
                final_long_token_escrow: token::ata(&glv_withdrawal, &lt),
                final_short_token_escrow: token::ata(&glv_withdrawal, &st),
                system_program: system_program::ID,
                token_program: spl_token::ID,
                glv_token_program: spl_token_2022::ID,
                associated_token_program: associated_token::ID,
            },
            si::CreateGlvWithdrawal {
                nonce,
                params: CreateGlvWithdrawalParams {
                    execution_lamports: EXECUTION_FEE,
                    long_token_swap_length: 0,
                    short_token_swap_length: 0,
                    glv_token_amount,
                    min_final_long_token_amount: min_long,
                    min_final_short_token_amount: min_short,
                    should_unwrap_native_token: false,
                },
            },
        ));
        self.send(&ixs, &[owner]).map(|_| glv_withdrawal)
    }

    pub fn execute_glv_withdrawal_ix(&self, executor: Pubkey, glv_withdrawal: Pubkey, throw_on_execution_error: bool) -> Option<Instruction> {
        let w: GlvWithdrawal = load(&self.svm, &glv_withdrawal)?;
        let t = w.tokens();
        let glv_token = t.glv_token();
        let glv_addr = pda::find_glv_address(&glv_token, &STORE_PID).0;
        let glv = self.load_glv(&glv_addr)?;
        let market_token = t.market_token();
        let lt = t.final_long_token();
        let st = t.final_short_token();
        let mut ix = six(
            sa::ExecuteGlvWithdrawal {
                authority: executor,
                store: self.store,
                token_map: self.token_map,
                oracle: self.oracle,
                glv: glv_addr,
                market: self.market_of_token(&market_token),
                glv_withdrawal,
                glv_token,
                market_token,
                final_long_token: lt,
                final_short_token: st,
                glv_token_escrow: t.glv_token_account(),
                market_token_escrow: t.market_token_account(),
                final_long_token_escrow: t.final_long_token_account(),
                final_short_token_escrow: t.final_short_token_account(),
                market_token_withdrawal_vault: self.vault(&market_token),
                final_long_token_vault: self.vault(&lt),
                final_short_token_vault: self.vault(&st),
                market_token_vault: self.glv_vault(&glv_addr, &market_token),
                token_program: spl_token::ID,
                glv_token_program: spl_token_2022::ID,
                system_program: system_program::ID,
                chainlink_program: None,
                event_authority: self.event_authority(),
                program: STORE_PID,
            },
            si::ExecuteGlvWithdrawal { execution_lamports: EXECUTION_FEE, throw_on_execution_error },
        );
        let mts: Vec<Pubkey> = glv.market_tokens().collect();
        ix.accounts.extend(self.glv_split_metas(&mts));
        ix.accounts.extend(self.glv_feed_metas(&glv, Some(&w))?);
        Some(ix)
    }

    pub fn execute_glv_withdrawal(&mut self, glv_withdrawal: Pubkey, throw_on_execution_error: bool) -> TxResult {
        let keeper = self.keeper;
        let Some(ix) = self.execute_glv_withdrawal_ix(keeper, glv_withdrawal, throw_on_execution_error) else {
            return Err(harness_err("glv withdrawal not found"));
        };
        self.send(&[ix], &[keeper])
    }

    pub fn glv_withdrawal_state(&self, glv_withdrawal: &Pubkey) -> Option<ActionState> {
        let w: GlvWithdrawal = load(&self.svm, glv_withdrawal)?;
        w.header().action_state().ok()
    }

    pub fn close_glv_withdrawal_ix(&self, executor: Pubkey, glv_withdrawal: Pubkey) -> Option<Instruction> {
        let w: GlvWithdrawal = load(&self.svm, &glv_withdrawal)?;
        let owner = *w.header().owner();
        let receiver = w.header().receiver();
        let t = w.tokens();
        let glv_token = t.glv_token();
        let market_token = t.market_token();
        let lt = t.final_long_token();
        let st = t.final_short_token();
        Some(six(
            sa::CloseGlvWithdrawal {
                executor,
                store: self.store,
                store_wallet: self.store_wallet(),
                owner,
                receiver,
                glv_withdrawal,
                market_token,
                final_long_token: lt,
                final_short_token: st,
                glv_token,
                market_token_escrow: t.market_token_account(),
                final_long_token_escrow: t.final_long_token_account(),
                final_short_token_escrow: t.final_short_token_account(),
                market_token_ata: token::ata(&owner, &market_token),
                final_long_token_ata: token::ata(&receiver, &lt),
                final_short_token_ata: token::ata(&receiver, &st),
                glv_token_escrow: t.glv_token_account(),
                glv_token_ata: ata22(&owner, &glv_token),
                system_program: system_program::ID,
                token_program: spl_token::ID,
                glv_token_program: spl_token_2022::ID,
                associated_token_program: associated_token::ID,
                event_authority: self.event_authority(),
                program: STORE_PID,
            },
            si::CloseGlvWithdrawal { reason: "test".into() },
        ))
    }

    pub fn close_glv_withdrawal(&mut self, executor: Pubkey, glv_withdrawal: Pubkey) -> TxResult {
        let Some(ix) = self.close_glv_withdrawal_ix(executor, glv_withdrawal) else {
            return Err(harness_err("glv withdrawal not found"));
        };
        self.send(&[ix], &[executor])
    }

    // --------------------------------------------------------------------------------------------
    // GLV shift (keeper only)

    pub fn create_glv_shift(
        &mut self,
        glv: &GlvInfo,
        from_market: usize,
        to_market: usize,
        from_market_token_amount: u64,
        min_to_market_token_amount: u64,
    ) -> std::result::Result<Pubkey, (TxError, TxMeta)> {
        let keeper = self.keeper;
        let store = self.store;
        let nonce = self.next_nonce();
        let glv_shift = pda::find_shift_address(&store, &keeper, &nonce, &STORE_PID).0;
        let (from, to) = (self.markets[from_market].clone(), self.markets[to_market].clone());
        let ix = six(
            sa::CreateGlvShift {
                authority: keeper,
                store,
                glv: glv.glv,
                from_market: from.market,
                to_market: to.market,
                glv_shift,
                from_market_token: from.market_token,
                to_market_token: to.market_token,
                from_market_token_vault: self.glv_vault(&glv.glv, &from.market_token),
                to_market_token_vault: self.glv_vault(&glv.glv, &to.market_token),
                system_program: system_program::ID,
                token_program: spl_token::ID,
                associated_token_program: associated_token::ID,
            },
            si::CreateGlvShift {
                nonce,
                params: CreateShiftParams {
                    execution_lamports: EXECUTION_FEE,
                    from_market_token_amount,
                    min_to_market_token_amount,
                },
            },
        );
        self.send(&[ix], &[keeper]).map(|_| glv_shift)
    }

    pub fn execute_glv_shift_ix(&self, executor: Pubkey, glv_shift: Pubkey, throw_on_execution_error: bool) -> Option<Instruction> {
        let s: GlvShift = load(&self.svm, &glv_shift)?;
        let glv = *s.glv();
        let t = s.tokens();
        let (from_mt, to_mt) = (t.from_market_token(), t.to_market_token());
        let from: Market = load(&self.svm, &self.market_of_token(&from_mt))?;
        let to: Market = load(&self.svm, &self.market_of_token(&to_mt))?;
        let tokens: Vec<Pubkey> = gmsol_utils::market::ordered_tokens(&from, &to).into_iter().collect();
        let mut ix = six(
            sa::ExecuteGlvShift {
                authority: executor,
                store: self.store,
                token_map: self.token_map,
                oracle: self.oracle,
                glv,
                from_market: self.market_of_token(&from_mt),
                to_market: self.market_of_token(&to_mt),
                glv_shift,
                from_market_token: from_mt,
                to_market_token: to_mt,
                from_market_token_glv_vault: self.glv_vault(&glv, &from_mt),
                to_market_token_glv_vault: self.glv_vault(&glv, &to_mt),
                from_market_token_vault: self.vault(&from_mt),
                token_program: spl_token::ID,
                chainlink_program: None,
                event_authority: self.event_authority(),
                program: STORE_PID,
            },
            si::ExecuteGlvShift { execution_lamports: EXECUTION_FEE, throw_on_execution_error },
        );
        ix.accounts.extend(self.feed_metas(&tokens));
        Some(ix)
    }

    pub fn execute_glv_shift(&mut self, glv_shift: Pubkey, throw_on_execution_error: bool) -> TxResult {
        let keeper = self.keeper;
        let Some(ix) = self.execute_glv_shift_ix(keeper, glv_shift, throw_on_execution_error) else {
            return Err(harness_err("glv shift not found"));
        };
        self.send(&[ix], &[keeper])
    }

    pub fn glv_shift_state(&self, glv_shift: &Pubkey) -> Option<ActionState> {
        let s: GlvShift = load(&self.svm, glv_shift)?;
        s.header().action_state().ok()
    }

    pub fn close_glv_shift(&mut self, glv_shift: Pubkey) -> TxResult {
        let keeper = self.keeper;
        let Some(s) = load::<GlvShift>(&self.svm, &glv_shift) else {
            return Err(harness_err("glv shift not found"));
        };
        let t = s.tokens();
        let ix = six(
            sa::CloseGlvShift {
                authority: keeper,
                funder: *s.funder(),
                store: self.store,
                store_wallet: self.store_wallet(),
                glv: *s.glv(),
                glv_shift,
                from_market_token: t.from_market_token(),
                to_market_token: t.to_market_token(),
                system_program: system_program::ID,
                token_program: spl_token::ID,
                associated_token_program: associated_token::ID,
                event_authority: self.event_authority(),
                program: STORE_PID,
            },
            si::CloseGlvShift { reason: "test".into() },
        );
        self.send(&[ix], &[keeper])
    }

    // --------------------------------------------------------------------------------------------
    // Read-only views (simulated, never committed)

    /// `get_glv_token_value` through the real instruction (simulation): returns the emitted event.
    pub fn view_glv_token_value(&mut self, glv: &GlvInfo, amount: u64, maximize: bool) -> std::result::Result<gmsol_store::events::GlvTokenValue, (TxError, TxMeta)> {
        let keeper = self.keeper;
        let Some(g) = self.load_glv(&glv.glv) else {
            return Err(harness_err("glv not found"));
        };
        let mut ix = six(
            sa::GetGlvTokenValue {
                authority: keeper,
                store: self.store,
                token_map: self.token_map,
                oracle: self.oracle,
                glv: glv.glv,
                glv_token: glv.glv_token,
                event_authority: self.event_authority(),
                program: STORE_PID,
            },
            si::GetGlvTokenValue { amount, maximize, max_age: 3600, emit_event: true },
        );
        let mts: Vec<Pubkey> = g.market_tokens().collect();
        ix.accounts.extend(self.glv_split_metas(&mts));
        let Some(feeds) = self.glv_feed_metas(&g, None::<&GlvDeposit>) else {
            return Err(harness_err("market of glv not found"));
        };
        ix.accounts.extend(feeds);
        let meta = self.svm.simulate(&[ix], &[keeper])?;
        match find_event::<gmsol_store::events::GlvTokenValue>(&meta) {
            Some(e) => Ok(e),
            None => Err((TxError::Runtime("harness: GlvTokenValue event missing".into()), meta)),
        }
    }

    /// `get_market_token_value` through the real instruction (simulation): returns the emitted event
    /// (pool value for the given PnL factor / maximize flag, supply, value of `amount`).
    pub fn view_market_token_value(
        &mut self,
        market_token: Pubkey,
        amount: u64,
        pnl_factor: &str,
        maximize: bool,
    ) -> std::result::Result<gmsol_store::events::MarketTokenValue, (TxError, TxMeta)> {
        let keeper = self.keeper;
        let market_addr = self.market_of_token(&market_token);
        let Some(market) = load::<Market>(&self.svm, &market_addr) else {
            return Err(harness_err("market not found"));
        };
        let tokens: Vec<Pubkey> = market.meta().ordered_tokens().into_iter().collect();
        let mut ix = six(
            sa::GetMarketTokenValue {
                authority: keeper,
                store: self.store,
                token_map: self.token_map,
                oracle: self.oracle,
                market: market_addr,
                market_token,
                event_authority: self.event_authority(),
                program: STORE_PID,
            },
            si::GetMarketTokenValue { amount, pnl_factor: pnl_factor.to_string(), maximize, max_age: 3600, emit_event: true },
        );
        ix.accounts.extend(self.feed_metas(&tokens));
        let meta = self.svm.simulate(&[ix], &[keeper])?;
        match find_event::<gmsol_store::events::MarketTokenValue>(&meta) {
            Some(e) => Ok(e),
            None => Err((TxError::Runtime("harness: MarketTokenValue event missing".into()), meta)),
        }
    }
}
