//! World extension: glv flows (instruction builders over the real program).
use super::*;
