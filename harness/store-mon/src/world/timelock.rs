//! World extension: timelock flows (instruction builders over the real program).
use super::*;
