//! World extension: timelock flows (instruction builders over the real `gmsol_timelock` program).
//!
//! Everything here only *encodes* instructions (accounts + Anchor data) and reads account bytes;
//! no timelock logic is re-implemented. PDAs are derived from literal seeds (the same literals the
//! program uses) so that the harness does not depend on `cfg(timelock)` items of the SDK.
use super::*;
use anchor_lang::AccountDeserialize;
use gmsol_timelock::{accounts as ta, instruction as ti};
use gmsol_utils::instruction::InstructionAccess;

pub use gmsol_timelock::ID as TL_PID;

/// Role names of the timelock program (literals, cross-checked against `gmsol_timelock::roles` in
/// [`World::bootstrap_timelock`]).
pub const TIMELOCK_ADMIN: &str = "TIMELOCK_ADMIN";
pub const TIMELOCK_KEEPER: &str = "TIMELOCK_KEEPER";
pub const TIMELOCKED_PREFIX: &str = "__TLD_";
pub const ADMIN_EXECUTOR_ROLE: &str = "ADMIN";

/// `__TLD_<role>`: the role whose holders may approve instructions of the executor named `role`.
pub fn timelocked_role(role: &str) -> String {
    format!("{TIMELOCKED_PREFIX}{role}")
}

/// Timelock-program instruction.
pub fn tix(accounts: impl ToAccountMetas, data: impl InstructionData) -> Instruction {
    ix(TL_PID, accounts, data)
}

/// Zero-padded 32-byte role seed (`None` if the name is longer than 32 bytes).
pub fn role_seed(role: &str) -> Option<[u8; 32]> {
    let b = role.as_bytes();
    if b.len() > 32 {
        return None;
    }
    let mut out = [0u8; 32];
    out[..b.len()].copy_from_slice(b);
    Some(out)
}

pub fn timelock_config_address(store: &Pubkey) -> Pubkey {
    Pubkey::find_program_address(&[b"timelock_config", store.as_ref()], &TL_PID).0
}

pub fn executor_address(store: &Pubkey, role: &str) -> Pubkey {
    let seed = role_seed(role).expect("role name too long");
    Pubkey::find_program_address(&[b"timelock_executor", store.as_ref(), &seed], &TL_PID).0
}

pub fn executor_wallet(executor: &Pubkey) -> Pubkey {
    Pubkey::find_program_address(&[b"wallet", executor.as_ref()], &TL_PID).0
}

// ------------------------------------------------------------------------------------------------
// Store-side instructions used around the timelock (role management, authority hand-over).

pub fn enable_role_ix(authority: Pubkey, store: Pubkey, role: &str) -> Instruction {
    six(sa::EnableRole { authority, store }, si::EnableRole { role: role.to_string() })
}

pub fn disable_role_ix(authority: Pubkey, store: Pubkey, role: &str) -> Instruction {
    six(sa::DisableRole { authority, store }, si::DisableRole { role: role.to_string() })
}

pub fn grant_role_ix(authority: Pubkey, store: Pubkey, user: Pubkey, role: &str) -> Instruction {
    six(sa::GrantRole { authority, store }, si::GrantRole { user, role: role.to_string() })
}

pub fn revoke_role_ix(authority: Pubkey, store: Pubkey, user: Pubkey, role: &str) -> Instruction {
    six(sa::RevokeRole { authority, store }, si::RevokeRole { user, role: role.to_string() })
}

pub fn transfer_store_authority_ix(authority: Pubkey, store: Pubkey, next_authority: Pubkey) -> Instruction {
    six(sa::TransferStoreAuthority { authority, store, next_authority }, si::TransferStoreAuthority {})
}

pub fn accept_store_authority_ix(next_authority: Pubkey, store: Pubkey) -> Instruction {
    six(sa::AcceptStoreAuthority { next_authority, store }, si::AcceptStoreAuthority {})
}

pub fn insert_amount_ix(authority: Pubkey, store: Pubkey, key: &str, amount: u64) -> Instruction {
    six(sa::InsertConfig { authority, store }, si::InsertAmount { key: key.to_string(), amount })
}

pub fn insert_factor_ix(authority: Pubkey, store: Pubkey, key: &str, factor: u128) -> Instruction {
    six(sa::InsertConfig { authority, store }, si::InsertFactor { key: key.to_string(), factor })
}

pub fn toggle_feature_ix(authority: Pubkey, store: Pubkey, domain: &str, action: &str, enable: bool) -> Instruction {
    six(
        sa::ToggleFeature { authority, store },
        si::ToggleFeature { domain: domain.to_string(), action: action.to_string(), enable },
    )
}

/// The `check_role` CPI every access-controlled timelock instruction performs first.
pub fn check_role_data(role: &str) -> Vec<u8> {
    si::CheckRole { role: role.to_string() }.data()
}

// ------------------------------------------------------------------------------------------------
// Timelock instructions.

pub fn tl_initialize_executor_ix(payer: Pubkey, store: Pubkey, role: &str) -> Instruction {
    let executor = executor_address(&store, role);
    tix(
        ta::InitializeExecutor {
            payer,
            store,
            executor,
            wallet: executor_wallet(&executor),
            system_program: system_program::ID,
        },
        ti::InitializeExecutor { role: role.to_string() },
    )
}

pub fn tl_initialize_config_ix(authority: Pubkey, store: Pubkey, delay: u32) -> Instruction {
    let executor = executor_address(&store, ADMIN_EXECUTOR_ROLE);
    tix(
        ta::InitializeConfig {
            authority,
            store,
            timelock_config: timelock_config_address(&store),
            executor,
            wallet: executor_wallet(&executor),
            store_program: STORE_PID,
            system_program: system_program::ID,
        },
        ti::InitializeConfig { delay },
    )
}

pub fn tl_increase_delay_ix(authority: Pubkey, store: Pubkey, timelock_config: Pubkey, delta: u32) -> Instruction {
    tix(
        ta::IncreaseDelay { authority, store, timelock_config, store_program: STORE_PID },
        ti::IncreaseDelay { delta },
    )
}

/// Arguments of `create_instruction_buffer` that a hostile caller can choose freely.
#[derive(Clone, Debug)]
pub struct CreateBufferArgs {
    /// Number of leading remaining accounts that form the buffered account list.
    pub num_accounts: u16,
    /// Declared data length (the program sizes the account from it).
    pub data_len: u16,
    pub data: Vec<u8>,
    /// Indexes (into the remaining accounts) to be flagged as signers.
    pub signers: Vec<u16>,
    /// Remaining accounts as sent (signer flags are always cleared, as the SDK does: the buffer is
    /// created by a keeper who cannot sign for the executor wallet).
    pub remaining: Vec<AccountMeta>,
}

impl CreateBufferArgs {
    /// The SDK's encoding of `instruction` (signer positions moved into `signers`).
    pub fn from_instruction(instruction: &Instruction) -> Self {
        let mut signers = vec![];
        let remaining = instruction
            .accounts
            .iter()
            .enumerate()
            .map(|(i, m)| {
                if m.is_signer {
                    signers.push(i as u16);
                }
                AccountMeta { pubkey: m.pubkey, is_signer: false, is_writable: m.is_writable }
            })
            .collect::<Vec<_>>();
        Self {
            num_accounts: remaining.len() as u16,
            data_len: instruction.data.len() as u16,
            data: instruction.data.clone(),
            signers,
            remaining,
        }
    }
}

/// `create_instruction_buffer`. The buffer account is created by Anchor `init` (System
/// `create_account` CPI), so `buffer` must sign the transaction together with `authority`.
pub fn tl_create_buffer_ix(
    authority: Pubkey,
    store: Pubkey,
    executor: Pubkey,
    buffer: Pubkey,
    instruction_program: Pubkey,
    args: &CreateBufferArgs,
) -> Instruction {
    let mut i = tix(
        ta::CreateInstructionBuffer {
            authority,
            store,
            executor,
            instruction_buffer: buffer,
            instruction_program,
            store_program: STORE_PID,
            system_program: system_program::ID,
        },
        ti::CreateInstructionBuffer {
            num_accounts: args.num_accounts,
            data_len: args.data_len,
            data: args.data.clone(),
            signers: args.signers.clone(),
        },
    );
    i.accounts.extend(args.remaining.iter().cloned());
    i
}

pub fn tl_approve_ix(authority: Pubkey, store: Pubkey, executor: Pubkey, role: &str, buffer: Pubkey) -> Instruction {
    tix(
        ta::ApproveInstruction { authority, store, executor, instruction: buffer, store_program: STORE_PID },
        ti::ApproveInstruction { role: role.to_string() },
    )
}

pub fn tl_approve_many_ix(authority: Pubkey, store: Pubkey, executor: Pubkey, role: &str, buffers: &[Pubkey]) -> Instruction {
    let mut i = tix(
        ta::ApproveInstructions { authority, store, executor, store_program: STORE_PID },
        ti::ApproveInstructions { role: role.to_string() },
    );
    i.accounts.extend(buffers.iter().map(|b| AccountMeta::new(*b, false)));
    i
}

pub fn tl_cancel_ix(authority: Pubkey, store: Pubkey, executor: Pubkey, rent_receiver: Pubkey, buffer: Pubkey) -> Instruction {
    tix(
        ta::CancelInstruction { authority, store, executor, rent_receiver, instruction: buffer, store_program: STORE_PID },
        ti::CancelInstruction {},
    )
}

pub fn tl_cancel_many_ix(authority: Pubkey, store: Pubkey, executor: Pubkey, rent_receiver: Pubkey, buffers: &[Pubkey]) -> Instruction {
    let mut i = tix(
        ta::CancelInstructions { authority, store, executor, rent_receiver, store_program: STORE_PID },
        ti::CancelInstructions {},
    );
    i.accounts.extend(buffers.iter().map(|b| AccountMeta::new(*b, false)));
    i
}

/// Named accounts of `execute_instruction` (every one can be substituted by a hostile caller).
#[derive(Clone, Debug)]
pub struct ExecuteAccounts {
    pub authority: Pubkey,
    pub store: Pubkey,
    pub timelock_config: Pubkey,
    pub executor: Pubkey,
    pub wallet: Pubkey,
    pub rent_receiver: Pubkey,
    pub buffer: Pubkey,
}

/// `execute_instruction`; `remaining` are the buffered instruction's accounts (signer flags are
/// cleared here as the SDK does: the wallet PDA signs inside the program) plus, if needed, the
/// target program account.
pub fn tl_execute_ix(a: &ExecuteAccounts, remaining: &[AccountMeta]) -> Instruction {
    let mut i = tix(
        ta::ExecuteInstruction {
            authority: a.authority,
            store: a.store,
            timelock_config: a.timelock_config,
            executor: a.executor,
            wallet: a.wallet,
            rent_receiver: a.rent_receiver,
            instruction: a.buffer,
            store_program: STORE_PID,
        },
        ti::ExecuteInstruction {},
    );
    i.accounts.extend(
        remaining
            .iter()
            .map(|m| AccountMeta { pubkey: m.pubkey, is_signer: false, is_writable: m.is_writable }),
    );
    i
}

/// Timelock-bypassing `revoke_role` (by a `__TLD_ADMIN` holder, through the ADMIN executor wallet).
pub fn tl_bypass_revoke_role_ix(authority: Pubkey, store: Pubkey, user: Pubkey, role: &str) -> Instruction {
    let executor = executor_address(&store, ADMIN_EXECUTOR_ROLE);
    tix(
        ta::RevokeRole {
            authority,
            store,
            executor,
            wallet: executor_wallet(&executor),
            user,
            store_program: STORE_PID,
        },
        ti::RevokeRole { role: role.to_string() },
    )
}

/// Timelock-bypassing `set_expected_price_provider` (by a `__TLD_MARKET_KEEPER` holder).
pub fn tl_bypass_set_expected_price_provider_ix(
    authority: Pubkey,
    store: Pubkey,
    token_map: Pubkey,
    token: Pubkey,
    new_expected_price_provider: u8,
) -> Instruction {
    let executor = executor_address(&store, RoleKey::MARKET_KEEPER);
    tix(
        ta::SetExpectedPriceProvider {
            authority,
            store,
            token_map,
            executor,
            wallet: executor_wallet(&executor),
            token,
            store_program: STORE_PID,
            system_program: system_program::ID,
        },
        ti::SetExpectedPriceProvider { new_expected_price_provider },
    )
}

// ------------------------------------------------------------------------------------------------
// Reading state.

/// What an instruction-buffer account currently holds (decoded by the program crate's own
/// `InstructionBuffer` reader — observation only).
#[derive(Clone, Debug)]
pub struct BufferView {
    pub executor: Pubkey,
    pub rent_receiver: Pubkey,
    pub approved_at: Option<i64>,
    pub approver: Option<Pubkey>,
    /// `to_instruction(false)`: exactly the instruction the program would invoke.
    pub instruction: Instruction,
}

pub fn read_buffer(svm: &Svm, buffer: &Pubkey) -> Option<BufferView> {
    let a = svm.get(buffer)?;
    if a.owner != TL_PID {
        return None;
    }
    let data = a.data.clone();
    vcommon::monitor::guard(move || {
        let b = gmsol_timelock::states::utils::InstructionBuffer::try_deserialize(&mut &data[..]).ok()?;
        let instruction = b.to_instruction(false).ok()?;
        Some(BufferView {
            executor: *b.header.executor(),
            rent_receiver: *b.header.rent_receiver(),
            approved_at: b.header.approved_at(),
            approver: b.header.apporver().copied(),
            instruction,
        })
    })
    .ok()
    .flatten()
}

pub fn read_delay(svm: &Svm, timelock_config: &Pubkey) -> Option<u32> {
    exchange::load::<gmsol_timelock::states::TimelockConfig>(svm, timelock_config).map(|c| c.delay())
}

/// Role-store view read from the account (role enabled and granted); errors (not a member /
/// unknown or disabled role) count as "does not hold". Uses the `RoleStore` directly because
/// `Store::has_role` needs the LastRestartSlot sysvar, which only exists inside a transaction.
pub fn store_has_role(svm: &Svm, store: &Pubkey, user: &Pubkey, role: &str) -> Option<bool> {
    let s: gmsol_store::states::Store = exchange::load(svm, store)?;
    Some(s.role().has_role(user, role).unwrap_or(false))
}

pub fn store_is_authority(svm: &Svm, store: &Pubkey, user: &Pubkey) -> Option<bool> {
    let s: gmsol_store::states::Store = exchange::load(svm, store)?;
    Some(s.is_authority(user))
}

// ------------------------------------------------------------------------------------------------
// Flows.

/// Who is who in a timelock world (all keys are deterministic labels).
#[derive(Clone, Debug)]
pub struct TimelockActors {
    /// Holds TIMELOCK_ADMIN, TIMELOCK_KEEPER and `__TLD_ADMIN` (needed by `initialize_config`).
    pub tl_admin: Pubkey,
    /// Holds TIMELOCK_KEEPER only.
    pub tl_keeper: Pubkey,
    /// Executor role names; `executors[i]` / `wallets[i]` are their accounts.
    pub executor_roles: Vec<String>,
    pub executors: Vec<Pubkey>,
    pub wallets: Vec<Pubkey>,
    pub timelock_config: Pubkey,
}

impl World {
    /// Enable the timelock roles, create the executors (one per `executor_roles`, `ADMIN` must be the
    /// first), grant each executor wallet its store role, hand the store authority over to the ADMIN
    /// executor wallet and initialize the timelock config with `delay` — all through real
    /// instructions. Afterwards the store authority is the ADMIN executor wallet.
    ///
    /// `pre_grants` are `(user, role)` pairs granted by the store admin after the roles were enabled
    /// and before the authority is handed over (afterwards only the timelock can grant).
    pub fn bootstrap_timelock(
        &mut self,
        store: Pubkey,
        executor_roles: &[&str],
        delay: u32,
        label: &str,
        pre_grants: &[(Pubkey, String)],
    ) -> TimelockActors {
        assert_eq!(gmsol_timelock::roles::TIMELOCK_ADMIN, TIMELOCK_ADMIN);
        assert_eq!(gmsol_timelock::roles::TIMELOCK_KEEPER, TIMELOCK_KEEPER);
        assert_eq!(gmsol_timelock::roles::TIMELOCKED, TIMELOCKED_PREFIX);
        assert_eq!(executor_roles.first().copied(), Some(ADMIN_EXECUTOR_ROLE));
        let admin = self.admin;
        let tl_admin = key(&format!("tl-admin:{label}"));
        let tl_keeper = key(&format!("tl-keeper:{label}"));
        self.svm.airdrop(&tl_admin, 1_000 * LAMPORTS);
        self.svm.airdrop(&tl_keeper, 1_000 * LAMPORTS);
        let mut roles = vec![TIMELOCK_ADMIN.to_string(), TIMELOCK_KEEPER.to_string()];
        roles.extend(executor_roles.iter().map(|r| timelocked_role(r)));
        for r in &roles {
            self.must("enable timelock role", &[enable_role_ix(admin, store, r)], &[admin]);
        }
        for r in [TIMELOCK_ADMIN, TIMELOCK_KEEPER] {
            self.must("grant tl_admin", &[grant_role_ix(admin, store, tl_admin, r)], &[admin]);
        }
        self.must(
            "grant tl_admin __TLD_ADMIN",
            &[grant_role_ix(admin, store, tl_admin, &timelocked_role(ADMIN_EXECUTOR_ROLE))],
            &[admin],
        );
        self.must("grant tl_keeper", &[grant_role_ix(admin, store, tl_keeper, TIMELOCK_KEEPER)], &[admin]);
        let mut executors = vec![];
        let mut wallets = vec![];
        for r in executor_roles {
            self.must("initialize_executor", &[tl_initialize_executor_ix(tl_keeper, store, r)], &[tl_keeper]);
            let e = executor_address(&store, r);
            let w = executor_wallet(&e);
            self.svm.airdrop(&w, 10 * LAMPORTS);
            if *r != ADMIN_EXECUTOR_ROLE {
                // The wallet needs the store role to be able to act (role must be enabled already).
                self.must("grant wallet role", &[grant_role_ix(admin, store, w, r)], &[admin]);
            }
            executors.push(e);
            wallets.push(w);
        }
        for (user, role) in pre_grants {
            self.must("pre-grant", &[grant_role_ix(admin, store, *user, role)], &[admin]);
        }
        self.must(
            "transfer_store_authority",
            &[transfer_store_authority_ix(admin, store, wallets[0])],
            &[admin],
        );
        self.must("initialize_config", &[tl_initialize_config_ix(tl_admin, store, delay)], &[tl_admin]);
        TimelockActors {
            tl_admin,
            tl_keeper,
            executor_roles: executor_roles.iter().map(|s| s.to_string()).collect(),
            executors,
            wallets,
            timelock_config: timelock_config_address(&store),
        }
    }

    /// Create a buffer for `instruction` the way the SDK does.
    pub fn tl_create(&mut self, creator: Pubkey, store: Pubkey, executor: Pubkey, buffer: Pubkey, instruction: &Instruction) -> TxResult {
        let args = CreateBufferArgs::from_instruction(instruction);
        let i = tl_create_buffer_ix(creator, store, executor, buffer, instruction.program_id, &args);
        self.send(&[i], &[creator, buffer])
    }

    pub fn tl_approve(&mut self, approver: Pubkey, store: Pubkey, role: &str, buffer: Pubkey) -> TxResult {
        let i = tl_approve_ix(approver, store, executor_address(&store, role), role, buffer);
        self.send(&[i], &[approver])
    }

    /// Execute a buffer as the SDK does (accounts taken from the buffer contents).
    pub fn tl_execute(&mut self, keeper: Pubkey, store: Pubkey, buffer: Pubkey) -> Option<TxResult> {
        let v = read_buffer(&self.svm, &buffer)?;
        let a = ExecuteAccounts {
            authority: keeper,
            store,
            timelock_config: timelock_config_address(&store),
            executor: v.executor,
            wallet: executor_wallet(&v.executor),
            rent_receiver: v.rent_receiver,
            buffer,
        };
        let mut remaining = v.instruction.accounts.clone();
        if !remaining.iter().any(|m| m.pubkey == v.instruction.program_id) && v.instruction.program_id != STORE_PID {
            remaining.push(AccountMeta::new_readonly(v.instruction.program_id, false));
        }
        Some(self.send(&[tl_execute_ix(&a, &remaining)], &[keeper]))
    }

    /// Give the store authority back to `self.admin` through a real timelocked
    /// `transfer_store_authority` (create → approve → wait `delay` → execute) followed by
    /// `accept_store_authority`. The timelock config keeps existing; afterwards `admin` can grant /
    /// revoke roles directly again.
    pub fn tl_restore_admin_authority(&mut self, store: Pubkey, t: &TimelockActors, delay: u32, label: &str) {
        let admin = self.admin;
        let buffer = key(&format!("tl-restore-buffer:{label}"));
        let inner = transfer_store_authority_ix(t.wallets[0], store, admin);
        if let Err((e, m)) = self.tl_create(t.tl_keeper, store, t.executors[0], buffer, &inner) {
            panic!("bootstrap step `restore: create` failed: {e:?} {:?}", m.logs);
        }
        if let Err((e, m)) = self.tl_approve(t.tl_admin, store, ADMIN_EXECUTOR_ROLE, buffer) {
            panic!("bootstrap step `restore: approve` failed: {e:?} {:?}", m.logs);
        }
        self.svm.warp(delay as i64);
        match self.tl_execute(t.tl_keeper, store, buffer) {
            Some(Ok(_)) => {}
            other => panic!("bootstrap step `restore: execute` failed: {:?}", other.map(|r| r.map(|_| ()).map_err(|(e, _)| e))),
        }
        self.must("accept_store_authority", &[accept_store_authority_ix(admin, store)], &[admin]);
    }
}
