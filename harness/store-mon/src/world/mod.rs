//! World builder: bootstraps a store with roles, tokens, oracle, markets in `hostsvm` through the
//! real instructions, and offers one function per user / keeper flow.
#![allow(dead_code, clippy::too_many_arguments)]

use anchor_lang::{
    prelude::*, solana_program::instruction::Instruction, system_program, InstructionData, ToAccountMetas,
};
use anchor_spl::token::spl_token;
use gmsol_store::{accounts as sa, instruction as si};
use gmsol_utils::{oracle::PriceProviderKind, role::RoleKey, token_config::UpdateTokenConfigParams};
use hostsvm::{key, token, Account, Svm, TxError, TxMeta};

pub mod competition;
pub mod exchange;
pub mod glv;
pub mod gt;
pub mod lp;
pub mod oracle;
pub mod timelock;
pub mod treasury;
pub mod user;

pub use gmsol_sdk::pda;
pub use gmsol_store::ID as STORE_PID;

pub type TxResult = std::result::Result<TxMeta, (TxError, TxMeta)>;

pub fn ix(program_id: Pubkey, accounts: impl ToAccountMetas, data: impl InstructionData) -> Instruction {
    Instruction {
        program_id,
        accounts: accounts.to_account_metas(None),
        data: data.data(),
    }
}

/// Store-program instruction.
pub fn six(accounts: impl ToAccountMetas, data: impl InstructionData) -> Instruction {
    ix(STORE_PID, accounts, data)
}

pub fn new_svm() -> Svm {
    let mut svm = Svm::new();
    token::add_spl_programs(&mut svm);
    svm.add_program(gmsol_store::ID, gmsol_store::entry);
    svm.add_program(gmsol_treasury::ID, gmsol_treasury::entry);
    svm.add_program(gmsol_timelock::ID, gmsol_timelock::entry);
    svm.add_program(gmsol_competition::ID, gmsol_competition::entry);
    svm.add_program(gmsol_liquidity_provider::ID, gmsol_liquidity_provider::entry);
    svm.add_program(gmsol_callback::ID, gmsol_callback::entry);
    svm.add_program(gmsol_mock_chainlink_verifier::ID, gmsol_mock_chainlink_verifier::entry);
    svm
}

pub const ALL_ROLES: &[&str] = &[
    RoleKey::ORACLE_CONTROLLER,
    RoleKey::GT_CONTROLLER,
    RoleKey::MARKET_KEEPER,
    RoleKey::ORDER_KEEPER,
    RoleKey::FEATURE_KEEPER,
    RoleKey::CONFIG_KEEPER,
    RoleKey::RESTART_ADMIN,
    RoleKey::PRICE_KEEPER,
    RoleKey::MIGRATION_KEEPER,
    RoleKey::MARKET_CONFIG_KEEPER,
];

#[derive(Clone, Debug)]
pub struct TokenInfo {
    pub name: String,
    pub mint: Pubkey,
    pub decimals: u8,
    pub synthetic: bool,
    /// Chainlink data-streams feed id (32 bytes, version 3 prefix).
    pub feed_id: Pubkey,
    /// Custom price-feed account (PDA of the store program).
    pub feed: Pubkey,
    pub precision: u8,
}

#[derive(Clone, Debug)]
pub struct MarketInfo {
    pub name: String,
    pub market_token: Pubkey,
    pub market: Pubkey,
    pub index: usize,
    pub long: usize,
    pub short: usize,
}

/// A successful transaction with the state it ran on (for authority-mutation replay, C19).
pub struct Traced {
    pub pre: Svm,
    pub ixs: Vec<Instruction>,
    pub signers: Vec<Pubkey>,
}

/// Bounded trace of successful transactions, keyed by the instruction discriminators they contain.
#[derive(Default)]
pub struct Trace {
    pub max_per_instruction: usize,
    pub counts: std::collections::BTreeMap<(Pubkey, [u8; 8]), usize>,
    pub items: Vec<Traced>,
}

/// Cloning a world never clones its trace.
#[derive(Default)]
pub struct TraceCell(pub Option<Box<Trace>>);

impl Clone for TraceCell {
    fn clone(&self) -> Self {
        TraceCell(None)
    }
}

#[derive(Clone)]
pub struct World {
    pub trace: TraceCell,
    pub svm: Svm,
    pub admin: Pubkey,
    /// Holds every role except RESTART_ADMIN / MARKET_CONFIG_KEEPER.
    pub keeper: Pubkey,
    pub store: Pubkey,
    pub token_map: Pubkey,
    pub oracle: Pubkey,
    pub tokens: Vec<TokenInfo>,
    pub markets: Vec<MarketInfo>,
    pub users: Vec<Pubkey>,
    pub verifier_account: Pubkey,
    pub access_controller: Pubkey,
    pub nonce: u64,
    /// Execution fee the keeper asks for in `execute_*` (≤ the action's max execution lamports).
    pub exec_fee: u64,
}

pub const LAMPORTS: u64 = 1_000_000_000;
/// 10^20: the unit of USD values and factors in the store program.
pub const UNIT: u128 = 100_000_000_000_000_000_000;

impl World {
    pub fn send(&mut self, ixs: &[Instruction], signers: &[Pubkey]) -> TxResult {
        let want = match &self.trace.0 {
            Some(t) => ixs.iter().any(|ix| {
                ix.data.len() >= 8 && {
                    let mut d = [0u8; 8];
                    d.copy_from_slice(&ix.data[..8]);
                    t.counts.get(&(ix.program_id, d)).copied().unwrap_or(0) < t.max_per_instruction
                }
            }),
            None => false,
        };
        let pre = want.then(|| self.svm.clone());
        // hostsvm turns a panic of the program under test into a failed transaction; run it inside
        // `guard` only so that the panic hook stays quiet (the message is part of the TxError).
        let r = match vcommon::monitor::guard(|| self.svm.process(ixs, signers)) {
            Ok(r) => r,
            Err(msg) => panic!("hostsvm panicked outside a program call: {msg}"),
        };
        if let (Ok(_), Some(pre), Some(t)) = (&r, pre, self.trace.0.as_mut()) {
            for ix in ixs {
                if ix.data.len() >= 8 {
                    let mut d = [0u8; 8];
                    d.copy_from_slice(&ix.data[..8]);
                    *t.counts.entry((ix.program_id, d)).or_default() += 1;
                }
            }
            t.items.push(Traced { pre, ixs: ixs.to_vec(), signers: signers.to_vec() });
        }
        r
    }

    /// Start recording successful transactions (at most `max_per_instruction` per instruction kind).
    pub fn enable_trace(&mut self, max_per_instruction: usize) {
        self.trace = TraceCell(Some(Box::new(Trace { max_per_instruction, ..Default::default() })));
    }

    pub fn take_trace(&mut self) -> Vec<Traced> {
        match self.trace.0.as_mut() {
            Some(t) => std::mem::take(&mut t.items),
            None => vec![],
        }
    }

    /// Send and panic (harness error) on failure: used only for bootstrap steps that must succeed.
    pub fn must(&mut self, what: &str, ixs: &[Instruction], signers: &[Pubkey]) -> TxMeta {
        match self.send(ixs, signers) {
            Ok(m) => m,
            Err((e, m)) => panic!("bootstrap step `{what}` failed: {e:?} (ix {:?}) logs={:?}", m.failed_ix, m.logs),
        }
    }

    pub fn next_nonce(&mut self) -> [u8; 32] {
        self.nonce += 1;
        let mut n = [0u8; 32];
        n[..8].copy_from_slice(&self.nonce.to_le_bytes());
        n[8] = 0x5a;
        n
    }

    pub fn token(&self, name: &str) -> &TokenInfo {
        self.tokens.iter().find(|t| t.name == name).expect("token")
    }

    pub fn token_idx(&self, name: &str) -> usize {
        self.tokens.iter().position(|t| t.name == name).expect("token")
    }

    pub fn event_authority(&self) -> Pubkey {
        pda::find_event_authority_address(&STORE_PID).0
    }

    pub fn vault(&self, mint: &Pubkey) -> Pubkey {
        pda::find_market_vault_address(&self.store, mint, &STORE_PID).0
    }

    /// Create the store, enable all roles, grant the keeper roles.
    pub fn bootstrap_store() -> World {
        Self::bootstrap_store_with_trace(0)
    }

    /// Same, recording the bootstrap transactions when `trace_max > 0`.
    pub fn bootstrap_store_with_trace(trace_max: usize) -> World {
        let mut svm = new_svm();
        let admin = key("admin");
        let keeper = key("keeper");
        svm.airdrop(&admin, 1_000_000 * LAMPORTS);
        svm.airdrop(&keeper, 1_000_000 * LAMPORTS);
        let store = pda::find_store_address("", &STORE_PID).0;
        let mut w = World {
            trace: TraceCell(None),
            svm,
            admin,
            keeper,
            store,
            token_map: key("token_map"),
            oracle: key("oracle"),
            tokens: vec![],
            markets: vec![],
            users: vec![],
            verifier_account: Pubkey::find_program_address(
                &[gmsol_mock_chainlink_verifier::DEFAULT_VERIFIER_ACCOUNT_SEEDS],
                &gmsol_mock_chainlink_verifier::ID,
            )
            .0,
            access_controller: Pubkey::find_program_address(
                &[gmsol_mock_chainlink_verifier::DEFAULT_ACCESS_CONTROLLER_ACCOUNT_SEEDS],
                &gmsol_mock_chainlink_verifier::ID,
            )
            .0,
            nonce: 0,
            exec_fee: exchange::EXECUTION_FEE,
        };
        if trace_max > 0 {
            w.enable_trace(trace_max);
        }
        w.must(
            "initialize",
            &[six(
                sa::Initialize {
                    payer: admin,
                    authority: None,
                    receiver: None,
                    holding: None,
                    store,
                    system_program: system_program::ID,
                },
                si::Initialize { key: String::new() },
            )],
            &[admin],
        );
        for role in ALL_ROLES {
            w.must(
                "enable_role",
                &[six(sa::EnableRole { authority: admin, store }, si::EnableRole { role: role.to_string() })],
                &[admin],
            );
        }
        for role in ALL_ROLES {
            if *role == RoleKey::RESTART_ADMIN || *role == RoleKey::MARKET_CONFIG_KEEPER {
                continue;
            }
            w.grant(&keeper, role).expect("grant");
        }
        w
    }

    pub fn grant(&mut self, user: &Pubkey, role: &str) -> TxResult {
        let (admin, store) = (self.admin, self.store);
        self.send(
            &[six(sa::GrantRole { authority: admin, store }, si::GrantRole { user: *user, role: role.to_string() })],
            &[admin],
        )
    }

    pub fn revoke(&mut self, user: &Pubkey, role: &str) -> TxResult {
        let (admin, store) = (self.admin, self.store);
        self.send(
            &[six(sa::RevokeRole { authority: admin, store }, si::RevokeRole { user: *user, role: role.to_string() })],
            &[admin],
        )
    }

    /// Token map, mock verifier, oracle, global amounts.
    pub fn bootstrap_oracle(&mut self) {
        let (keeper, store, token_map, oracle) = (self.keeper, self.store, self.token_map, self.oracle);
        self.must(
            "initialize_token_map",
            &[six(
                sa::InitializeTokenMap { payer: keeper, store, token_map, system_program: system_program::ID },
                si::InitializeTokenMap {},
            )],
            &[keeper, token_map],
        );
        self.must(
            "set_token_map",
            &[six(sa::SetTokenMap { authority: keeper, store, token_map }, si::SetTokenMap {})],
            &[keeper],
        );
        // Mock chainlink verifier: the store PDA is the allowed user.
        self.must(
            "mock verifier initialize",
            &[ix(
                gmsol_mock_chainlink_verifier::ID,
                gmsol_mock_chainlink_verifier::accounts::Initialize {
                    payer: keeper,
                    verifier_account: self.verifier_account,
                    access_controller: self.access_controller,
                    system_program: system_program::ID,
                },
                gmsol_mock_chainlink_verifier::instruction::Initialize { user: store },
            )],
            &[keeper],
        );
        // Oracle account: pre-allocated (zeroed) account owned by the store program.
        let size = 8 + std::mem::size_of::<gmsol_store::states::Oracle>();
        let lamports = self.svm.rent.minimum_balance(size);
        self.svm.set_account(oracle, Account::new(lamports, vec![0; size], STORE_PID));
        self.must(
            "initialize_oracle",
            &[six(
                sa::InitializeOracle { payer: keeper, authority: keeper, store, oracle, system_program: system_program::ID },
                si::InitializeOracle {},
            )],
            &[keeper],
        );
    }

    pub fn insert_amount(&mut self, key: &str, amount: u64) -> TxResult {
        let (keeper, store) = (self.keeper, self.store);
        self.send(
            &[six(sa::InsertConfig { authority: keeper, store }, si::InsertAmount { key: key.to_string(), amount })],
            &[keeper],
        )
    }

    pub fn insert_factor(&mut self, key: &str, factor: u128) -> TxResult {
        let (keeper, store) = (self.keeper, self.store);
        self.send(
            &[six(sa::InsertConfig { authority: keeper, store }, si::InsertFactor { key: key.to_string(), factor })],
            &[keeper],
        )
    }

    /// Add a token (real mint unless `synthetic`) with a Chainlink-data-streams custom feed.
    pub fn add_token(&mut self, name: &str, decimals: u8, precision: u8, synthetic: bool) -> usize {
        let (keeper, store, token_map) = (self.keeper, self.store, self.token_map);
        let mint = key(&format!("mint:{name}"));
        if !synthetic {
            token::set_mint(&mut self.svm, mint, Some(key("mint-authority")), decimals, 0);
        }
        let mut feed_id = hostsvm::key(&format!("feed:{name}")).to_bytes();
        feed_id[0] = 0;
        feed_id[1] = 3; // schema v3
        let feed_id = Pubkey::new_from_array(feed_id);
        let provider = PriceProviderKind::ChainlinkDataStreams;
        let builder = UpdateTokenConfigParams::default()
            .update_price_feed(&provider, feed_id, None)
            .expect("feed")
            .with_expected_provider(provider)
            .with_precision(precision);
        if synthetic {
            self.must(
                "push_to_token_map_synthetic",
                &[six(
                    sa::PushToTokenMapSynthetic { authority: keeper, store, token_map, system_program: system_program::ID },
                    si::PushToTokenMapSynthetic {
                        name: name.to_string(),
                        token: mint,
                        token_decimals: decimals,
                        builder,
                        enable: true,
                        new: true,
                    },
                )],
                &[keeper],
            );
        } else {
            self.must(
                "push_to_token_map",
                &[six(
                    sa::PushToTokenMap { authority: keeper, store, token_map, token: mint, system_program: system_program::ID },
                    si::PushToTokenMap { name: name.to_string(), builder, enable: true, new: true },
                )],
                &[keeper],
            );
        }
        let index = 0u16;
        let feed = pda::find_price_feed_address(&store, &keeper, index, provider, &mint, &STORE_PID).0;
        self.must(
            "initialize_price_feed",
            &[six(
                sa::InitializePriceFeed { authority: keeper, store, price_feed: feed, system_program: system_program::ID },
                si::InitializePriceFeed { index, provider: provider as u8, token: mint, feed_id },
            )],
            &[keeper],
        );
        self.tokens.push(TokenInfo { name: name.to_string(), mint, decimals, synthetic, feed_id, feed, precision });
        self.tokens.len() - 1
    }

    /// Create market vaults (if needed) and the market.
    pub fn add_market(&mut self, index: usize, long: usize, short: usize) -> usize {
        let (keeper, store, token_map) = (self.keeper, self.store, self.token_map);
        let (it, lt, st) = (self.tokens[index].clone(), self.tokens[long].clone(), self.tokens[short].clone());
        for t in [&lt, &st] {
            let vault = self.vault(&t.mint);
            if self.svm.get(&vault).is_none() {
                self.must(
                    "initialize_market_vault",
                    &[six(
                        sa::InitializeMarketVault {
                            authority: keeper,
                            store,
                            mint: t.mint,
                            vault,
                            system_program: system_program::ID,
                            token_program: spl_token::ID,
                        },
                        si::InitializeMarketVault {},
                    )],
                    &[keeper],
                );
            }
        }
        let market_token = pda::find_market_token_address(&store, &it.mint, &lt.mint, &st.mint, &STORE_PID).0;
        let market = pda::find_market_address(&store, &market_token, &STORE_PID).0;
        let name = format!("{}/USD[{}-{}]", it.name, lt.name, st.name);
        self.must(
            "initialize_market",
            &[six(
                sa::InitializeMarket {
                    authority: keeper,
                    store,
                    market_token_mint: market_token,
                    long_token_mint: lt.mint,
                    short_token_mint: st.mint,
                    market,
                    token_map,
                    long_token_vault: self.vault(&lt.mint),
                    short_token_vault: self.vault(&st.mint),
                    system_program: system_program::ID,
                    token_program: spl_token::ID,
                },
                si::InitializeMarket { index_token_mint: it.mint, name: name.clone(), enable: true },
            )],
            &[keeper],
        );
        // Vault for market tokens (withdrawals / shifts burn from it).
        let vault = self.vault(&market_token);
        self.must(
            "initialize_market_vault(market token)",
            &[six(
                sa::InitializeMarketVault {
                    authority: keeper,
                    store,
                    mint: market_token,
                    vault,
                    system_program: system_program::ID,
                    token_program: spl_token::ID,
                },
                si::InitializeMarketVault {},
            )],
            &[keeper],
        );
        self.markets.push(MarketInfo { name, market_token, market, index, long, short });
        self.markets.len() - 1
    }
}


pub fn smoke() -> i32 {
    let mut w = World::bootstrap_store();
    w.svm.keep_logs = true;
    w.bootstrap_oracle();
    let btc = w.add_token("BTC", 8, 2, true);
    let sol = w.add_token("SOL", 9, 4, false);
    let usdc = w.add_token("USDC", 6, 6, false);
    let m0 = w.add_market(btc, sol, usdc);
    let _m1 = w.add_market(sol, sol, usdc);
    let _m2 = w.add_market(sol, sol, sol);
    let e18 = 1_000_000_000_000_000_000u128;
    println!("{:?}", w.set_price(btc, 59_990 * e18, 60_000 * e18, 60_010 * e18).map(|_| ()));
    println!("{:?}", w.set_price(sol, 149 * e18, 150 * e18, 151 * e18).map(|_| ()));
    println!("{:?}", w.set_price(usdc, e18, e18, e18).map(|_| ()));
    let alice = w.add_user("alice");
    let (sol_mint, usdc_mint) = (w.tokens[sol].mint, w.tokens[usdc].mint);
    token::fund_ata(&mut w.svm, &alice, &sol_mint, 1_000_000_000_000);
    token::fund_ata(&mut w.svm, &alice, &usdc_mint, 1_000_000_000_000);
    let d = w.create_deposit(alice, m0, 10_000_000_000, 1_500_000_000, None, None, &[], &[], 0);
    println!("create_deposit: {:?}", d.as_ref().map_err(|(e, _)| e));
    if let Ok(d) = d {
        let r = w.execute_deposit(d, true);
        println!("execute_deposit: {:?}", r.map(|m| m.events.len()).map_err(|(e, _)| e));
        let mt = w.markets[m0].market_token;
        println!("market token escrow: {:?}", token::token_amount(&w.svm, &token::ata(&d, &mt)));
        println!("close_deposit: {:?}", w.close_deposit(alice, d).map(|_| ()).map_err(|(e, _)| e));
        println!("alice market tokens: {:?}", token::token_amount(&w.svm, &token::ata(&alice, &mt)));
    }
    // withdrawal
    let wd = w.create_withdrawal(alice, m0, 1_000_000_000, None, None, &[], &[], 0, 0);
    println!("create_withdrawal: {:?}", wd.as_ref().map_err(|(e, _)| e));
    if let Ok(wd) = wd {
        println!("execute_withdrawal: {:?}", w.execute_withdrawal(wd, true).map(|m| m.events.len()).map_err(|(e, _)| e));
        println!("close_withdrawal: {:?}", w.close_withdrawal(alice, wd).map(|_| ()).map_err(|(e, _)| e));
    }
    // increase
    use exchange::{OrderKind, OrderReq};
    let mut req = OrderReq::new(OrderKind::MarketIncrease, m0, true, false);
    req.initial_collateral_delta_amount = 100_000_000; // 100 USDC
    req.size_delta_value = 500 * UNIT;
    let o = w.create_order(alice, &req);
    println!("create_order(increase): {:?}", o.as_ref().map_err(|(e, _)| e));
    if let Ok(o) = o {
        println!("execute_order: {:?}", w.execute_order(o, true).map(|m| m.events.len()).map_err(|(e, _)| e));
        println!("close_order: {:?}", w.close_order(alice, o).map(|_| ()).map_err(|(e, _)| e));
    }
    let mut req = OrderReq::new(OrderKind::MarketDecrease, m0, true, false);
    req.size_delta_value = 200 * UNIT;
    let o = w.create_order(alice, &req);
    println!("create_order(decrease): {:?}", o.as_ref().map_err(|(e, _)| e));
    if let Ok(o) = o {
        println!("execute_order: {:?}", w.execute_order(o, true).map(|m| m.events.len()).map_err(|(e, _)| e));
        println!("close_order: {:?}", w.close_order(alice, o).map(|_| ()).map_err(|(e, _)| e));
    }
    let mut req = OrderReq::new(OrderKind::MarketSwap, m0, true, false);
    req.initial_collateral_token = Some(sol_mint);
    req.initial_collateral_delta_amount = 1_000_000_000;
    req.swap_path = vec![w.markets[m0].market_token];
    let o = w.create_order(alice, &req);
    println!("create_order(swap): {:?}", o.as_ref().map_err(|(e, _)| e));
    if let Ok(o) = o {
        println!("execute_order: {:?}", w.execute_order(o, true).map(|m| m.events.len()).map_err(|(e, _)| e));
        println!("close_order: {:?}", w.close_order(alice, o).map(|_| ()).map_err(|(e, _)| e));
    }
    println!("alice usdc {:?} sol {:?}", token::token_amount(&w.svm, &token::ata(&alice, &usdc_mint)), token::token_amount(&w.svm, &token::ata(&alice, &sol_mint)));
    0
}
