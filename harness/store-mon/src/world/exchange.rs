//! User / keeper exchange flows: deposits, withdrawals, shifts, orders.
use super::*;
use anchor_spl::associated_token;
use gmsol_store::ops::deposit::CreateDepositParams;

pub const EXECUTION_FEE: u64 = 5_000_000;

pub fn load<T: anchor_lang::ZeroCopy + anchor_lang::Owner + Copy>(svm: &Svm, key: &Pubkey) -> Option<T> {
    let a = svm.get(key)?;
    if a.data.len() < 8 + std::mem::size_of::<T>() || a.data[..8] != *T::DISCRIMINATOR {
        return None;
    }
    // Unaligned-safe copy.
    Some(bytemuck::pod_read_unaligned(&a.data[8..8 + std::mem::size_of::<T>()]))
}

impl World {
    pub fn add_user(&mut self, label: &str) -> Pubkey {
        let u = key(&format!("user:{label}"));
        self.svm.airdrop(&u, 1_000 * LAMPORTS);
        self.users.push(u);
        u
    }

    pub fn prepare_ata_ix(&self, payer: Pubkey, owner: Pubkey, mint: Pubkey) -> Instruction {
        six(
            sa::PrepareAssociatedTokenAccount {
                payer,
                owner,
                mint,
                account: token::ata(&owner, &mint),
                system_program: system_program::ID,
                token_program: spl_token::ID,
                associated_token_program: associated_token::ID,
            },
            si::PrepareAssociatedTokenAccount {},
        )
    }

    pub fn market_metas(&self, market_tokens: &[Pubkey], first_writable_only: bool) -> Vec<AccountMeta> {
        market_tokens
            .iter()
            .enumerate()
            .map(|(i, mt)| AccountMeta {
                pubkey: pda::find_market_address(&self.store, mt, &STORE_PID).0,
                is_signer: false,
                is_writable: !first_writable_only || i == 0,
            })
            .collect()
    }

    /// `create_deposit`; returns the deposit address.
    pub fn create_deposit(
        &mut self,
        owner: Pubkey,
        market: usize,
        long_amount: u64,
        short_amount: u64,
        long_token: Option<Pubkey>,
        short_token: Option<Pubkey>,
        long_swap_path: &[Pubkey],
        short_swap_path: &[Pubkey],
        min_market_token: u64,
    ) -> std::result::Result<Pubkey, (TxError, TxMeta)> {
        let m = self.markets[market].clone();
        let store = self.store;
        let nonce = self.next_nonce();
        let deposit = pda::find_deposit_address(&store, &owner, &nonce, &STORE_PID).0;
        let long_token = if long_amount != 0 { Some(long_token.unwrap_or(self.tokens[m.long].mint)) } else { long_token };
        let short_token = if short_amount != 0 { Some(short_token.unwrap_or(self.tokens[m.short].mint)) } else { short_token };
        let mut ixs = vec![self.prepare_ata_ix(owner, deposit, m.market_token), self.prepare_ata_ix(owner, owner, m.market_token)];
        for t in long_token.iter().chain(short_token.iter()) {
            ixs.push(self.prepare_ata_ix(owner, deposit, *t));
        }
        let mut create = six(
            sa::CreateDeposit {
                owner,
                receiver: owner,
                store,
                market: m.market,
                deposit,
                market_token: m.market_token,
                initial_long_token: long_token,
                initial_short_token: short_token,
                market_token_escrow: token::ata(&deposit, &m.market_token),
                initial_long_token_escrow: long_token.map(|t| token::ata(&deposit, &t)),
                initial_short_token_escrow: short_token.map(|t| token::ata(&deposit, &t)),
                market_token_ata: token::ata(&owner, &m.market_token),
                initial_long_token_source: long_token.map(|t| token::ata(&owner, &t)),
                initial_short_token_source: short_token.map(|t| token::ata(&owner, &t)),
                system_program: system_program::ID,
                token_program: spl_token::ID,
                associated_token_program: associated_token::ID,
            },
            si::CreateDeposit {
                nonce,
                params: CreateDepositParams {
                    execution_lamports: EXECUTION_FEE,
                    long_token_swap_length: long_swap_path.len() as u8,
                    short_token_swap_length: short_swap_path.len() as u8,
                    initial_long_token_amount: long_amount,
                    initial_short_token_amount: short_amount,
                    min_market_token_amount: min_market_token,
                    should_unwrap_native_token: false,
                },
            },
        );
        create.accounts.extend(self.market_metas(long_swap_path, true));
        create.accounts.extend(self.market_metas(short_swap_path, true));
        ixs.push(create);
        self.send(&ixs, &[owner]).map(|_| deposit)
    }

    pub fn execute_deposit_ix(&self, executor: Pubkey, deposit: Pubkey, throw_on_execution_error: bool) -> Option<Instruction> {
        let d: gmsol_store::states::Deposit = load(&self.svm, &deposit)?;
        let tokens = d.tokens();
        let market_token = tokens.market_token();
        let long_token = tokens.initial_long_token.token();
        let short_token = tokens.initial_short_token.token();
        let mut ix = six(
            sa::ExecuteDeposit {
                authority: executor,
                store: self.store,
                token_map: self.token_map,
                oracle: self.oracle,
                market: pda::find_market_address(&self.store, &market_token, &STORE_PID).0,
                deposit,
                market_token,
                initial_long_token: long_token,
                initial_short_token: short_token,
                market_token_escrow: token::ata(&deposit, &market_token),
                initial_long_token_escrow: long_token.map(|t| token::ata(&deposit, &t)),
                initial_short_token_escrow: short_token.map(|t| token::ata(&deposit, &t)),
                initial_long_token_vault: long_token.map(|t| self.vault(&t)),
                initial_short_token_vault: short_token.map(|t| self.vault(&t)),
                token_program: spl_token::ID,
                system_program: system_program::ID,
                chainlink_program: None,
                event_authority: self.event_authority(),
                program: STORE_PID,
            },
            si::ExecuteDeposit { execution_fee: EXECUTION_FEE, throw_on_execution_error },
        );
        ix.accounts.extend(self.feed_metas(d.swap().tokens()));
        let others: Vec<Pubkey> = d.swap().unique_market_tokens_excluding_current(&market_token).copied().collect();
        ix.accounts.extend(self.market_metas(&others, false));
        Some(ix)
    }

    pub fn execute_deposit(&mut self, deposit: Pubkey, throw_on_execution_error: bool) -> TxResult {
        let keeper = self.keeper;
        let Some(ix) = self.execute_deposit_ix(keeper, deposit, throw_on_execution_error) else {
            return Err((TxError::Runtime("harness: deposit account not found".into()), TxMeta::default()));
        };
        self.send(&[ix], &[keeper])
    }
}
