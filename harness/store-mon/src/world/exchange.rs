//! User / keeper exchange flows: deposits, withdrawals, shifts, orders.
use super::*;
use anchor_spl::associated_token;
use gmsol_store::ops::deposit::CreateDepositParams;

pub const EXECUTION_FEE: u64 = 5_000_000;

pub fn load<T: anchor_lang::ZeroCopy + anchor_lang::Owner + Copy>(svm: &Svm, key: &Pubkey) -> Option<T> {
    let a = svm.get(key)?;
    if a.data.len() < 8 + std::mem::size_of::<T>() || a.data[..8] != *T::DISCRIMINATOR {
        return None;
    }
    // Unaligned-safe copy.
    Some(bytemuck::pod_read_unaligned(&a.data[8..8 + std::mem::size_of::<T>()]))
}

impl World {
    pub fn add_user(&mut self, label: &str) -> Pubkey {
        let u = key(&format!("user:{label}"));
        self.svm.airdrop(&u, 1_000 * LAMPORTS);
        self.users.push(u);
        u
    }

    pub fn prepare_ata_ix(&self, payer: Pubkey, owner: Pubkey, mint: Pubkey) -> Instruction {
        six(
            sa::PrepareAssociatedTokenAccount {
                payer,
                owner,
                mint,
                account: token::ata(&owner, &mint),
                system_program: system_program::ID,
                token_program: spl_token::ID,
                associated_token_program: associated_token::ID,
            },
            si::PrepareAssociatedTokenAccount {},
        )
    }

    pub fn market_metas(&self, market_tokens: &[Pubkey], first_writable_only: bool) -> Vec<AccountMeta> {
        market_tokens
            .iter()
            .enumerate()
            .map(|(i, mt)| AccountMeta {
                pubkey: pda::find_market_address(&self.store, mt, &STORE_PID).0,
                is_signer: false,
                is_writable: !first_writable_only || i == 0,
            })
            .collect()
    }

    /// `create_deposit`; returns the deposit address.
    pub fn create_deposit(
        &mut self,
        owner: Pubkey,
        market: usize,
        long_amount: u64,
        short_amount: u64,
        long_token: Option<Pubkey>,
        short_token: Option<Pubkey>,
        long_swap_path: &[Pubkey],
        short_swap_path: &[Pubkey],
        min_market_token: u64,
    ) -> std::result::Result<Pubkey, (TxError, TxMeta)> {
        let m = self.markets[market].clone();
        let store = self.store;
        let nonce = self.next_nonce();
        let deposit = pda::find_deposit_address(&store, &owner, &nonce, &STORE_PID).0;
        let long_token = if long_amount != 0 { Some(long_token.unwrap_or(self.tokens[m.long].mint)) } else { long_token };
        let short_token = if short_amount != 0 { Some(short_token.unwrap_or(self.tokens[m.short].mint)) } else { short_token };
        let mut ixs = vec![self.prepare_ata_ix(owner, deposit, m.market_token), self.prepare_ata_ix(owner, owner, m.market_token)];
        for t in long_token.iter().chain(short_token.iter()) {
            ixs.push(self.prepare_ata_ix(owner, deposit, *t));
        }
        let mut create = six(
            sa::CreateDeposit {
                owner,
                receiver: owner,
                store,
                market: m.market,
                deposit,
                market_token: m.market_token,
                initial_long_token: long_token,
                initial_short_token: short_token,
                market_token_escrow: token::ata(&deposit, &m.market_token),
                initial_long_token_escrow: long_token.map(|t| token::ata(&deposit, &t)),
                initial_short_token_escrow: short_token.map(|t| token::ata(&deposit, &t)),
                market_token_ata: token::ata(&owner, &m.market_token),
                initial_long_token_source: long_token.map(|t| token::ata(&owner, &t)),
                initial_short_token_source: short_token.map(|t| token::ata(&owner, &t)),
                system_program: system_program::ID,
                token_program: spl_token::ID,
                associated_token_program: associated_token::ID,
            },
            si::CreateDeposit {
                nonce,
                params: CreateDepositParams {
                    execution_lamports: EXECUTION_FEE,
                    long_token_swap_length: long_swap_path.len() as u8,
                    short_token_swap_length: short_swap_path.len() as u8,
                    initial_long_token_amount: long_amount,
                    initial_short_token_amount: short_amount,
                    min_market_token_amount: min_market_token,
                    should_unwrap_native_token: false,
                },
            },
        );
        create.accounts.extend(self.market_metas(long_swap_path, true));
        create.accounts.extend(self.market_metas(short_swap_path, true));
        ixs.push(create);
        self.send(&ixs, &[owner]).map(|_| deposit)
    }

    pub fn execute_deposit_ix(&self, executor: Pubkey, deposit: Pubkey, throw_on_execution_error: bool) -> Option<Instruction> {
        let d: gmsol_store::states::Deposit = load(&self.svm, &deposit)?;
        let tokens = d.tokens();
        let market_token = tokens.market_token();
        let long_token = tokens.initial_long_token.token();
        let short_token = tokens.initial_short_token.token();
        let mut ix = six(
            sa::ExecuteDeposit {
                authority: executor,
                store: self.store,
                token_map: self.token_map,
                oracle: self.oracle,
                market: pda::find_market_address(&self.store, &market_token, &STORE_PID).0,
                deposit,
                market_token,
                initial_long_token: long_token,
                initial_short_token: short_token,
                market_token_escrow: token::ata(&deposit, &market_token),
                initial_long_token_escrow: long_token.map(|t| token::ata(&deposit, &t)),
                initial_short_token_escrow: short_token.map(|t| token::ata(&deposit, &t)),
                initial_long_token_vault: long_token.map(|t| self.vault(&t)),
                initial_short_token_vault: short_token.map(|t| self.vault(&t)),
                token_program: spl_token::ID,
                system_program: system_program::ID,
                chainlink_program: None,
                event_authority: self.event_authority(),
                program: STORE_PID,
            },
            si::ExecuteDeposit { execution_fee: self.exec_fee, throw_on_execution_error },
        );
        ix.accounts.extend(self.feed_metas(d.swap().tokens()));
        let others: Vec<Pubkey> = d.swap().unique_market_tokens_excluding_current(&market_token).copied().collect();
        ix.accounts.extend(self.market_metas(&others, false));
        Some(ix)
    }

    pub fn execute_deposit(&mut self, deposit: Pubkey, throw_on_execution_error: bool) -> TxResult {
        let keeper = self.keeper;
        let Some(ix) = self.execute_deposit_ix(keeper, deposit, throw_on_execution_error) else {
            return Err((TxError::Runtime("harness: deposit account not found".into()), TxMeta::default()));
        };
        self.send(&[ix], &[keeper])
    }
}

// ------------------------------------------------------------------------------------------------
// Close deposit / withdrawals

use gmsol_store::{
    ops::{order::CreateOrderParams, withdrawal::CreateWithdrawalParams},
    states::{common::action::Action, Deposit, Order, Position, Withdrawal},
};
pub use gmsol_utils::order::OrderKind;

fn harness_err(msg: &str) -> (TxError, TxMeta) {
    (TxError::Runtime(format!("harness: {msg}")), TxMeta::default())
}

impl World {
    pub fn store_wallet(&self) -> Pubkey {
        pda::find_store_wallet_address(&self.store, &STORE_PID).0
    }

    pub fn close_deposit_ix(&self, executor: Pubkey, deposit: Pubkey) -> Option<Instruction> {
        let d: Deposit = load(&self.svm, &deposit)?;
        let owner = *d.header().owner();
        let receiver = d.header().receiver();
        let t = d.tokens();
        let market_token = t.market_token();
        let lt = t.initial_long_token.token();
        let st = t.initial_short_token.token();
        Some(six(
            sa::CloseDeposit {
                executor,
                store: self.store,
                store_wallet: self.store_wallet(),
                owner,
                receiver,
                market_token,
                initial_long_token: lt,
                initial_short_token: st,
                deposit,
                market_token_escrow: token::ata(&deposit, &market_token),
                initial_long_token_escrow: lt.map(|t| token::ata(&deposit, &t)),
                initial_short_token_escrow: st.map(|t| token::ata(&deposit, &t)),
                market_token_ata: token::ata(&receiver, &market_token),
                initial_long_token_ata: lt.map(|t| token::ata(&owner, &t)),
                initial_short_token_ata: st.map(|t| token::ata(&owner, &t)),
                associated_token_program: associated_token::ID,
                token_program: spl_token::ID,
                system_program: system_program::ID,
                event_authority: self.event_authority(),
                program: STORE_PID,
            },
            si::CloseDeposit { reason: "test".into() },
        ))
    }

    pub fn close_deposit(&mut self, executor: Pubkey, deposit: Pubkey) -> TxResult {
        let Some(ix) = self.close_deposit_ix(executor, deposit) else {
            return Err(harness_err("deposit not found"));
        };
        self.send(&[ix], &[executor])
    }

    pub fn create_withdrawal(
        &mut self,
        owner: Pubkey,
        market: usize,
        amount: u64,
        final_long_token: Option<Pubkey>,
        final_short_token: Option<Pubkey>,
        long_swap_path: &[Pubkey],
        short_swap_path: &[Pubkey],
        min_long: u64,
        min_short: u64,
    ) -> std::result::Result<Pubkey, (TxError, TxMeta)> {
        let m = self.markets[market].clone();
        let store = self.store;
        let nonce = self.next_nonce();
        let withdrawal = pda::find_withdrawal_address(&store, &owner, &nonce, &STORE_PID).0;
        let lt = final_long_token.unwrap_or(self.tokens[m.long].mint);
        let st = final_short_token.unwrap_or(self.tokens[m.short].mint);
        let mut ixs = vec![self.prepare_ata_ix(owner, withdrawal, m.market_token)];
        for t in [lt, st] {
            ixs.push(self.prepare_ata_ix(owner, withdrawal, t));
            ixs.push(self.prepare_ata_ix(owner, owner, t));
        }
        let mut create = six(
            sa::CreateWithdrawal {
                owner,
                receiver: owner,
                store,
                market: m.market,
                withdrawal,
                market_token: m.market_token,
                final_long_token: lt,
                final_short_token: st,
                market_token_escrow: token::ata(&withdrawal, &m.market_token),
                final_long_token_escrow: token::ata(&withdrawal, &lt),
                final_short_token_escrow: token::ata(&withdrawal, &st),
                market_token_source: token::ata(&owner, &m.market_token),
                system_program: system_program::ID,
                token_program: spl_token::ID,
                associated_token_program: associated_token::ID,
            },
            si::CreateWithdrawal {
                nonce,
                params: CreateWithdrawalParams {
                    execution_lamports: EXECUTION_FEE,
                    long_token_swap_path_length: long_swap_path.len() as u8,
                    short_token_swap_path_length: short_swap_path.len() as u8,
                    market_token_amount: amount,
                    min_long_token_amount: min_long,
                    min_short_token_amount: min_short,
                    should_unwrap_native_token: false,
                },
            },
        );
        let mut path = long_swap_path.to_vec();
        path.extend_from_slice(short_swap_path);
        let mut metas = self.market_metas(&path, false);
        metas.iter_mut().for_each(|m| m.is_writable = false);
        create.accounts.extend(metas);
        ixs.push(create);
        self.send(&ixs, &[owner]).map(|_| withdrawal)
    }

    pub fn execute_withdrawal_ix(&self, executor: Pubkey, withdrawal: Pubkey, throw_on_execution_error: bool) -> Option<Instruction> {
        let w: Withdrawal = load(&self.svm, &withdrawal)?;
        let t = w.tokens();
        let market_token = t.market_token();
        let lt = t.final_long_token();
        let st = t.final_short_token();
        let mut ix = six(
            sa::ExecuteWithdrawal {
                authority: executor,
                store: self.store,
                token_map: self.token_map,
                oracle: self.oracle,
                market: pda::find_market_address(&self.store, &market_token, &STORE_PID).0,
                withdrawal,
                market_token,
                final_long_token: lt,
                final_short_token: st,
                market_token_escrow: token::ata(&withdrawal, &market_token),
                final_long_token_escrow: token::ata(&withdrawal, &lt),
                final_short_token_escrow: token::ata(&withdrawal, &st),
                market_token_vault: self.vault(&market_token),
                final_long_token_vault: self.vault(&lt),
                final_short_token_vault: self.vault(&st),
                token_program: spl_token::ID,
                system_program: system_program::ID,
                chainlink_program: None,
                event_authority: self.event_authority(),
                program: STORE_PID,
            },
            si::ExecuteWithdrawal { execution_fee: self.exec_fee, throw_on_execution_error },
        );
        ix.accounts.extend(self.feed_metas(w.swap().tokens()));
        let others: Vec<Pubkey> = w.swap().unique_market_tokens_excluding_current(&market_token).copied().collect();
        ix.accounts.extend(self.market_metas(&others, false));
        Some(ix)
    }

    pub fn execute_withdrawal(&mut self, withdrawal: Pubkey, throw_on_execution_error: bool) -> TxResult {
        let keeper = self.keeper;
        let Some(ix) = self.execute_withdrawal_ix(keeper, withdrawal, throw_on_execution_error) else {
            return Err(harness_err("withdrawal not found"));
        };
        self.send(&[ix], &[keeper])
    }

    pub fn close_withdrawal_ix(&self, executor: Pubkey, withdrawal: Pubkey) -> Option<Instruction> {
        let w: Withdrawal = load(&self.svm, &withdrawal)?;
        let owner = *w.header().owner();
        let receiver = w.header().receiver();
        let t = w.tokens();
        let market_token = t.market_token();
        let lt = t.final_long_token();
        let st = t.final_short_token();
        Some(six(
            sa::CloseWithdrawal {
                executor,
                store: self.store,
                store_wallet: self.store_wallet(),
                owner,
                receiver,
                market_token,
                final_long_token: lt,
                final_short_token: st,
                withdrawal,
                market_token_escrow: token::ata(&withdrawal, &market_token),
                final_long_token_escrow: token::ata(&withdrawal, &lt),
                final_short_token_escrow: token::ata(&withdrawal, &st),
                market_token_ata: token::ata(&owner, &market_token),
                final_long_token_ata: token::ata(&receiver, &lt),
                final_short_token_ata: token::ata(&receiver, &st),
                associated_token_program: associated_token::ID,
                token_program: spl_token::ID,
                system_program: system_program::ID,
                event_authority: self.event_authority(),
                program: STORE_PID,
            },
            si::CloseWithdrawal { reason: "test".into() },
        ))
    }

    pub fn close_withdrawal(&mut self, executor: Pubkey, withdrawal: Pubkey) -> TxResult {
        let Some(ix) = self.close_withdrawal_ix(executor, withdrawal) else {
            return Err(harness_err("withdrawal not found"));
        };
        self.send(&[ix], &[executor])
    }
}

// ------------------------------------------------------------------------------------------------
// Orders

#[derive(Clone, Debug)]
pub struct OrderReq {
    pub kind: OrderKind,
    pub market: usize,
    pub is_long: bool,
    /// Collateral token (position orders) or output token (swap orders) is the market's long token.
    pub is_collateral_long: bool,
    /// Pay-in token (increase / swap); defaults to the collateral token.
    pub initial_collateral_token: Option<Pubkey>,
    pub initial_collateral_delta_amount: u64,
    pub size_delta_value: u128,
    pub swap_path: Vec<Pubkey>,
    pub min_output: u128,
    pub trigger_price: Option<u128>,
    pub acceptable_price: Option<u128>,
    /// Decrease: final output token (defaults to the collateral token).
    pub final_output_token: Option<Pubkey>,
    pub valid_from_ts: Option<i64>,
    /// Receiver of the order's outputs (defaults to the owner).
    pub receiver: Option<Pubkey>,
    /// Decrease: how pnl / collateral outputs are merged before the receive-token swap (None = program default).
    pub decrease_swap: Option<gmsol_model::action::decrease_position::DecreasePositionSwapType>,
}

impl OrderReq {
    pub fn new(kind: OrderKind, market: usize, is_long: bool, is_collateral_long: bool) -> Self {
        Self {
            kind,
            market,
            is_long,
            is_collateral_long,
            initial_collateral_token: None,
            initial_collateral_delta_amount: 0,
            size_delta_value: 0,
            swap_path: vec![],
            min_output: 0,
            trigger_price: None,
            acceptable_price: None,
            final_output_token: None,
            valid_from_ts: None,
            receiver: None,
            decrease_swap: None,
        }
    }
}

impl World {
    pub fn user_pda(&self, owner: &Pubkey) -> Pubkey {
        pda::find_user_address(&self.store, owner, &STORE_PID).0
    }

    pub fn position_pda(&self, owner: &Pubkey, market: usize, is_long: bool, is_collateral_long: bool) -> Pubkey {
        let m = &self.markets[market];
        let collateral = if is_collateral_long { self.tokens[m.long].mint } else { self.tokens[m.short].mint };
        pda::find_position_address(&self.store, owner, &m.market_token, &collateral, is_long, &STORE_PID).0
    }

    pub fn prepare_user_ix(&self, owner: Pubkey) -> Instruction {
        six(
            sa::PrepareUser { owner, store: self.store, user: self.user_pda(&owner), system_program: system_program::ID },
            si::PrepareUser {},
        )
    }

    pub fn order_params(&self, req: &OrderReq) -> CreateOrderParams {
        CreateOrderParams {
            kind: req.kind,
            decrease_position_swap_type: req.decrease_swap,
            execution_lamports: EXECUTION_FEE,
            swap_path_length: req.swap_path.len() as u8,
            initial_collateral_delta_amount: req.initial_collateral_delta_amount,
            size_delta_value: req.size_delta_value,
            is_long: req.is_long,
            is_collateral_long: req.is_collateral_long,
            min_output: Some(req.min_output),
            trigger_price: req.trigger_price,
            acceptable_price: req.acceptable_price,
            should_unwrap_native_token: false,
            valid_from_ts: req.valid_from_ts,
        }
    }

    /// `create_order_v2` (+ the preparation instructions); returns the order address.
    pub fn create_order(&mut self, owner: Pubkey, req: &OrderReq) -> std::result::Result<Pubkey, (TxError, TxMeta)> {
        let m = self.markets[req.market].clone();
        let store = self.store;
        let nonce = self.next_nonce();
        let order = pda::find_order_address(&store, &owner, &nonce, &STORE_PID).0;
        let (long_mint, short_mint) = (self.tokens[m.long].mint, self.tokens[m.short].mint);
        let collateral = if req.is_collateral_long { long_mint } else { short_mint };
        let is_swap = matches!(req.kind, OrderKind::MarketSwap | OrderKind::LimitSwap);
        let is_increase = matches!(req.kind, OrderKind::MarketIncrease | OrderKind::LimitIncrease);
        let is_decrease = matches!(req.kind, OrderKind::MarketDecrease | OrderKind::LimitDecrease | OrderKind::StopLossDecrease);
        let params = self.order_params(req);
        let initial_collateral_token = if is_swap || is_increase { Some(req.initial_collateral_token.unwrap_or(collateral)) } else { None };
        let final_output_token = if is_decrease {
            Some(req.final_output_token.unwrap_or(collateral))
        } else if is_swap {
            Some(collateral)
        } else {
            None
        };
        let (long_token, short_token) = if is_swap { (None, None) } else { (Some(long_mint), Some(short_mint)) };
        let position = (!is_swap).then(|| self.position_pda(&owner, req.market, req.is_long, req.is_collateral_long));
        let mut ixs = vec![self.prepare_user_ix(owner)];
        let mut escrow_tokens: Vec<Pubkey> = vec![];
        for t in initial_collateral_token.iter().chain(final_output_token.iter()).chain(long_token.iter()).chain(short_token.iter()) {
            if !escrow_tokens.contains(t) {
                escrow_tokens.push(*t);
            }
        }
        for t in &escrow_tokens {
            ixs.push(self.prepare_ata_ix(owner, order, *t));
        }
        let receiver = req.receiver.unwrap_or(owner);
        for t in final_output_token.iter().chain(long_token.iter()).chain(short_token.iter()) {
            ixs.push(self.prepare_ata_ix(owner, owner, *t));
            if receiver != owner {
                ixs.push(self.prepare_ata_ix(owner, receiver, *t));
            }
        }
        if is_increase {
            ixs.push(six(
                sa::PreparePosition {
                    owner,
                    store,
                    market: m.market,
                    position: position.unwrap(),
                    system_program: system_program::ID,
                },
                si::PreparePosition { params: params.clone() },
            ));
        }
        let mut create = six(
            sa::CreateOrderV2 {
                owner,
                receiver,
                store,
                market: m.market,
                user: self.user_pda(&owner),
                order,
                position,
                initial_collateral_token,
                final_output_token: final_output_token.unwrap_or(collateral),
                long_token,
                short_token,
                initial_collateral_token_escrow: initial_collateral_token.map(|t| token::ata(&order, &t)),
                final_output_token_escrow: final_output_token.map(|t| token::ata(&order, &t)),
                long_token_escrow: long_token.map(|t| token::ata(&order, &t)),
                short_token_escrow: short_token.map(|t| token::ata(&order, &t)),
                initial_collateral_token_source: initial_collateral_token.map(|t| token::ata(&owner, &t)),
                system_program: system_program::ID,
                token_program: spl_token::ID,
                associated_token_program: associated_token::ID,
                callback_authority: None,
                callback_program: None,
                callback_shared_data_account: None,
                callback_partitioned_data_account: None,
                event_authority: self.event_authority(),
                program: STORE_PID,
            },
            si::CreateOrderV2 { nonce, params, callback_version: None },
        );
        let mut metas = self.market_metas(&req.swap_path, false);
        metas.iter_mut().for_each(|m| m.is_writable = false);
        create.accounts.extend(metas);
        ixs.push(create);
        self.send(&ixs, &[owner]).map(|_| order)
    }

    pub fn claimable_pda(&self, mint: &Pubkey, user: &Pubkey, ts: i64) -> Pubkey {
        let store: gmsol_store::states::Store = load(&self.svm, &self.store).expect("store");
        let key = store.claimable_time_key(ts).expect("time key");
        pda::find_claimable_account_address(&self.store, mint, user, &key, &STORE_PID).0
    }

    pub fn holding(&self) -> Pubkey {
        let store: gmsol_store::states::Store = load(&self.svm, &self.store).expect("store");
        *store.holding()
    }

    pub fn event_buffer(&self, authority: &Pubkey, index: u16) -> Pubkey {
        pda::find_trade_event_buffer_address(&self.store, authority, index, &STORE_PID).0
    }

    pub fn prepare_event_buffer_ix(&self, authority: Pubkey, index: u16) -> Instruction {
        six(
            sa::PrepareTradeEventBuffer {
                authority,
                store: self.store,
                event: self.event_buffer(&authority, index),
                system_program: system_program::ID,
            },
            si::PrepareTradeEventBuffer { index },
        )
    }

    pub fn use_claimable_ix(&self, authority: Pubkey, mint: Pubkey, owner: Pubkey, ts: i64, amount: u64) -> Instruction {
        six(
            sa::UseClaimableAccount {
                authority,
                store: self.store,
                mint,
                owner,
                account: self.claimable_pda(&mint, &owner, ts),
                system_program: system_program::ID,
                token_program: spl_token::ID,
            },
            si::UseClaimableAccount { timestamp: ts, amount },
        )
    }

    /// Instructions executing an order (event buffer / claimable preparation included).
    pub fn execute_order_ixs(&self, executor: Pubkey, order: Pubkey, throw_on_execution_error: bool) -> Option<Vec<Instruction>> {
        let o: Order = load(&self.svm, &order)?;
        let kind = o.params().kind().ok()?;
        let owner = *o.header().owner();
        let market_token = *o.market_token();
        let market = pda::find_market_address(&self.store, &market_token, &STORE_PID).0;
        let t = o.tokens();
        let ts = self.svm.clock.unix_timestamp;
        let is_swap = matches!(kind, OrderKind::MarketSwap | OrderKind::LimitSwap);
        let is_decrease = matches!(kind, OrderKind::MarketDecrease | OrderKind::LimitDecrease | OrderKind::StopLossDecrease);
        let mut ixs = vec![];
        let event = self.event_buffer(&executor, 0);
        if !is_swap {
            ixs.push(self.prepare_event_buffer_ix(executor, 0));
        }
        let position = o.params().position().copied();
        let mut exec = if is_decrease {
            let mi = self.markets.iter().find(|m| m.market_token == market_token)?;
            let (long_mint, short_mint) = (self.tokens[mi.long].mint, self.tokens[mi.short].mint);
            let pos: Position = load(&self.svm, &position?)?;
            let is_long = pos.try_is_long().ok()?;
            let pnl_token = if is_long { long_mint } else { short_mint };
            let holding = self.holding();
            ixs.push(self.use_claimable_ix(executor, long_mint, owner, ts, 0));
            ixs.push(self.use_claimable_ix(executor, short_mint, owner, ts, 0));
            ixs.push(self.use_claimable_ix(executor, pnl_token, holding, ts, 0));
            six(
                sa::ExecuteDecreaseOrderV2 {
                    authority: executor,
                    owner,
                    user: self.user_pda(&owner),
                    store: self.store,
                    token_map: self.token_map,
                    oracle: self.oracle,
                    market,
                    order,
                    position: position?,
                    event,
                    final_output_token: t.final_output_token().token()?,
                    long_token: t.long_token().token()?,
                    short_token: t.short_token().token()?,
                    final_output_token_escrow: t.final_output_token().account()?,
                    long_token_escrow: t.long_token().account()?,
                    short_token_escrow: t.short_token().account()?,
                    final_output_token_vault: self.vault(&t.final_output_token().token()?),
                    long_token_vault: self.vault(&long_mint),
                    short_token_vault: self.vault(&short_mint),
                    claimable_long_token_account_for_user: self.claimable_pda(&long_mint, &owner, ts),
                    claimable_short_token_account_for_user: self.claimable_pda(&short_mint, &owner, ts),
                    claimable_pnl_token_account_for_holding: self.claimable_pda(&pnl_token, &holding, ts),
                    token_program: spl_token::ID,
                    system_program: system_program::ID,
                    callback_authority: None,
                    callback_program: None,
                    callback_shared_data_account: None,
                    callback_partitioned_data_account: None,
                    event_authority: self.event_authority(),
                    program: STORE_PID,
                },
                si::ExecuteDecreaseOrderV2 { recent_timestamp: ts, execution_fee: self.exec_fee, throw_on_execution_error },
            )
        } else {
            six(
                sa::ExecuteIncreaseOrSwapOrderV2 {
                    authority: executor,
                    owner,
                    user: self.user_pda(&owner),
                    store: self.store,
                    token_map: self.token_map,
                    oracle: self.oracle,
                    market,
                    order,
                    position,
                    event: (!is_swap).then_some(event),
                    initial_collateral_token: t.initial_collateral().token(),
                    final_output_token: t.final_output_token().token(),
                    long_token: t.long_token().token(),
                    short_token: t.short_token().token(),
                    initial_collateral_token_escrow: t.initial_collateral().account(),
                    final_output_token_escrow: t.final_output_token().account(),
                    long_token_escrow: t.long_token().account(),
                    short_token_escrow: t.short_token().account(),
                    initial_collateral_token_vault: t.initial_collateral().token().map(|x| self.vault(&x)),
                    final_output_token_vault: t.final_output_token().token().map(|x| self.vault(&x)),
                    long_token_vault: t.long_token().token().map(|x| self.vault(&x)),
                    short_token_vault: t.short_token().token().map(|x| self.vault(&x)),
                    token_program: spl_token::ID,
                    system_program: system_program::ID,
                    callback_authority: None,
                    callback_program: None,
                    callback_shared_data_account: None,
                    callback_partitioned_data_account: None,
                    event_authority: self.event_authority(),
                    program: STORE_PID,
                },
                si::ExecuteIncreaseOrSwapOrderV2 { recent_timestamp: ts, execution_fee: self.exec_fee, throw_on_execution_error },
            )
        };
        exec.accounts.extend(self.feed_metas(o.swap().tokens()));
        let others: Vec<Pubkey> = o.swap().unique_market_tokens_excluding_current(&market_token).copied().collect();
        exec.accounts.extend(self.market_metas(&others, false));
        ixs.push(exec);
        Some(ixs)
    }

    pub fn execute_order(&mut self, order: Pubkey, throw_on_execution_error: bool) -> TxResult {
        let keeper = self.keeper;
        let Some(ixs) = self.execute_order_ixs(keeper, order, throw_on_execution_error) else {
            return Err(harness_err("order not found / not decodable"));
        };
        self.send(&ixs, &[keeper])
    }

    pub fn close_order_ix(&self, executor: Pubkey, order: Pubkey) -> Option<Instruction> {
        let o: Order = load(&self.svm, &order)?;
        let owner = *o.header().owner();
        let receiver = o.header().receiver();
        let rent_receiver = *o.header().rent_receiver();
        let t = o.tokens();
        let user = self.user_pda(&owner);
        let referrer_user = load::<gmsol_store::states::UserHeader>(&self.svm, &user)
            .and_then(|u| u.referral().referrer().copied())
            .map(|r| self.user_pda(&r));
        Some(six(
            sa::CloseOrderV2 {
                executor,
                store: self.store,
                store_wallet: self.store_wallet(),
                owner,
                receiver,
                rent_receiver,
                user,
                referrer_user,
                order,
                initial_collateral_token: t.initial_collateral().token(),
                final_output_token: t.final_output_token().token(),
                long_token: t.long_token().token(),
                short_token: t.short_token().token(),
                initial_collateral_token_escrow: t.initial_collateral().account(),
                final_output_token_escrow: t.final_output_token().account(),
                long_token_escrow: t.long_token().account(),
                short_token_escrow: t.short_token().account(),
                initial_collateral_token_ata: t.initial_collateral().token().map(|x| token::ata(&owner, &x)),
                final_output_token_ata: t.final_output_token().token().map(|x| token::ata(&receiver, &x)),
                long_token_ata: t.long_token().token().map(|x| token::ata(&receiver, &x)),
                short_token_ata: t.short_token().token().map(|x| token::ata(&receiver, &x)),
                associated_token_program: associated_token::ID,
                token_program: spl_token::ID,
                system_program: system_program::ID,
                callback_authority: None,
                callback_program: None,
                callback_shared_data_account: None,
                callback_partitioned_data_account: None,
                event_authority: self.event_authority(),
                program: STORE_PID,
            },
            si::CloseOrderV2 { reason: "test".into() },
        ))
    }

    pub fn close_order(&mut self, executor: Pubkey, order: Pubkey) -> TxResult {
        let Some(ix) = self.close_order_ix(executor, order) else {
            return Err(harness_err("order not found"));
        };
        self.send(&[ix], &[executor])
    }
}

// ------------------------------------------------------------------------------------------------
// Shifts, position cuts, market maintenance

use gmsol_store::{ops::shift::CreateShiftParams, states::{Market, Shift}};
use gmsol_store::states::HasMarketMeta;

impl World {
    pub fn market_state(&self, market: usize) -> Option<Market> {
        load(&self.svm, &self.markets[market].market)
    }

    /// Sorted, de-duplicated token mints of a market (index, long, short).
    pub fn ordered_tokens(&self, market: usize) -> Vec<Pubkey> {
        let m = &self.markets[market];
        let set: std::collections::BTreeSet<Pubkey> =
            [self.tokens[m.index].mint, self.tokens[m.long].mint, self.tokens[m.short].mint].into_iter().collect();
        set.into_iter().collect()
    }

    pub fn create_shift(&mut self, owner: Pubkey, from: usize, to: usize, amount: u64, min_to: u64) -> std::result::Result<Pubkey, (TxError, TxMeta)> {
        let (f, t) = (self.markets[from].clone(), self.markets[to].clone());
        let store = self.store;
        let nonce = self.next_nonce();
        let shift = pda::find_shift_address(&store, &owner, &nonce, &STORE_PID).0;
        let ixs = vec![
            self.prepare_ata_ix(owner, shift, f.market_token),
            self.prepare_ata_ix(owner, shift, t.market_token),
            self.prepare_ata_ix(owner, owner, t.market_token),
            six(
                sa::CreateShift {
                    owner,
                    receiver: owner,
                    store,
                    from_market: f.market,
                    to_market: t.market,
                    shift,
                    from_market_token: f.market_token,
                    to_market_token: t.market_token,
                    from_market_token_escrow: token::ata(&shift, &f.market_token),
                    to_market_token_escrow: token::ata(&shift, &t.market_token),
                    from_market_token_source: token::ata(&owner, &f.market_token),
                    to_market_token_ata: token::ata(&owner, &t.market_token),
                    system_program: system_program::ID,
                    token_program: spl_token::ID,
                    associated_token_program: associated_token::ID,
                },
                si::CreateShift {
                    nonce,
                    params: CreateShiftParams {
                        execution_lamports: EXECUTION_FEE,
                        from_market_token_amount: amount,
                        min_to_market_token_amount: min_to,
                    },
                },
            ),
        ];
        self.send(&ixs, &[owner]).map(|_| shift)
    }

    pub fn execute_shift_ix(&self, executor: Pubkey, shift: Pubkey, throw_on_execution_error: bool) -> Option<Instruction> {
        let s: Shift = load(&self.svm, &shift)?;
        let (fmt, tmt) = (s.tokens().from_market_token(), s.tokens().to_market_token());
        let fi = self.markets.iter().position(|m| m.market_token == fmt)?;
        let ti = self.markets.iter().position(|m| m.market_token == tmt)?;
        let mut tokens: std::collections::BTreeSet<Pubkey> = self.ordered_tokens(fi).into_iter().collect();
        tokens.extend(self.ordered_tokens(ti));
        let tokens: Vec<Pubkey> = tokens.into_iter().collect();
        let mut ix = six(
            sa::ExecuteShift {
                authority: executor,
                store: self.store,
                token_map: self.token_map,
                oracle: self.oracle,
                from_market: self.markets[fi].market,
                to_market: self.markets[ti].market,
                shift,
                from_market_token: fmt,
                to_market_token: tmt,
                from_market_token_escrow: token::ata(&shift, &fmt),
                to_market_token_escrow: token::ata(&shift, &tmt),
                from_market_token_vault: self.vault(&fmt),
                token_program: spl_token::ID,
                chainlink_program: None,
                event_authority: self.event_authority(),
                program: STORE_PID,
            },
            si::ExecuteShift { execution_lamports: self.exec_fee, throw_on_execution_error },
        );
        ix.accounts.extend(self.feed_metas(&tokens));
        Some(ix)
    }

    pub fn execute_shift(&mut self, shift: Pubkey, throw_on_execution_error: bool) -> TxResult {
        let keeper = self.keeper;
        let Some(ix) = self.execute_shift_ix(keeper, shift, throw_on_execution_error) else {
            return Err(harness_err("shift not found"));
        };
        self.send(&[ix], &[keeper])
    }

    pub fn close_shift_ix(&self, executor: Pubkey, shift: Pubkey) -> Option<Instruction> {
        let s: Shift = load(&self.svm, &shift)?;
        let owner = *s.header().owner();
        let receiver = s.header().receiver();
        let (fmt, tmt) = (s.tokens().from_market_token(), s.tokens().to_market_token());
        Some(six(
            sa::CloseShift {
                executor,
                store: self.store,
                store_wallet: self.store_wallet(),
                owner,
                receiver,
                shift,
                from_market_token: fmt,
                to_market_token: tmt,
                from_market_token_escrow: token::ata(&shift, &fmt),
                to_market_token_escrow: token::ata(&shift, &tmt),
                from_market_token_ata: token::ata(&owner, &fmt),
                to_market_token_ata: token::ata(&receiver, &tmt),
                system_program: system_program::ID,
                token_program: spl_token::ID,
                associated_token_program: associated_token::ID,
                event_authority: self.event_authority(),
                program: STORE_PID,
            },
            si::CloseShift { reason: "test".into() },
        ))
    }

    pub fn close_shift(&mut self, executor: Pubkey, shift: Pubkey) -> TxResult {
        let Some(ix) = self.close_shift_ix(executor, shift) else {
            return Err(harness_err("shift not found"));
        };
        self.send(&[ix], &[executor])
    }

    /// Instructions for `liquidate` (`adl_size = None`) or `auto_deleverage` of a position; returns
    /// the instructions and the address of the order account the program creates.
    pub fn position_cut_ixs(&mut self, executor: Pubkey, position: Pubkey, adl_size: Option<u128>) -> Option<(Vec<Instruction>, Pubkey)> {
        let p: Position = load(&self.svm, &position)?;
        let owner = p.owner;
        let mi = self.markets.iter().position(|m| m.market_token == p.market_token)?;
        let m = self.markets[mi].clone();
        let (long_mint, short_mint) = (self.tokens[m.long].mint, self.tokens[m.short].mint);
        let is_long = p.try_is_long().ok()?;
        let pnl_token = if is_long { long_mint } else { short_mint };
        let collateral = p.collateral_token;
        let ts = self.svm.clock.unix_timestamp;
        let nonce = self.next_nonce();
        let order = pda::find_order_address(&self.store, &executor, &nonce, &STORE_PID).0;
        let holding = self.holding();
        let event = self.event_buffer(&executor, 0);
        let mut ixs = vec![
            self.prepare_ata_ix(executor, order, collateral),
            self.prepare_ata_ix(executor, order, long_mint),
            self.prepare_ata_ix(executor, order, short_mint),
            self.prepare_event_buffer_ix(executor, 0),
            self.use_claimable_ix(executor, long_mint, owner, ts, 0),
            self.use_claimable_ix(executor, short_mint, owner, ts, 0),
            self.use_claimable_ix(executor, pnl_token, holding, ts, 0),
        ];
        let accounts = sa::PositionCut {
            authority: executor,
            owner,
            user: self.user_pda(&owner),
            store: self.store,
            token_map: self.token_map,
            oracle: self.oracle,
            market: m.market,
            order,
            position,
            event,
            long_token: long_mint,
            short_token: short_mint,
            long_token_escrow: token::ata(&order, &long_mint),
            short_token_escrow: token::ata(&order, &short_mint),
            long_token_vault: self.vault(&long_mint),
            short_token_vault: self.vault(&short_mint),
            claimable_long_token_account_for_user: self.claimable_pda(&long_mint, &owner, ts),
            claimable_short_token_account_for_user: self.claimable_pda(&short_mint, &owner, ts),
            claimable_pnl_token_account_for_holding: self.claimable_pda(&pnl_token, &holding, ts),
            system_program: system_program::ID,
            token_program: spl_token::ID,
            associated_token_program: associated_token::ID,
            chainlink_program: None,
            event_authority: self.event_authority(),
            program: STORE_PID,
        };
        let mut ix = match adl_size {
            None => six(accounts, si::Liquidate { nonce, recent_timestamp: ts, execution_fee: EXECUTION_FEE }),
            Some(size) => six(
                accounts,
                si::AutoDeleverage { nonce, recent_timestamp: ts, size_delta_in_usd: size, execution_fee: EXECUTION_FEE },
            ),
        };
        ix.accounts.extend(self.feed_metas(&self.ordered_tokens(mi)));
        ixs.push(ix);
        Some((ixs, order))
    }

    pub fn liquidate(&mut self, position: Pubkey) -> std::result::Result<(TxMeta, Pubkey), (TxError, TxMeta)> {
        let keeper = self.keeper;
        let Some((ixs, order)) = self.position_cut_ixs(keeper, position, None) else {
            return Err(harness_err("position not found"));
        };
        self.send(&ixs, &[keeper]).map(|m| (m, order))
    }

    pub fn auto_deleverage(&mut self, position: Pubkey, size: u128) -> std::result::Result<(TxMeta, Pubkey), (TxError, TxMeta)> {
        let keeper = self.keeper;
        let Some((ixs, order)) = self.position_cut_ixs(keeper, position, Some(size)) else {
            return Err(harness_err("position not found"));
        };
        self.send(&ixs, &[keeper]).map(|m| (m, order))
    }

    pub fn update_adl_state_ix(&self, authority: Pubkey, market: usize, is_long: bool) -> Instruction {
        let mut ix = six(
            sa::UpdateAdlState {
                authority,
                store: self.store,
                token_map: self.token_map,
                oracle: self.oracle,
                market: self.markets[market].market,
                chainlink_program: None,
            },
            si::UpdateAdlState { is_long },
        );
        ix.accounts.extend(self.feed_metas(&self.ordered_tokens(market)));
        ix
    }

    pub fn update_fees_state_ix(&self, authority: Pubkey, market: usize) -> Instruction {
        let mut ix = six(
            sa::UpdateFeesState {
                authority,
                store: self.store,
                token_map: self.token_map,
                oracle: self.oracle,
                market: self.markets[market].market,
                event_authority: self.event_authority(),
                program: STORE_PID,
            },
            si::UpdateFeesState {},
        );
        ix.accounts.extend(self.feed_metas(&self.ordered_tokens(market)));
        ix
    }

    pub fn update_market_config_ix(&self, authority: Pubkey, market: usize, key: &str, value: u128) -> Instruction {
        six(
            sa::UpdateMarketConfig { authority, store: self.store, market: self.markets[market].market },
            si::UpdateMarketConfig { key: key.to_string(), value },
        )
    }

    pub fn update_market_config_flag_ix(&self, authority: Pubkey, market: usize, key: &str, value: bool) -> Instruction {
        six(
            sa::UpdateMarketConfig { authority, store: self.store, market: self.markets[market].market },
            si::UpdateMarketConfigFlag { key: key.to_string(), value },
        )
    }

    pub fn set_market_config(&mut self, market: usize, key: &str, value: u128) -> TxResult {
        let keeper = self.keeper;
        let ix = self.update_market_config_ix(keeper, market, key, value);
        self.send(&[ix], &[keeper])
    }

    /// `claim_fees_from_market` by the store's receiver (the admin after bootstrap).
    pub fn claim_fees_ix(&self, authority: Pubkey, market: usize, is_long_token: bool) -> Instruction {
        let m = &self.markets[market];
        let mint = if is_long_token { self.tokens[m.long].mint } else { self.tokens[m.short].mint };
        six(
            sa::ClaimFeesFromMarket {
                authority,
                store: self.store,
                market: m.market,
                token_mint: mint,
                vault: self.vault(&mint),
                target: token::ata(&authority, &mint),
                token_program: spl_token::ID,
                event_authority: self.event_authority(),
                program: STORE_PID,
            },
            si::ClaimFeesFromMarket {},
        )
    }

    pub fn market_transfer_in_ix(&self, authority: Pubkey, market: usize, is_long_token: bool, amount: u64) -> Instruction {
        let m = &self.markets[market];
        let mint = if is_long_token { self.tokens[m.long].mint } else { self.tokens[m.short].mint };
        six(
            sa::MarketTransferIn {
                authority,
                from_authority: authority,
                store: self.store,
                market: m.market,
                vault: self.vault(&mint),
                from: token::ata(&authority, &mint),
                token_program: spl_token::ID,
                event_authority: self.event_authority(),
                program: STORE_PID,
            },
            si::MarketTransferIn { amount },
        )
    }

    pub fn cancel_order_if_no_position_ix(&self, authority: Pubkey, order: Pubkey) -> Option<Instruction> {
        let o: Order = load(&self.svm, &order)?;
        let position = *o.params().position()?;
        Some(six(
            sa::CancelOrderIfNoPosition { authority, store: self.store, order, position },
            si::CancelOrderIfNoPosition {},
        ))
    }

    pub fn is_pure(&self, market: usize) -> bool {
        self.market_state(market).map(|m| m.is_pure()).unwrap_or(false)
    }
}
