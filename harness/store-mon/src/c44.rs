//! C44 — multi-market swaps follow the declared path and move recorded balances.
//!
//! Dedicated world: three real tokens (SOL, USDC, WBTC) and five markets
//! (A: SOL-USDC, B: WBTC-USDC, C: SOL-WBTC, D: SOL-USDC with another index, P: SOL-SOL pure).
//! Workload: swap orders (paths of length 0..=10, valid and deliberately invalid: duplicates, pure
//! market steps, broken chains, wrong output token), deposits and withdrawals with swap paths (into /
//! out of the current market), executed through the real instructions. Oracle: an independent path
//! validator at creation; at execution the `SwapExecuted` events and the pre/post market accounts.
use crate::world::{
    exchange::{load, OrderKind, OrderReq},
    *,
};
use anchor_lang::{prelude::Pubkey, AnchorDeserialize, Discriminator};
use gmsol_store::{
    events::SwapExecuted,
    states::{common::action::Action, Market, Order},
};
use gmsol_utils::action::ActionState;
use hostsvm::token;
use std::collections::BTreeSet;
use vcommon::{json, monitor::run_shards, serde_json, Args, Monitor, Rng};

const E18: u128 = 1_000_000_000_000_000_000;

struct W44 {
    w: World,
    user: Pubkey,
    sol: Pubkey,
    usdc: Pubkey,
    wbtc: Pubkey,
}

fn build(seed: u64, shard: u64) -> W44 {
    let mut rng = Rng::derive(seed, shard, 0x44);
    let mut w = World::bootstrap_store();
    w.bootstrap_oracle();
    let btc = w.add_token("BTC", 8, 2, true);
    let sol = w.add_token("SOL", 9, 4, false);
    let usdc = w.add_token("USDC", 6, 6, false);
    let wbtc = w.add_token("WBTC", 8, 2, false);
    let eth = w.add_token("ETH", 8, 3, true);
    w.add_market(sol, sol, usdc); // A 0
    w.add_market(btc, wbtc, usdc); // B 1
    w.add_market(btc, sol, wbtc); // C 2
    w.add_market(eth, sol, usdc); // D 3
    w.add_market(sol, sol, sol); // P 4 (pure)
    for (t, p) in [(btc, 60_000u128), (sol, 150), (usdc, 1), (wbtc, 60_000), (eth, 3_000)] {
        w.set_price(t, p * E18 - p * E18 / 10_000, p * E18, p * E18 + p * E18 / 10_000).expect("price");
    }
    let user = w.add_user("trader");
    let lp = w.add_user("lp");
    let (sol_m, usdc_m, wbtc_m) = (w.tokens[sol].mint, w.tokens[usdc].mint, w.tokens[wbtc].mint);
    for u in [user, lp] {
        token::fund_ata(&mut w.svm, &u, &sol_m, 10_000_000 * 1_000_000_000);
        token::fund_ata(&mut w.svm, &u, &usdc_m, 1_000_000_000 * 1_000_000);
        token::fund_ata(&mut w.svm, &u, &wbtc_m, 100_000 * 100_000_000);
    }
    for m in 0..5 {
        for (k, v) in [
            ("max_pool_amount_for_long_token", 1_000_000_000_000_000_000u128),
            ("max_pool_amount_for_short_token", 1_000_000_000_000_000_000u128),
            ("max_pool_value_for_deposit_for_long_token", 1_000_000_000 * UNIT),
            ("max_pool_value_for_deposit_for_short_token", 1_000_000_000 * UNIT),
        ] {
            w.set_market_config(m, k, v).expect("config");
        }
    }
    // fees / impact flavours
    for m in 0..4 {
        if rng.bool() {
            let f = rng.range_u128(0, 5) * UNIT / 1000;
            let _ = w.set_market_config(m, "swap_fee_factor_for_positive_impact", f);
            let _ = w.set_market_config(m, "swap_fee_factor_for_negative_impact", f);
        }
        if rng.bool() {
            let neg = rng.range_u128(1, 50) * UNIT / 10_000_000_000;
            let _ = w.set_market_config(m, "swap_impact_negative_factor", neg);
            let _ = w.set_market_config(m, "swap_impact_positive_factor", neg / 2);
        }
    }
    // liquidity
    let amounts: [(u64, u64); 5] = [
        (20_000 * 1_000_000_000, 3_000_000 * 1_000_000),
        (50 * 100_000_000, 3_000_000 * 1_000_000),
        (20_000 * 1_000_000_000, 50 * 100_000_000),
        (20_000 * 1_000_000_000, 3_000_000 * 1_000_000),
        (10_000 * 1_000_000_000, 10_000 * 1_000_000_000),
    ];
    for (m, (l, s)) in amounts.iter().enumerate() {
        let d = w.create_deposit(lp, m, *l, *s, None, None, &[], &[], 0).expect("lp deposit");
        w.execute_deposit(d, true).expect("lp deposit exec");
        let _ = w.close_deposit(lp, d);
    }
    W44 { w, user, sol: sol_m, usdc: usdc_m, wbtc: wbtc_m }
}

/// Independent re-statement of the path rules: returns the output token if the path is acceptable.
fn reference_path(w: &World, path: &[usize], token_in: Pubkey) -> Option<Pubkey> {
    let mut seen = BTreeSet::new();
    let mut cur = token_in;
    for m in path {
        if !seen.insert(*m) {
            return None; // duplicate market
        }
        let mi = &w.markets[*m];
        let (l, s) = (w.tokens[mi.long].mint, w.tokens[mi.short].mint);
        if l == s {
            return None; // no-op step
        }
        cur = if cur == l {
            s
        } else if cur == s {
            l
        } else {
            return None;
        };
    }
    Some(cur)
}

fn balances(w: &World, svm: &hostsvm::Svm, m: usize) -> (u64, u64) {
    load::<Market>(svm, &w.markets[m].market).map(|x| (x.state().long_token_balance_raw(), x.state().short_token_balance_raw())).unwrap_or((0, 0))
}

fn gen_path(rng: &mut Rng, x: &W44, token_in: Pubkey) -> Vec<usize> {
    let w = &x.w;
    let len = match rng.below(10) {
        0 => 0,
        1..=5 => rng.range(1, 3),
        6..=8 => rng.range(3, 6),
        _ => rng.range(6, 11),
    } as usize;
    let mut path = vec![];
    let mut cur = token_in;
    for _ in 0..len {
        // markets that can take `cur`
        let cands: Vec<usize> = (0..4)
            .filter(|m| {
                let mi = &w.markets[*m];
                w.tokens[mi.long].mint == cur || w.tokens[mi.short].mint == cur
            })
            .collect();
        let m = if rng.chance(1, 15) { rng.below(5) as usize } else { *rng.pick(&cands) };
        // mostly avoid duplicates (a valid long path needs distinct markets), sometimes keep them
        if path.contains(&m) && !rng.chance(1, 6) {
            break;
        }
        path.push(m);
        let mi = &w.markets[m];
        let (l, s) = (w.tokens[mi.long].mint, w.tokens[mi.short].mint);
        cur = if cur == l { s } else { l };
    }
    path
}

fn run_shard(args: &Args, shard: u64, m: &mut Monitor) {
    let mut rng = Rng::derive(args.seed, shard, 0x4401);
    let mut x = build(args.seed, shard);
    let rounds = args.scale(120, 500);
    let tokens = [x.sol, x.usdc, x.wbtc];
    for round in 0..rounds {
        if rng.chance(1, 6) {
            x.w.svm.warp(rng.range_i64(1, 10));
        }
        // keep feeds fresh
        for t in 0..x.w.tokens.len() {
            let p = [60_000u128, 150, 1, 60_000, 3_000][t] * E18;
            let _ = x.w.set_price(t, p - p / 10_000, p, p + p / 10_000);
        }
        let token_in = *rng.pick(&tokens);
        let path = gen_path(&mut rng, &x, token_in);
        let expect_out = reference_path(&x.w, &path, token_in);
        // declared output: mostly what the path yields, sometimes another token
        let declared_out = match expect_out {
            Some(o) if !rng.chance(1, 8) => o,
            _ => *rng.pick(&tokens),
        };
        // a swap order's market account is the last market of the path; output side within it
        let Some(&last) = path.last() else {
            m.count("empty_path_skipped");
            // empty path: swap order without a path is not expressible; try it anyway for coverage
            let mut req = OrderReq::new(OrderKind::MarketSwap, 0, true, true);
            req.initial_collateral_token = Some(token_in);
            req.initial_collateral_delta_amount = 1_000_000;
            let r = x.w.create_order(x.user, &req);
            m.eval();
            if let Ok(o) = r {
                // creation with an empty path: token_in must already be the output token
                let out = x.w.tokens[x.w.markets[0].long].mint;
                if token_in != out {
                    m.violation("C44:create:empty_path_accepted_with_different_tokens", json!({"shard": shard, "round": round}));
                }
                let _ = x.w.close_order(x.user, o);
            }
            continue;
        };
        let lm = &x.w.markets[last];
        let (ll, ls) = (x.w.tokens[lm.long].mint, x.w.tokens[lm.short].mint);
        let out_is_long = if declared_out == ll {
            true
        } else if declared_out == ls {
            false
        } else {
            rng.bool()
        };
        let real_declared_out = if out_is_long { ll } else { ls };
        let mut req = OrderReq::new(OrderKind::MarketSwap, last, true, out_is_long);
        req.initial_collateral_token = Some(token_in);
        let amount = match token_in {
            t if t == x.sol => rng.log_u64(200 * 1_000_000_000).max(1_000),
            t if t == x.usdc => rng.log_u64(30_000 * 1_000_000).max(1_000),
            _ => rng.log_u64(100_000_000).max(1_000),
        };
        req.initial_collateral_delta_amount = amount;
        req.swap_path = path.iter().map(|i| x.w.markets[*i].market_token).collect();
        let pre_create = x.w.svm.clone();
        let created = x.w.create_order(x.user, &req);
        m.eval();
        let path_ok = expect_out == Some(real_declared_out) && path.len() <= 10;
        let wit = |what: &str, extra: serde_json::Value| {
            json!({"shard": shard, "round": round, "what": what, "path": path, "token_in": format!("{token_in}"),
                   "declared_out": format!("{real_declared_out}"), "amount": amount, "extra": extra})
        };
        let order = match created {
            Err(_) => {
                m.count(if path_ok { "create_rejected_valid_path" } else { "create_rejected_invalid_path" });
                if !path_ok {
                    m.nontrivial(format!("reject:{}:{:?}", path.len(), expect_out.is_some()).as_bytes());
                }
                continue;
            }
            Ok(o) => o,
        };
        let _ = pre_create;
        if !path_ok {
            let class = if expect_out.is_none() { "invalid_path_accepted_at_creation" } else { "wrong_output_token_accepted_at_creation" };
            m.violation(&format!("C44:create:{class}"), wit("reference validator rejects this path", json!({"expect_out": expect_out.map(|p| p.to_string())})));
            continue;
        }
        m.count("create_ok");
        // --- execute
        let pre = x.w.svm.clone();
        let throw = rng.chance(1, 3);
        let res = x.w.execute_order(order, throw);
        let state = load::<Order>(&x.w.svm, &order).and_then(|o| o.header().action_state().ok());
        match (&res, state) {
            (Ok(meta), Some(ActionState::Completed)) => {
                m.count("swap_completed");
                m.nontrivial(format!("exec:{}:{}", path.len(), path.iter().map(|p| p.to_string()).collect::<String>()).as_bytes());
                m.max("max_path_len_executed", path.len() as u64);
                // decode SwapExecuted events in order
                let evs: Vec<SwapExecuted> = meta
                    .events
                    .iter()
                    .filter(|(p, d)| *p == STORE_PID && d.len() > 8 && d[..8] == *SwapExecuted::DISCRIMINATOR)
                    .filter_map(|(_, d)| SwapExecuted::deserialize(&mut &d[8..]).ok())
                    .collect();
                let ev_markets: Vec<Pubkey> = evs.iter().map(|e| e.market_token).collect();
                let declared: Vec<Pubkey> = path.iter().map(|i| x.w.markets[*i].market_token).collect();
                if ev_markets != declared {
                    m.violation("C44:execute:hops_differ_from_declared_path", wit("SwapExecuted events vs declared path", json!({"events": ev_markets.iter().map(|p| p.to_string()).collect::<Vec<_>>()})));
                    continue;
                }
                // chain tokens and amounts
                let mut cur_token = token_in;
                let mut cur_amount = amount as u128;
                let mut deltas: std::collections::BTreeMap<(usize, bool), i128> = Default::default();
                let mut chain_ok = true;
                for (hop, (e, mi)) in evs.iter().zip(path.iter()).enumerate() {
                    let mk = &x.w.markets[*mi];
                    let (l, s) = (x.w.tokens[mk.long].mint, x.w.tokens[mk.short].mint);
                    let in_long = e.report.params().is_token_in_long();
                    let tin = if in_long { l } else { s };
                    let tout = if in_long { s } else { l };
                    let ain = *e.report.params().token_in_amount();
                    let aout = *e.report.token_out_amount();
                    if tin != cur_token || ain != cur_amount {
                        chain_ok = false;
                        m.violation("C44:execute:hop_does_not_convert_previous_output", wit("token/amount chain broken", json!({"hop": hop, "expected_token": cur_token.to_string(), "hop_token_in": tin.to_string(), "expected_amount": cur_amount.to_string(), "hop_amount_in": ain.to_string()})));
                        break;
                    }
                    *deltas.entry((*mi, in_long)).or_default() += ain as i128;
                    *deltas.entry((*mi, !in_long)).or_default() -= aout as i128;
                    cur_token = tout;
                    cur_amount = aout;
                }
                if !chain_ok {
                    continue;
                }
                if cur_token != real_declared_out {
                    m.violation("C44:execute:ended_in_other_token", wit("", json!({"ended": cur_token.to_string()})));
                }
                // recorded balances of every market: exactly the hop movements
                for mi in 0..x.w.markets.len() {
                    let (pl, ps) = balances(&x.w, &pre, mi);
                    let (nl, ns) = balances(&x.w, &x.w.svm, mi);
                    let pure = mi == 4;
                    let dl = deltas.get(&(mi, true)).copied().unwrap_or(0);
                    let ds = deltas.get(&(mi, false)).copied().unwrap_or(0);
                    let (el, es) = if pure { (dl + ds, 0) } else { (dl, ds) };
                    if nl as i128 - pl as i128 != el || ns as i128 - ps as i128 != es {
                        m.violation(
                            "C44:execute:recorded_balance_movement_differs_from_swapped_amounts",
                            wit("", json!({"market": mi, "delta_long": (nl as i128 - pl as i128).to_string(), "expected_long": el.to_string(), "delta_short": (ns as i128 - ps as i128).to_string(), "expected_short": es.to_string()})),
                        );
                    }
                }
                // the escrow received exactly the final amount
                let esc = token::ata(&order, &real_declared_out);
                let got = token::token_amount(&x.w.svm, &esc).unwrap_or(0) as i128 - token::token_amount(&pre, &esc).unwrap_or(0) as i128;
                let expected_escrow = if real_declared_out == token_in { cur_amount as i128 - amount as i128 } else { cur_amount as i128 };
                if got != expected_escrow {
                    m.violation("C44:execute:payout_differs_from_last_hop_output", wit("", json!({"escrow_delta": got.to_string(), "expected": expected_escrow.to_string()})));
                }
                if m.wants_sample() && path.len() >= 3 {
                    m.sample(json!({"path": path, "token_in": token_in.to_string(), "amount_in": amount, "amount_out": cur_amount.to_string(), "hops": evs.len()}));
                }
            }
            (Ok(_), Some(ActionState::Cancelled)) => {
                m.count("swap_soft_failed");
                for mi in 0..x.w.markets.len() {
                    if balances(&x.w, &pre, mi) != balances(&x.w, &x.w.svm, mi) {
                        m.violation("C44:execute:failed_swap_moved_recorded_balances", wit("", json!({"market": mi})));
                    }
                }
            }
            (Err(_), _) => m.count("swap_hard_failed"),
            _ => m.count("swap_other_outcome"),
        }
        let _ = x.w.close_order(x.user, order);

        // --- deposits / withdrawals with paths (into / out of the current market)
        if rng.chance(1, 3) {
            let market = rng.below(4) as usize;
            let mk = x.w.markets[market].clone();
            let (l, s) = (x.w.tokens[mk.long].mint, x.w.tokens[mk.short].mint);
            let pay = *rng.pick(&tokens);
            let lp_path = gen_path(&mut rng, &x, pay);
            let ok = reference_path(&x.w, &lp_path, pay) == Some(l) && lp_path.len() <= 10;
            let mts: Vec<Pubkey> = lp_path.iter().map(|i| x.w.markets[*i].market_token).collect();
            let amt = if pay == x.sol { 1_000_000_000 } else if pay == x.usdc { 150_000_000 } else { 250_000 };
            let r = x.w.create_deposit(x.user, market, amt, 0, Some(pay), None, &mts, &[], 0);
            m.eval();
            let _ = s;
            match r {
                Ok(d) => {
                    if !ok {
                        m.violation("C44:create:invalid_deposit_path_accepted", json!({"shard": shard, "round": round, "market": market, "path": lp_path, "pay": pay.to_string()}));
                    } else {
                        m.count("deposit_with_path_created");
                        let pre = x.w.svm.clone();
                        if x.w.execute_deposit(d, false).is_ok() {
                            let st = load::<gmsol_store::states::Deposit>(&x.w.svm, &d).and_then(|o| o.header().action_state().ok());
                            if st == Some(ActionState::Completed) {
                                m.count("deposit_with_path_completed");
                                m.nontrivial(format!("dep:{}:{}", market, lp_path.len()).as_bytes());
                                // the markets on the path that are not the current market end with
                                // exactly zero net token creation: Σ over all markets of Δ recorded
                                // balance per token == tokens that entered the vault
                                for t in tokens {
                                    let mut d_recorded: i128 = 0;
                                    for mi in 0..x.w.markets.len() {
                                        let mkx = &x.w.markets[mi];
                                        let (ml, ms) = (x.w.tokens[mkx.long].mint, x.w.tokens[mkx.short].mint);
                                        let (pl, ps) = balances(&x.w, &pre, mi);
                                        let (nl, ns) = balances(&x.w, &x.w.svm, mi);
                                        if ml == t {
                                            d_recorded += nl as i128 - pl as i128;
                                        }
                                        if ms == t && ms != ml {
                                            d_recorded += ns as i128 - ps as i128;
                                        }
                                    }
                                    let v = x.w.vault(&t);
                                    let d_vault = token::token_amount(&x.w.svm, &v).unwrap_or(0) as i128 - token::token_amount(&pre, &v).unwrap_or(0) as i128;
                                    if d_recorded != d_vault {
                                        m.violation("C44:execute:deposit_swap_recorded_balances_differ_from_vault_movement", json!({"shard": shard, "round": round, "token": t.to_string(), "recorded": d_recorded.to_string(), "vault": d_vault.to_string(), "path": lp_path}));
                                    }
                                }
                            }
                        }
                    }
                    let _ = x.w.close_deposit(x.user, d);
                }
                Err(_) => m.count(if ok { "deposit_path_rejected_valid" } else { "deposit_path_rejected_invalid" }),
            }
        }
    }
}

pub fn run(args: &Args) -> Option<i32> {
    let mut mon = Monitor::new(
        args,
        "world with 3 real tokens and 5 markets (one pure); swap orders with random paths of length 0..=10 (valid, \
         duplicate markets, pure-market steps, broken chains, wrong declared output), plus deposits with swap paths; \
         real create/execute instructions in hostsvm; oracle = independent path validator at creation + SwapExecuted \
         events and pre/post recorded balances at execution. non-trivial = a completed multi-hop swap / a rejected \
         invalid path; distinct = the concrete market sequence",
    );
    mon.assume("swap orders' market account is the last market of the path (SDK convention)");
    let shards = args.scale(32, 128);
    let quiet = hostsvm::QuietStdout::new();
    run_shards(&mut mon, args.threads, shards, |shard, m| run_shard(args, shard, m));
    drop(quiet);
    mon.require("swap_completed", 300);
    mon.require("create_rejected_invalid_path", 100);
    Some(mon.finish())
}
