//! Monitor for C44 (see /verif/DESIGN.md §5 C44).
use vcommon::Args;

pub fn run(_args: &Args) -> Option<i32> {
    None
}
