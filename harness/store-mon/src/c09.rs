//! C09 (instruction-level part) — positions are left healthy, only unhealthy ones can be liquidated,
//! ADL only when the pnl factor exceeded its limit.
//!
//! The model-level part (threshold recomputation with BigInt) lives in model-mon; the two parts write
//! `evidence/C09.<part>.json`, merged by `/verif/check`.
//!
//! Observed here, through the real `liquidate` / `auto_deleverage` / `execute_*_order` instructions:
//!  * every successful liquidation removes the whole position (size and collateral zero afterwards);
//!  * right after a successful increase (same prices, same clock) a *simulated* liquidation of that
//!    position is rejected — the increase did not leave it liquidatable;
//!  * a successful ADL: the pnl-to-pool factor recomputed from the pre-state market account and the
//!    prices recorded in the trade event exceeded the configured limit, the post-state factor is
//!    strictly lower and not below the configured minimum.
use crate::sim::{Op, Sim, E18};
use crate::world::{
    exchange::{load, OrderKind, OrderReq},
    *,
};
use anchor_lang::prelude::Pubkey;
use gmsol_model::{price::{Price, Prices}, BaseMarket, BaseMarketExt, PnlFactorKind};
use gmsol_store::{events::TradeData, states::{Market, Order, Position}};
use hostsvm::token;
use vcommon::{json, monitor::run_shards, Args, Monitor, Rng};

fn position_size(svm: &hostsvm::Svm, p: &Pubkey) -> Option<(u128, u128, u128)> {
    load::<Position>(svm, p).map(|p| (p.state.size_in_usd, p.state.size_in_tokens, p.state.collateral_amount))
}


/// Prices of the last trade event written by the keeper (the prices the program executed with).
fn ev_prices(w: &World) -> Option<Prices<u128>> {
    let ev = load::<TradeData>(&w.svm, &w.event_buffer(&w.keeper, 0))?;
    let tp = &ev.prices;
    Some(Prices {
        index_token_price: Price { min: tp.index.min, max: tp.index.max },
        long_token_price: Price { min: tp.long.min, max: tp.long.max },
        short_token_price: Price { min: tp.short.min, max: tp.short.max },
    })
}

/// `check_liquidatable(prices, validate_min_collateral_usd = true / false, for_liquidation = true)` evaluated with
/// the repository's own `Position::as_position` on the program's Position and Market accounts in `svm`.
fn verdicts(
    w: &World,
    svm: &hostsvm::Svm,
    position: &Pubkey,
    prices: &Option<Prices<u128>>,
) -> Option<(Option<gmsol_model::position::LiquidatableReason>, Option<gmsol_model::position::LiquidatableReason>)> {
    use gmsol_model::PositionExt;
    let prices = prices.as_ref()?;
    let p: Position = load(svm, position)?;
    let mk = w.markets.iter().find(|m| m.market_token == p.market_token)?;
    let market: Market = load(svm, &mk.market)?;
    let ap = p.as_position(&market).ok()?;
    let a = ap.check_liquidatable(prices, true, true).ok()?;
    let b = ap.check_liquidatable(prices, false, true).ok()?;
    Some((a, b))
}

/// A liquidation succeeded: on the pre-state (brought up to date by the real `update_fees_state` instruction at the
/// same clock and oracle prices, which is what order execution does first) the position must have been
/// liquidatable under the *liquidation* thresholds at the prices the program recorded in the trade event.
fn liquidation_was_due(sim: &Sim, pre: &hostsvm::Svm, position: &Pubkey, shard: u64, step: u64, m: &mut Monitor) {
    liquidation_was_due_in(&sim.w, "", sim, pre, position, shard, step, m)
}

/// `after`: the world right after the successful liquidation (its event buffer holds the execution prices).
#[allow(clippy::too_many_arguments)]
fn liquidation_was_due_in(after: &World, tag: &str, sim: &Sim, pre: &hostsvm::Svm, position: &Pubkey, shard: u64, step: u64, m: &mut Monitor) {
    let prices = ev_prices(after);
    let mut w2 = after.clone();
    w2.svm = pre.clone();
    let Some(p) = load::<Position>(&w2.svm, position) else { return };
    let Some(mi) = w2.markets.iter().position(|mk| mk.market_token == p.market_token) else { return };
    let keeper = w2.keeper;
    let ix = w2.update_fees_state_ix(keeper, mi);
    if w2.svm.process(&[ix], &[keeper]).is_err() {
        m.count("liquidation_pre_state_update_failed");
        return;
    }
    match verdicts(&w2, &w2.svm, position, &prices) {
        None => m.count("liquidation_pre_state_verdict_not_computable"),
        Some((Some(reason), _)) => {
            m.count(&format!("{tag}liquidated_position_was_liquidatable:{reason:?}"));
        }
        Some((None, _)) => m.violation(
            "C09:liquidate:succeeded_for_position_not_liquidatable_under_liquidation_thresholds",
            json!({"shard": shard, "step": step, "probe": !tag.is_empty(), "position": position.to_string(), "history": sim.history}),
        ),
    }
}

fn sim_part(args: &Args, shard: u64, m: &mut Monitor) {
    // sized so that the minimum observation counts below are met with a wide margin at every seed
    // (the exchange workload also spends steps on GLV actions and ADL steering)
    let steps = args.scale(900, 2400);
    let mut sim = Sim::new(args.seed, shard);
    for step in 0..steps {
        let rec = sim.step();
        // probes: every few steps a liquidation of every open position is tried on a clone of the world (the Sim's own
        // random `liquidate` attempts rarely meet a position inside the band between the validation and the
        // liquidation threshold); a probe that succeeds is judged like a real liquidation
        if step % 3 == 2 {
            let keeper = sim.w.keeper;
            for (pos, _) in sim.open_positions() {
                let mut w2 = sim.w.clone();
                let Some((ixs, _)) = w2.position_cut_ixs(keeper, pos, None) else { continue };
                let pre = w2.svm.clone();
                m.eval();
                if w2.svm.process(&ixs, &[keeper]).is_ok() {
                    m.count("probe_liquidation_succeeded");
                    m.nontrivial(format!("probe:{pos}:{step}").as_bytes());
                    liquidation_was_due_in(&w2, "probe_", &sim, &pre, &pos, shard, step, m);
                } else {
                    m.count("probe_liquidation_rejected");
                }
            }
        }
        match &rec.op {
            Op::Liquidate { position } => {
                m.eval();
                if rec.ok() {
                    m.count("liquidation_succeeded");
                    liquidation_was_due(&sim, &rec.pre, position, shard, step, m);
                    m.nontrivial(format!("liq:{position}").as_bytes());
                    match position_size(&sim.w.svm, position) {
                        None => m.count("liquidated_position_account_closed"),
                        Some((0, 0, 0)) => m.count("liquidated_position_zeroed"),
                        Some(s) => m.violation(
                            "C09:liquidate:position_not_fully_closed",
                            json!({"shard": shard, "step": step, "size_usd": s.0.to_string(), "size_tokens": s.1.to_string(), "collateral": s.2.to_string(), "history": sim.history}),
                        ),
                    }
                } else {
                    m.count("liquidation_rejected");
                }
            }
            Op::Execute { action, .. } if rec.ok() => {
                let a = sim.actions[*action].clone();
                if a.kind != crate::sim::ActKind::Order || a.is_position_cut {
                    continue;
                }
                // an increase that completed?
                let Some(o) = load::<Order>(&sim.w.svm, &a.addr) else { continue };
                let Ok(kind) = o.params().kind() else { continue };
                let is_increase = matches!(kind, OrderKind::MarketIncrease | OrderKind::LimitIncrease);
                let is_decrease = matches!(kind, OrderKind::MarketDecrease | OrderKind::LimitDecrease | OrderKind::StopLossDecrease);
                if !is_increase && !is_decrease {
                    continue;
                }
                use gmsol_store::states::common::action::Action;
                if !o.header().action_state().map(|s| s.is_completed()).unwrap_or(false) {
                    continue;
                }
                let Some(pos) = o.params().position().copied() else { continue };
                if position_size(&sim.w.svm, &pos).map(|s| s.0 == 0).unwrap_or(true) {
                    continue;
                }
                // simulated liquidation at the same prices / clock must be rejected
                let keeper = sim.w.keeper;
                let mut w2 = sim.w.clone();
                if let Some((ixs, _)) = w2.position_cut_ixs(keeper, pos, None) {
                    m.eval();
                    match (w2.svm.process(&ixs, &[keeper]), is_increase) {
                        (Ok(_), true) => m.violation(
                            "C09:increase:position_liquidatable_right_after_successful_increase",
                            json!({"shard": shard, "step": step, "position": pos.to_string(), "history": sim.history}),
                        ),
                        (Err(_), true) => {
                            m.count("healthy_after_increase_confirmed_by_rejected_liquidation");
                            m.nontrivial(format!("inc:{pos}:{step}").as_bytes());
                        }
                        (Ok(_), false) => {
                            // the decrease path does not re-validate the absolute minimum collateral value
                            // (listed finding, judged at model level): only a position that is liquidatable for
                            // another reason than that minimum is a new violation here
                            let only_min_value = verdicts(&sim.w, &sim.w.svm, &pos, &ev_prices(&sim.w))
                                .map(|(with_min, without_min)| with_min.is_some() && without_min.is_none());
                            match only_min_value {
                                Some(true) => m.count("open_after_decrease_below_min_collateral_value_only(listed_model_finding)"),
                                Some(false) => m.violation(
                                    "C09:decrease:position_liquidatable_right_after_successful_decrease",
                                    json!({"shard": shard, "step": step, "position": pos.to_string(), "history": sim.history}),
                                ),
                                None => m.count("decrease_follow_up_verdict_not_computable"),
                            }
                        }
                        (Err(_), false) => {
                            m.count("healthy_after_decrease_confirmed_by_rejected_liquidation");
                            m.nontrivial(format!("dec:{pos}:{step}").as_bytes());
                        }
                    }
                }
            }
            _ => {}
        }
    }
}

fn unit_price(usd_e18: u128, decimals: u8) -> u128 {
    usd_e18 * 100 / 10u128.pow(decimals as u32)
}

/// Dedicated ADL scenario.
fn adl_part(args: &Args, shard: u64, m: &mut Monitor) {
    let mut rng = Rng::derive(args.seed, shard, 0x0901);
    let rounds = args.scale(6, 20);
    for round in 0..rounds {
        let mut w = World::bootstrap_store();
        w.bootstrap_oracle();
        let btc = w.add_token("BTC", 8, 2, true);
        let sol = w.add_token("SOL", 9, 4, false);
        let usdc = w.add_token("USDC", 6, 6, false);
        let mk = w.add_market(btc, sol, usdc);
        for (k, v) in [
            ("max_pool_amount_for_long_token", 1_000_000_000_000_000_000u128),
            ("max_pool_amount_for_short_token", 1_000_000_000_000_000_000u128),
            ("max_pool_value_for_deposit_for_long_token", 1_000_000_000 * UNIT),
            ("max_pool_value_for_deposit_for_short_token", 1_000_000_000 * UNIT),
        ] {
            let _ = w.set_market_config(mk, k, v);
        }
        let is_long = rng.bool();
        let max_adl = rng.range_u128(5, 40) * UNIT / 100;
        let min_after = max_adl / rng.range_u128(2, 5);
        let side = if is_long { "long" } else { "short" };
        let _ = w.set_market_config(mk, &format!("max_pnl_factor_for_{side}_adl"), max_adl);
        let _ = w.set_market_config(mk, &format!("min_pnl_factor_after_{side}_adl"), min_after);
        // the other side gets clearly different (laxer or stricter) values, so that a limit or a floor looked up for
        // the wrong side shows
        let other = if is_long { "short" } else { "long" };
        let lax = rng.bool();
        let _ = w.set_market_config(mk, &format!("max_pnl_factor_for_{other}_adl"), if lax { 1 } else { UNIT });
        let _ = w.set_market_config(mk, &format!("min_pnl_factor_after_{other}_adl"), if lax { 0 } else { max_adl });
        let mut btc_p = 60_000 * E18;
        let publish = |w: &mut World, btc_p: u128| {
            let _ = w.set_price(btc, btc_p - btc_p / 10_000, btc_p, btc_p + btc_p / 10_000);
            let _ = w.set_price(sol, 150 * E18, 150 * E18, 150 * E18);
            let _ = w.set_price(usdc, E18, E18, E18);
        };
        publish(&mut w, btc_p);
        let lp = w.add_user("lp");
        let (sol_m, usdc_m) = (w.tokens[sol].mint, w.tokens[usdc].mint);
        token::fund_ata(&mut w.svm, &lp, &sol_m, 1_000_000 * 1_000_000_000);
        token::fund_ata(&mut w.svm, &lp, &usdc_m, 100_000_000 * 1_000_000);
        let d = w.create_deposit(lp, mk, 6_000 * 1_000_000_000, 1_000_000 * 1_000_000, None, None, &[], &[], 0);
        let Ok(d) = d else { m.inconclusive("adl scenario: lp deposit failed"); return };
        if w.execute_deposit(d, true).is_err() {
            m.inconclusive("adl scenario: lp deposit execution failed");
            return;
        }
        // traders
        let mut positions = vec![];
        for t in 0..3 {
            let u = w.add_user(&format!("t{t}"));
            token::fund_ata(&mut w.svm, &u, &usdc_m, 10_000_000 * 1_000_000);
            let mut req = OrderReq::new(OrderKind::MarketIncrease, mk, is_long, false);
            let coll = rng.range(5_000, 40_000);
            req.initial_collateral_delta_amount = coll * 1_000_000;
            req.size_delta_value = coll as u128 * rng.range_u128(2, 8) * UNIT;
            if let Ok(o) = w.create_order(u, &req) {
                if w.execute_order(o, true).is_ok() {
                    positions.push(w.position_pda(&u, mk, is_long, false));
                    m.count("adl_scenario_positions_opened");
                }
            }
        }
        if positions.is_empty() {
            m.count("adl_scenario_without_positions");
            continue;
        }
        // move the price in the traders' favour until ADL becomes possible, trying ADL along the way
        for hop in 0..8 {
            w.svm.warp(rng.range_i64(2, 20));
            btc_p = if is_long { btc_p / 100 * rng.range(105, 125) as u128 } else { btc_p / 100 * rng.range(80, 96) as u128 };
            publish(&mut w, btc_p);
            let keeper = w.keeper;
            let ix = w.update_adl_state_ix(keeper, mk, is_long);
            let _ = w.send(&[ix], &[keeper]);
            let enabled = load::<Market>(&w.svm, &w.markets[mk].market).map(|x| x.is_adl_enabled(is_long)).unwrap_or(false);
            m.count(if enabled { "adl_enabled_observed" } else { "adl_not_enabled_observed" });
            for p in positions.clone() {
                let Some((size, _, _)) = position_size(&w.svm, &p) else { continue };
                if size == 0 {
                    continue;
                }
                let s = match rng.below(3) {
                    0 => size,
                    _ => rng.range_u128(size / 10 + 1, size),
                };
                let pre_market: Option<Market> = load(&w.svm, &w.markets[mk].market);
                let res = w.auto_deleverage(p, s);
                m.eval();
                match res {
                    Err(_) => m.count("adl_rejected"),
                    Ok(_) => {
                        m.count("adl_succeeded");
                        m.nontrivial(format!("adl:{round}:{hop}:{p}").as_bytes());
                        let keeper = w.keeper;
                        let Some(ev) = load::<TradeData>(&w.svm, &w.event_buffer(&keeper, 0)) else {
                            m.inconclusive("trade event buffer unreadable");
                            continue;
                        };
                        let tp = &ev.prices;
                        let prices = Prices {
                            index_token_price: Price { min: tp.index.min, max: tp.index.max },
                            long_token_price: Price { min: tp.long.min, max: tp.long.max },
                            short_token_price: Price { min: tp.short.min, max: tp.short.max },
                        };
                        let (Some(pre), Some(post)) = (pre_market, load::<Market>(&w.svm, &w.markets[mk].market)) else { continue };
                        // the values this scenario configured for the side of the position (not read back through
                        // the program's own kind/side -> config mapping, which is part of what is being checked)
                        let (limit, min_after_cfg) = (max_adl, min_after);
                        if pre.pnl_factor_config(PnlFactorKind::ForAdl, is_long).ok() != Some(max_adl)
                            || pre.pnl_factor_config(PnlFactorKind::MinAfterAdl, is_long).ok() != Some(min_after)
                        {
                            m.violation("C09:adl:pnl_factor_config_of_the_wrong_side_or_kind", json!({"shard": shard, "round": round, "is_long": is_long,
                                "configured_limit": max_adl.to_string(), "configured_min_after": min_after.to_string()}));
                        }
                        let f_pre = pre.pnl_factor(&prices, is_long, true);
                        let f_post = post.pnl_factor(&prices, is_long, true);
                        let (Ok(f_pre), Ok(f_post)) = (f_pre, f_post) else {
                            m.count("adl_factor_not_computable");
                            continue;
                        };
                        let wit = json!({"shard": shard, "round": round, "hop": hop, "is_long": is_long, "size_delta": s.to_string(),
                            "limit": limit.to_string(), "min_after": min_after_cfg.to_string(), "factor_before": f_pre.to_string(), "factor_after": f_post.to_string(),
                            "btc_price_e18": btc_p.to_string()});
                        if !(f_pre > 0 && f_pre as u128 > limit) {
                            m.violation("C09:adl:succeeded_although_pnl_factor_within_limit", wit.clone());
                        }
                        if f_post >= f_pre {
                            m.violation("C09:adl:pnl_factor_not_lowered", wit.clone());
                        }
                        if f_post < 0 || (f_post as u128) < min_after_cfg {
                            m.violation("C09:adl:pnl_factor_below_configured_minimum", wit.clone());
                        }
                        if !enabled {
                            m.violation("C09:adl:succeeded_while_adl_state_disabled", wit);
                        }
                    }
                }
            }
        }
        let _ = unit_price;
    }
}

pub fn run(args: &Args) -> Option<i32> {
    let mut mon = Monitor::new(
        args,
        "instruction level: (a) exchange workload (sim.rs): every successful liquidation must zero / close the \
         position; after every completed increase a simulated liquidation at the same prices must be rejected; \
         (b) dedicated ADL scenarios (lowered pnl-factor limits, price moved in the traders' favour, update_adl_state, \
         auto_deleverage with random sizes): factor before / after recomputed from the market accounts and the prices \
         in the trade event. non-trivial = a successful liquidation / a confirmed-healthy increase / a successful ADL; \
         distinct = the position / step",
    );
    mon.assume("pnl factors are recomputed with gmsol-model's own pnl_factor on the program's Market accounts (the check is on the guard around it, not on the formula; the formula is covered by model-mon)");
    mon.assume("the decrease clause is judged in the model-level part (known finding C09:decrease:min_collateral_usd_not_revalidated)");
    let shards = args.scale(32, 128);
    let quiet = hostsvm::QuietStdout::new();
    run_shards(&mut mon, args.threads, shards, |shard, m| {
        if shard % 4 == 3 {
            adl_part(args, shard, m);
        } else {
            sim_part(args, shard, m);
        }
    });
    drop(quiet);
    mon.require("healthy_after_increase_confirmed_by_rejected_liquidation", 50);
    mon.require("liquidation_rejected", 20);
    Some(mon.finish())
}
