//! Monitor for C09 (see /verif/DESIGN.md §5 C09).
use vcommon::Args;

pub fn run(_args: &Args) -> Option<i32> {
    None
}
