//! Monitor for C19 (see /verif/DESIGN.md §5 C19).
use vcommon::Args;

pub fn run(_args: &Args) -> Option<i32> {
    None
}
