//! C19 — privileged instructions reject callers without the required role.
//!
//! Mechanism: *authority-mutation replay*. Every successful transaction of the traced workloads
//! (bootstrap, exchange workload, configuration / oracle / GT / GLV / treasury / timelock scenarios)
//! is re-executed from its own pre-state snapshot, instruction by instruction, with the authority
//! mutated:
//!   A. same signer and accounts after the signer's required role was revoked through the real
//!      `revoke_role` (discriminating: nothing else changed);
//!   B. the signer replaced by a stranger holding no role;
//!   C. the signer replaced by a key that holds every *other* role.
//! All variants must be rejected. The table below (instruction → documented privilege) is written from
//! the instruction documentation, independently of the `#[access_control]` attributes.
//!
//! Honest note: "a rejection leaves all accounts unchanged" follows from transaction atomicity, which
//! the runtime (here: hostsvm) provides; what is observed is the rejection.
use crate::sim::Sim;
use crate::world::{exchange::load, *};
use anchor_lang::{prelude::Pubkey, solana_program::{hash::hashv, instruction::Instruction}};
use gmsol_store::states::Store;
use gmsol_utils::role::RoleKey;
use hostsvm::Svm;
use std::collections::{BTreeMap, BTreeSet};
use vcommon::{json, monitor::run_shards, Args, Monitor};

#[derive(Clone, Copy, Debug, PartialEq, Eq)]
pub enum Priv {
    /// Store authority (admin) only.
    Admin,
    /// Holder of the named store role.
    Role(&'static str),
    /// MARKET_KEEPER or MARKET_CONFIG_KEEPER (policy details: C20).
    MarketConfig,
    /// Bound to a specific key recorded in an account (owner, receiver, buffer authority, …);
    /// a stranger must be rejected.
    Bound,
    /// Owner, or ORDER_KEEPER for terminal actions (details: C23); a stranger must be rejected.
    OwnerOrKeeper,
    /// Needs no privilege by design (acts on the signer's own accounts / read-only / anyone may pay).
    Open,
}

use Priv::*;

pub const STORE_TABLE: &[(&str, Priv)] = &[
    ("initialize", Open),
    ("update_last_restarted_slot", Admin),
    ("transfer_store_authority", Admin),
    ("accept_store_authority", Bound),
    ("transfer_receiver", Bound),
    ("accept_receiver", Bound),
    ("set_token_map", Role(RoleKey::MARKET_KEEPER)),
    ("check_admin", Open),
    ("check_role", Open),
    ("has_admin", Open),
    ("has_role", Open),
    ("enable_role", Admin),
    ("disable_role", Admin),
    ("grant_role", Admin),
    ("revoke_role", Admin),
    ("insert_amount", Role(RoleKey::CONFIG_KEEPER)),
    ("insert_factor", Role(RoleKey::CONFIG_KEEPER)),
    ("insert_address", Role(RoleKey::CONFIG_KEEPER)),
    ("insert_order_fee_discount_for_referred_user", Role(RoleKey::MARKET_KEEPER)),
    ("toggle_feature", Role(RoleKey::FEATURE_KEEPER)),
    ("initialize_token_map", Open),
    ("push_to_token_map", Role(RoleKey::MARKET_KEEPER)),
    ("push_to_token_map_synthetic", Role(RoleKey::MARKET_KEEPER)),
    ("toggle_token_config", Role(RoleKey::MARKET_KEEPER)),
    ("toggle_token_price_adjustment", Role(RoleKey::MARKET_KEEPER)),
    ("set_feed_config_market_status_flag", Role(RoleKey::MARKET_KEEPER)),
    ("set_expected_provider", Role(RoleKey::MARKET_KEEPER)),
    ("set_feed_config_v2", Role(RoleKey::MARKET_KEEPER)),
    ("is_token_config_enabled", Open),
    ("token_expected_provider", Open),
    ("token_feed", Open),
    ("token_timestamp_adjustment", Open),
    ("token_name", Open),
    ("token_decimals", Open),
    ("token_precision", Open),
    ("initialize_oracle", Open),
    ("clear_all_prices", Role(RoleKey::ORACLE_CONTROLLER)),
    ("set_prices_from_price_feed", Role(RoleKey::ORACLE_CONTROLLER)),
    ("initialize_price_feed", Role(RoleKey::PRICE_KEEPER)),
    ("update_price_feed_with_chainlink", Role(RoleKey::PRICE_KEEPER)),
    ("update_price_feed_with_chainlink_idempotent", Role(RoleKey::PRICE_KEEPER)),
    ("initialize_market", Role(RoleKey::MARKET_KEEPER)),
    ("toggle_market", Role(RoleKey::MARKET_KEEPER)),
    ("market_transfer_in", Role(RoleKey::MARKET_KEEPER)),
    ("update_market_config", MarketConfig),
    ("update_market_config_flag", MarketConfig),
    ("update_market_config_with_buffer", MarketConfig),
    ("get_market_status", Open),
    ("get_market_token_price", Open),
    ("get_market_token_value", Open),
    ("initialize_market_config_buffer", Open),
    ("set_market_config_buffer_authority", Bound),
    ("close_market_config_buffer", Bound),
    ("push_to_market_config_buffer", Bound),
    ("set_market_config_updatable", Role(RoleKey::MARKET_KEEPER)),
    ("toggle_gt_minting", Role(RoleKey::MARKET_KEEPER)),
    ("claim_fees_from_market", Bound),
    ("initialize_market_vault", Role(RoleKey::MARKET_KEEPER)),
    ("use_claimable_account", Role(RoleKey::ORDER_KEEPER)),
    ("close_empty_claimable_account", Role(RoleKey::ORDER_KEEPER)),
    ("prepare_associated_token_account", Open),
    ("create_token_metadata", Role(RoleKey::MARKET_KEEPER)),
    ("update_token_metadata", Role(RoleKey::MARKET_KEEPER)),
    ("create_deposit", Open),
    ("close_deposit", OwnerOrKeeper),
    ("execute_deposit", Role(RoleKey::ORDER_KEEPER)),
    ("create_withdrawal", Open),
    ("close_withdrawal", OwnerOrKeeper),
    ("execute_withdrawal", Role(RoleKey::ORDER_KEEPER)),
    ("prepare_position", Open),
    ("create_order_v2", Open),
    ("close_order_v2", OwnerOrKeeper),
    ("settle_builder_fee", Open),
    ("cancel_order_if_no_position", Role(RoleKey::ORDER_KEEPER)),
    ("close_empty_position", Bound),
    ("prepare_trade_event_buffer", Open),
    ("update_order_v2", Bound),
    ("set_should_keep_position_account", Bound),
    ("execute_increase_or_swap_order_v2", Role(RoleKey::ORDER_KEEPER)),
    ("execute_decrease_order_v2", Role(RoleKey::ORDER_KEEPER)),
    ("liquidate", Role(RoleKey::ORDER_KEEPER)),
    ("update_adl_state", Role(RoleKey::ORDER_KEEPER)),
    ("auto_deleverage", Role(RoleKey::ORDER_KEEPER)),
    ("update_closed_state", Role(RoleKey::ORDER_KEEPER)),
    ("update_fees_state", Role(RoleKey::ORDER_KEEPER)),
    ("create_shift", Open),
    ("execute_shift", Role(RoleKey::ORDER_KEEPER)),
    ("close_shift", OwnerOrKeeper),
    ("initialize_gt", Role(RoleKey::MARKET_KEEPER)),
    ("gt_set_order_fee_discount_factors", Role(RoleKey::MARKET_KEEPER)),
    ("gt_set_referral_reward_factors", Role(RoleKey::GT_CONTROLLER)),
    ("gt_set_exchange_time_window", Role(RoleKey::GT_CONTROLLER)),
    ("prepare_gt_exchange_vault", Open),
    ("confirm_gt_exchange_vault_v2", Role(RoleKey::GT_CONTROLLER)),
    ("request_gt_exchange", Open),
    ("close_gt_exchange", Role(RoleKey::GT_CONTROLLER)),
    ("update_gt_cumulative_inv_cost_factor", Role(RoleKey::GT_CONTROLLER)),
    ("mint_gt_reward", Role(RoleKey::GT_CONTROLLER)),
    ("prepare_user", Open),
    ("initialize_referral_code", Open),
    ("set_referrer", Open),
    ("set_builder_fee_factor", Open),
    ("transfer_referral_code", Open),
    ("cancel_referral_code_transfer", Open),
    ("accept_referral_code", Open),
    ("initialize_glv", Role(RoleKey::MARKET_KEEPER)),
    ("update_glv_market_config", Role(RoleKey::MARKET_KEEPER)),
    ("toggle_glv_market_flag", Role(RoleKey::MARKET_KEEPER)),
    ("update_glv_config", Role(RoleKey::MARKET_KEEPER)),
    ("insert_glv_market", Role(RoleKey::MARKET_KEEPER)),
    ("remove_glv_market", Role(RoleKey::MARKET_KEEPER)),
    ("create_glv_deposit", Open),
    ("close_glv_deposit", OwnerOrKeeper),
    ("execute_glv_deposit", Role(RoleKey::ORDER_KEEPER)),
    ("create_glv_withdrawal", Open),
    ("close_glv_withdrawal", OwnerOrKeeper),
    ("execute_glv_withdrawal", Role(RoleKey::ORDER_KEEPER)),
    ("create_glv_shift", Role(RoleKey::ORDER_KEEPER)),
    ("close_glv_shift", Role(RoleKey::ORDER_KEEPER)),
    ("execute_glv_shift", Role(RoleKey::ORDER_KEEPER)),
    ("get_glv_token_value", Open),
    ("migrate_referral_code", Role(RoleKey::MIGRATION_KEEPER)),
    ("initialize_callback_authority", Open),
    ("close_virtual_inventory", Role(RoleKey::MARKET_KEEPER)),
    ("disable_virtual_inventory", Role(RoleKey::MARKET_KEEPER)),
    ("leave_disabled_virtual_inventory", Role(RoleKey::MARKET_KEEPER)),
    ("create_virtual_inventory_for_swaps", Role(RoleKey::MARKET_KEEPER)),
    ("join_virtual_inventory_for_swaps", Role(RoleKey::MARKET_KEEPER)),
    ("leave_virtual_inventory_for_swaps", Role(RoleKey::MARKET_KEEPER)),
    ("create_virtual_inventory_for_positions", Role(RoleKey::MARKET_KEEPER)),
    ("join_virtual_inventory_for_positions", Role(RoleKey::MARKET_KEEPER)),
    ("leave_virtual_inventory_for_positions", Role(RoleKey::MARKET_KEEPER)),
];

pub fn disc(name: &str) -> [u8; 8] {
    let h = hashv(&[b"global:", name.as_bytes()]).to_bytes();
    let mut d = [0u8; 8];
    d.copy_from_slice(&h[..8]);
    d
}

fn lookup(ix: &Instruction) -> Option<(&'static str, Priv)> {
    if ix.program_id != STORE_PID || ix.data.len() < 8 {
        return None;
    }
    STORE_TABLE.iter().find(|(n, _)| disc(n) == ix.data[..8]).copied()
}

fn has_role(svm: &Svm, store: &Pubkey, who: &Pubkey, role: &str) -> bool {
    load::<Store>(svm, store).map(|s| s.role().has_role(who, role).unwrap_or(false)).unwrap_or(false)
}

fn substitute(ix: &Instruction, from: &Pubkey, to: &Pubkey) -> Instruction {
    let mut ix = ix.clone();
    for m in ix.accounts.iter_mut() {
        if m.pubkey == *from {
            m.pubkey = *to;
        }
    }
    ix
}

struct Env {
    store: Pubkey,
    admin: Pubkey,
}

/// Replay one traced transaction with mutated authorities.
fn replay(m: &mut Monitor, env: &Env, t: &Traced, per_name_budget: &mut BTreeMap<&'static str, u32>, shard: u64) {
    for (i, ix) in t.ixs.iter().enumerate() {
        let Some((name, privilege)) = lookup(ix) else { continue };
        if privilege == Open {
            m.count(&format!("seen_open_{name}"));
            continue;
        }
        let budget = per_name_budget.entry(name).or_insert(0);
        if *budget >= 12 {
            continue;
        }
        // the signer of this instruction
        let Some(signer) = ix.accounts.iter().find(|a| a.is_signer && t.signers.contains(&a.pubkey)).map(|a| a.pubkey) else { continue };
        // state right before instruction i
        let mut base = t.pre.clone();
        if i > 0 && base.process(&t.ixs[..i], &t.signers).is_err() {
            continue;
        }
        // sanity: the instruction alone succeeds from here
        {
            let mut s = base.clone();
            if s.process(std::slice::from_ref(ix), &t.signers).is_err() {
                m.count("replay_baseline_not_reproducible");
                continue;
            }
        }
        *budget += 1;
        m.count(&format!("positive_{name}"));
        let stranger = hostsvm::key("c19-stranger");
        let wit = |variant: &str| json!({"shard": shard, "instruction": name, "variant": variant, "privilege": format!("{privilege:?}"), "signer": signer.to_string()});
        if m.wants_sample() {
            m.sample(wit("positive run recorded; replayed with A: role revoked, B: stranger, C: holder of all other roles"));
        }
        // Variant A: revoke the role of the same signer
        let roles: Vec<&'static str> = match privilege {
            Role(r) => vec![r],
            MarketConfig => vec![RoleKey::MARKET_KEEPER, RoleKey::MARKET_CONFIG_KEEPER],
            _ => vec![],
        };
        if let Role(r) = privilege {
            if !has_role(&base, &env.store, &signer, r) && signer != env.admin {
                m.eval();
                m.violation(&format!("C19:store:{name}:succeeded_without_required_role"), wit("baseline"));
            }
        }
        if !roles.is_empty() {
            let mut s = base.clone();
            let mut revoked = true;
            for r in &roles {
                if has_role(&s, &env.store, &signer, r) {
                    let rv = six(
                        gmsol_store::accounts::RevokeRole { authority: env.admin, store: env.store },
                        gmsol_store::instruction::RevokeRole { user: signer, role: r.to_string() },
                    );
                    if s.process(&[rv], &[env.admin]).is_err() {
                        revoked = false;
                    }
                }
            }
            if revoked && signer != env.admin {
                m.eval();
                match s.process(std::slice::from_ref(ix), &t.signers) {
                    Ok(_) => m.violation(&format!("C19:store:{name}:accepted_after_role_revoked"), wit("A: same signer, role revoked")),
                    Err(_) => {
                        m.count(&format!("denied_A_{name}"));
                        m.nontrivial(format!("A:{name}").as_bytes());
                    }
                }
            }
        }
        // Variant B: a stranger instead of the signer
        {
            let mut s = base.clone();
            s.airdrop(&stranger, 100 * LAMPORTS);
            let ix2 = substitute(ix, &signer, &stranger);
            let signers: Vec<Pubkey> = t.signers.iter().map(|k| if *k == signer { stranger } else { *k }).collect();
            m.eval();
            match s.process(&[ix2], &signers) {
                Ok(_) => m.violation(&format!("C19:store:{name}:accepted_from_stranger"), wit("B: stranger substituted for the signer")),
                Err(_) => {
                    m.count(&format!("denied_B_{name}"));
                    m.nontrivial(format!("B:{name}").as_bytes());
                }
            }
        }
        // Variant C: a key holding every other role incl. RESTART_ADMIN (and, for Admin, every role); no restart pending
        {
            let mut s = base.clone();
            let other = hostsvm::key("c19-other-roles");
            s.airdrop(&other, 100 * LAMPORTS);
            let mut ok = true;
            for r in ALL_ROLES {
                // RESTART_ADMIN is granted too: with no cluster restart pending it confers nothing
                if roles.contains(r) {
                    continue;
                }
                let g = six(
                    gmsol_store::accounts::GrantRole { authority: env.admin, store: env.store },
                    gmsol_store::instruction::GrantRole { user: other, role: r.to_string() },
                );
                if s.process(&[g], &[env.admin]).is_err() {
                    ok = false;
                }
            }
            if ok && matches!(privilege, Role(_) | Admin | MarketConfig) {
                let ix2 = substitute(ix, &signer, &other);
                let signers: Vec<Pubkey> = t.signers.iter().map(|k| if *k == signer { other } else { *k }).collect();
                m.eval();
                match s.process(&[ix2], &signers) {
                    Ok(_) => m.violation(&format!("C19:store:{name}:accepted_from_holder_of_other_roles"), wit("C: signer replaced by a holder of all other roles")),
                    Err(_) => {
                        m.count(&format!("denied_C_{name}"));
                        m.nontrivial(format!("C:{name}").as_bytes());
                    }
                }
            }
        }
    }
}


/// Additional positive scenarios (each instruction at least once, failures ignored: they only cost
/// coverage). Uses a dedicated world so that toggles do not disturb the exchange workload.
fn extra_scenarios(seed: u64, shard: u64) -> (Env, Vec<Traced>) {
    use gmsol_store::{accounts as sa, instruction as si};
    use gmsol_utils::oracle::PriceProviderKind;
    let _ = (seed, shard);
    let mut w = World::bootstrap_store_with_trace(3);
    w.bootstrap_oracle();
    let btc = w.add_token("BTC", 8, 2, true);
    let sol = w.add_token("SOL", 9, 4, false);
    let usdc = w.add_token("USDC", 6, 6, false);
    let mk = w.add_market(btc, sol, usdc);
    let (keeper, admin, store, token_map) = (w.keeper, w.admin, w.store, w.token_map);
    let market = w.markets[mk].market;
    let sol_mint = w.tokens[sol].mint;
    let mut go = |w: &mut World, ix: Instruction, signers: &[Pubkey]| {
        let _ = w.send(&[ix], signers);
    };
    go(&mut w, six(sa::ToggleFeature { authority: keeper, store }, si::ToggleFeature { domain: "deposit".into(), action: "create".into(), enable: false }), &[keeper]);
    go(&mut w, six(sa::ToggleFeature { authority: keeper, store }, si::ToggleFeature { domain: "deposit".into(), action: "create".into(), enable: true }), &[keeper]);
    go(&mut w, six(sa::ToggleTokenConfig { authority: keeper, store, token_map }, si::ToggleTokenConfig { token: sol_mint, enable: false }), &[keeper]);
    go(&mut w, six(sa::ToggleTokenConfig { authority: keeper, store, token_map }, si::ToggleTokenConfig { token: sol_mint, enable: true }), &[keeper]);
    go(&mut w, six(sa::ToggleTokenConfig { authority: keeper, store, token_map }, si::ToggleTokenPriceAdjustment { token: sol_mint, enable: true }), &[keeper]);
    go(&mut w, six(sa::SetExpectedProvider { authority: keeper, store, token_map }, si::SetExpectedProvider { token: sol_mint, provider: PriceProviderKind::Pyth as u8 }), &[keeper]);
    go(&mut w, six(sa::SetExpectedProvider { authority: keeper, store, token_map }, si::SetExpectedProvider { token: sol_mint, provider: PriceProviderKind::ChainlinkDataStreams as u8 }), &[keeper]);
    go(
        &mut w,
        six(
            sa::SetFeedConfig { authority: keeper, store, token_map },
            si::SetFeedConfigV2 { token: sol_mint, provider: PriceProviderKind::ChainlinkDataStreams as u8, feed: None, timestamp_adjustment: Some(1), max_deviation_factor: Some(UNIT / 100) },
        ),
        &[keeper],
    );
    go(&mut w, six(sa::ToggleMarket { authority: keeper, store, market }, si::ToggleMarket { enable: false }), &[keeper]);
    go(&mut w, six(sa::ToggleMarket { authority: keeper, store, market }, si::ToggleMarket { enable: true }), &[keeper]);
    go(&mut w, six(sa::ToggleGTMinting { authority: keeper, store, market }, si::ToggleGtMinting { enable: true }), &[keeper]);
    go(&mut w, six(sa::InsertConfig { authority: keeper, store }, si::InsertAddress { key: "holding".into(), address: hostsvm::key("new-holding") }), &[keeper]);
    go(&mut w, six(sa::InsertConfig { authority: keeper, store }, si::InsertOrderFeeDiscountForReferredUser { factor: UNIT / 10 }), &[keeper]);
    // idempotent feed update
    {
        let ts = w.svm.clock.unix_timestamp;
        let e18 = crate::sim::E18;
        let r = w.report_for(sol, vcommon::big::b(149 * e18), vcommon::big::b(150 * e18), vcommon::big::b(151 * e18), ts);
        let ix = w.update_feed_ix(sol, r.compressed_full_report(), true, keeper);
        go(&mut w, ix, &[keeper]);
    }
    // config buffer by the keeper
    {
        let buffer = hostsvm::key("c19-cfgbuf");
        let init = six(
            sa::InitializeMarketConfigBuffer { authority: keeper, store, buffer, system_program: anchor_lang::system_program::ID },
            si::InitializeMarketConfigBuffer { expire_after_secs: 600 },
        );
        let _ = w.send(&[init], &[keeper, buffer]);
        go(
            &mut w,
            six(
                sa::PushToMarketConfigBuffer { authority: keeper, buffer, system_program: anchor_lang::system_program::ID },
                si::PushToMarketConfigBuffer { new_configs: vec![gmsol_store::states::market::config::EntryArgs { key: "swap_fee_receiver_factor".into(), value: UNIT / 3 }] },
            ),
            &[keeper],
        );
        go(&mut w, six(sa::UpdateMarketConfigWithBuffer { authority: keeper, store, market, buffer }, si::UpdateMarketConfigWithBuffer {}), &[keeper]);
        go(&mut w, six(sa::SetMarketConfigBufferAuthority { authority: keeper, buffer }, si::SetMarketConfigBufferAuthority { new_authority: keeper }), &[keeper]);
        go(&mut w, six(sa::CloseMarketConfigBuffer { authority: keeper, buffer, receiver: keeper }, si::CloseMarketConfigBuffer {}), &[keeper]);
    }
    // virtual inventories
    {
        let vi = pda::find_virtual_inventory_for_swaps_address(&store, 0, &STORE_PID).0;
        go(
            &mut w,
            six(
                sa::CreateVirtualInventoryForSwaps { authority: keeper, store, virtual_inventory: vi, system_program: anchor_lang::system_program::ID },
                si::CreateVirtualInventoryForSwaps { index: 0, long_amount_decimals: 9, short_amount_decimals: 6 },
            ),
            &[keeper],
        );
        go(&mut w, six(sa::JoinVirtualInventoryForSwaps { authority: keeper, store, token_map, virtual_inventory: vi, market }, si::JoinVirtualInventoryForSwaps {}), &[keeper]);
        go(&mut w, six(sa::LeaveVirtualInventoryForSwaps { authority: keeper, store, virtual_inventory: vi, market }, si::LeaveVirtualInventoryForSwaps {}), &[keeper]);
        let index_token = w.tokens[btc].mint;
        let vip = pda::find_virtual_inventory_for_positions_address(&store, &index_token, &STORE_PID).0;
        go(
            &mut w,
            six(
                sa::CreateVirtualInventoryForPositions { authority: keeper, store, index_token, virtual_inventory: vip, system_program: anchor_lang::system_program::ID },
                si::CreateVirtualInventoryForPositions {},
            ),
            &[keeper],
        );
        go(&mut w, six(sa::JoinOrLeaveVirtualInventoryForPositions { authority: keeper, store, virtual_inventory: vip, market }, si::JoinVirtualInventoryForPositions {}), &[keeper]);
        go(&mut w, six(sa::JoinOrLeaveVirtualInventoryForPositions { authority: keeper, store, virtual_inventory: vip, market }, si::LeaveVirtualInventoryForPositions {}), &[keeper]);
        go(&mut w, six(sa::DisableVirtualInventory { authority: keeper, store, virtual_inventory: vi }, si::DisableVirtualInventory {}), &[keeper]);
        let store_wallet = w.store_wallet();
        go(&mut w, six(sa::CloseVirtualInventory { authority: keeper, store, store_wallet, virtual_inventory: vi }, si::CloseVirtualInventory {}), &[keeper]);
    }
    // roles and authorities (admin)
    let pal = hostsvm::key("c19-pal");
    w.svm.airdrop(&pal, 10 * LAMPORTS);
    let _ = w.grant(&pal, RoleKey::ORDER_KEEPER);
    let _ = w.revoke(&pal, RoleKey::ORDER_KEEPER);
    go(&mut w, six(sa::DisableRole { authority: admin, store }, si::DisableRole { role: RoleKey::MIGRATION_KEEPER.into() }), &[admin]);
    go(&mut w, six(sa::UpdateLastRestartedSlot { authority: admin, store }, si::UpdateLastRestartedSlot {}), &[admin]);
    go(&mut w, six(sa::TransferReceiver { authority: admin, store, next_receiver: pal }, si::TransferReceiver {}), &[admin]);
    go(&mut w, six(sa::AcceptReceiver { next_receiver: pal, store }, si::AcceptReceiver {}), &[pal]);
    go(&mut w, six(sa::TransferStoreAuthority { authority: admin, store, next_authority: pal }, si::TransferStoreAuthority {}), &[admin]);
    go(&mut w, six(sa::AcceptStoreAuthority { next_authority: pal, store }, si::AcceptStoreAuthority {}), &[pal]);
    // the env's admin is the ORIGINAL admin for replays of transactions recorded before the transfer;
    // revocations in replays run on the recorded pre-states, where `admin` was still the authority.
    let env = Env { store, admin };
    let traces = w.take_trace();
    (env, traces)
}

/// GT and GLV administration / keeper scenarios (world helpers written for the C30 / C45 monitors).
fn gt_glv_scenarios() -> (Env, Vec<Traced>) {
    use crate::world::gt::GtParams;
    use gmsol_store::states::glv::UpdateGlvParams;
    use gmsol_utils::glv::GlvMarketFlag;
    let mut sim = Sim::new_traced(7, 0, 3);
    let w = &mut sim.w;
    let keeper = w.keeper;
    let user = sim.users[0];
    let _ = w.initialize_gt(&GtParams { decimals: 7, initial_minting_cost: 100 * UNIT / 10_000_000, grow_factor: UNIT + UNIT / 100, grow_step: 1_000_000_000, ranks: vec![10_000_000, 100_000_000, 1_000_000_000] });
    let _ = w.toggle_gt_minting(0, true);
    let _ = w.gt_set_order_fee_discount_factors(vec![0, UNIT / 100, UNIT / 50, UNIT / 20]);
    let _ = w.gt_set_referral_reward_factors(vec![0, UNIT / 100, UNIT / 50, UNIT / 20]);
    let _ = w.gt_set_exchange_time_window(3600);
    let _ = w.prepare_user(user);
    let _ = w.mint_gt_reward(keeper, user, 50_000_000);
    let _ = w.update_gt_cumulative_inv_cost_factor(keeper);
    let idx = w.svm.clock.unix_timestamp / 86_400;
    if let Ok(vault) = w.prepare_gt_exchange_vault(keeper, idx) {
        let _ = w.request_gt_exchange(user, vault, 10_000_000);
        w.svm.warp(86_400 + 10);
        let _ = w.confirm_gt_exchange_vault(keeper, vault, 0, None);
        let _ = w.close_gt_exchange(keeper, user, vault);
    }
    sim.refresh_prices();
    let w = &mut sim.w;
    // GLV over the two SOL/USDC markets with different index tokens (0 and 3)
    if let Ok(glv) = w.initialize_glv(0, &[0]) {
        let _ = w.insert_glv_market(&glv, 3);
        let mt0 = w.markets[0].market_token;
        let _ = w.update_glv_market_config(&glv, mt0, Some(u64::MAX / 2), Some(u128::MAX / 4));
        let _ = w.toggle_glv_market_flag(&glv, mt0, GlvMarketFlag::IsDepositAllowed, true);
        let mt3 = w.markets[3].market_token;
        let _ = w.update_glv_market_config(&glv, mt3, Some(u64::MAX / 2), Some(u128::MAX / 4));
        let _ = w.toggle_glv_market_flag(&glv, mt3, GlvMarketFlag::IsDepositAllowed, true);
        let _ = w.update_glv_config(&glv, UpdateGlvParams { min_tokens_for_first_deposit: None, shift_min_interval_secs: Some(0), shift_max_price_impact_factor: Some(UNIT), shift_min_value: Some(0) });
        if let Ok(d) = w.create_glv_deposit(user, &glv, 0, 0, 2_000_000_000, 300_000_000, 0, 0) {
            let _ = w.execute_glv_deposit(d, false);
            let _ = w.close_glv_deposit(keeper, d);
        }
        if let Ok(s) = w.create_glv_shift(&glv, 0, 3, 1_000_000, 0) {
            let _ = w.execute_glv_shift(s, false);
            let _ = w.close_glv_shift(s);
        }
        let gt_bal = hostsvm::token::token_amount(&w.svm, &crate::world::glv::ata22(&user, &glv.glv_token)).unwrap_or(0);
        if let Ok(wd) = w.create_glv_withdrawal(user, &glv, 0, gt_bal / 2, 0, 0) {
            let _ = w.execute_glv_withdrawal(wd, false);
            let _ = w.close_glv_withdrawal(keeper, wd);
        }
        let _ = w.remove_glv_market(&glv, 3);
    }
    let env = Env { store: w.store, admin: w.admin };
    let traces = w.take_trace();
    (env, traces)
}

fn run_shard(args: &Args, shard: u64, m: &mut Monitor) {
    let mut budget: BTreeMap<&'static str, u32> = BTreeMap::new();
    // Source 1: bootstrap + exchange workload
    let steps = args.scale(220, 500);
    let mut sim = Sim::new_traced(args.seed, shard, 6);
    let env = Env { store: sim.w.store, admin: sim.w.admin };
    for _ in 0..steps {
        let _ = sim.step();
    }
    // Source 2: oracle controller instructions
    {
        let keeper = sim.w.keeper;
        sim.refresh_prices();
        let tokens: Vec<Pubkey> = sim.w.tokens.iter().map(|t| t.mint).collect();
        let feeds: Vec<Pubkey> = sim.w.tokens.iter().map(|t| t.feed).collect();
        let mut ix = six(
            gmsol_store::accounts::SetPricesFromPriceFeed { authority: keeper, store: sim.w.store, oracle: sim.w.oracle, token_map: sim.w.token_map, chainlink_program: None },
            gmsol_store::instruction::SetPricesFromPriceFeed { tokens },
        );
        ix.accounts.extend(feeds.iter().map(|f| anchor_lang::solana_program::instruction::AccountMeta::new_readonly(*f, false)));
        let _ = sim.w.send(&[ix], &[keeper]);
        let clr = six(
            gmsol_store::accounts::ClearAllPrices { authority: keeper, store: sim.w.store, oracle: sim.w.oracle },
            gmsol_store::instruction::ClearAllPrices {},
        );
        let _ = sim.w.send(&[clr], &[keeper]);
        let _ = sim.w.insert_amount("oracle_max_age", 3600);
        let _ = sim.w.insert_factor("oracle_ref_price_deviation", UNIT / 100);
        let store = sim.w.store;
        let _ = sim.w.send(
            &[six(
                gmsol_store::accounts::SetMarketConfigUpdatable { authority: keeper, store },
                gmsol_store::instruction::SetMarketConfigUpdatable { is_flag: false, key: "swap_fee_receiver_factor".into(), updatable: true },
            )],
            &[keeper],
        );
        let ix = sim.w.update_market_config_flag_ix(keeper, 0, "skip_borrowing_fee_for_smaller_side", true);
        let _ = sim.w.send(&[ix], &[keeper]);
    }
    let traces = sim.w.take_trace();
    m.add("traced_transactions", traces.len() as u64);
    for t in &traces {
        replay(m, &env, t, &mut budget, shard);
    }
    // Source 3: admin / configuration / virtual-inventory / authority-transfer scenarios
    if shard % 4 == 0 {
        let (env2, traces2) = extra_scenarios(args.seed, shard);
        m.add("traced_transactions", traces2.len() as u64);
        for t in &traces2 {
            replay(m, &env2, t, &mut budget, shard);
        }
    }
    // Source 4: GT / GLV administration and keeper scenarios
    if shard % 4 == 1 {
        let (env3, traces3) = gt_glv_scenarios();
        m.add("traced_transactions", traces3.len() as u64);
        for t in &traces3 {
            replay(m, &env3, t, &mut budget, shard);
        }
    }
    for (name, n) in budget {
        m.max(&format!("max_variants_runs_{name}"), n as u64);
    }
}

pub fn run(args: &Args) -> Option<i32> {
    let mut mon = Monitor::new(
        args,
        "authority-mutation replay: every successful transaction of the traced workloads (store bootstrap, exchange \
         workload, oracle / config scenarios) is re-executed from its pre-state, per privileged instruction, with \
         (A) the signer's required role revoked via the real revoke_role, (B) a stranger as signer, (C) a holder of \
         all other roles as signer; all must be rejected. non-trivial = a denied variant; distinct = (variant, instruction)",
    );
    mon.assume("privilege table written from the instruction documentation (c19.rs STORE_TABLE)");
    mon.assume("'rejection leaves accounts unchanged' is provided by transaction atomicity (runtime), not observed");
    let shards = args.scale(16, 64);
    let quiet = hostsvm::QuietStdout::new();
    run_shards(&mut mon, args.threads, shards, |shard, m| run_shard(args, shard, m));
    drop(quiet);
    // coverage report: which privileged instructions had a positive scenario with denied variants
    let mut covered: BTreeSet<&str> = BTreeSet::new();
    let mut uncovered: Vec<&str> = vec![];
    for (name, p) in STORE_TABLE {
        if *p == Open {
            continue;
        }
        if mon.counter(&format!("positive_{name}")) > 0 {
            covered.insert(name);
        } else {
            uncovered.push(name);
        }
    }
    mon.set_extra("store_privileged_instructions_covered", json!(covered));
    mon.set_extra("store_privileged_instructions_without_positive_scenario", json!(uncovered));
    mon.set_extra(
        "other_programs",
        json!("treasury / timelock / liquidity-provider / competition instruction tables: scenarios not wired into this check yet; their role rules are exercised by the C36 / C37 / C38 / C39 monitors' own negative cases"),
    );
    mon.add("privileged_instructions_covered", covered.len() as u64);
    mon.require("privileged_instructions_covered", 15);
    Some(mon.finish())
}
